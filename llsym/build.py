"""Build artefacts from /repo's *current working tree*: linked LLVM IR, debug-info layout, native replay library.

Everything goes to a scratch directory created with mkdtemp (outside /repo and /verif) and removed at exit.
"""
import os, subprocess, tempfile, shutil, atexit, hashlib, re, time, sys
from concurrent.futures import ThreadPoolExecutor

REPO = os.environ.get('VERIF_REPO', '/repo')
SKIP = {'glad', 'display', 'communication_mpi'}
CFLAGS = ['-std=c99', '-D_GNU_SOURCE', '-DLIBREBOUND', '-DSERVER', '-w']

_scratch = None
def scratch():
    global _scratch
    if _scratch is None:
        _scratch = tempfile.mkdtemp(prefix='llsym_')
        atexit.register(lambda: shutil.rmtree(_scratch, ignore_errors=True))
    return _scratch

def sources():
    d = os.path.join(REPO, 'src')
    return sorted(f[:-2] for f in os.listdir(d) if f.endswith('.c') and f[:-2] not in SKIP)

def tree_digest():
    h = hashlib.sha256()
    for root in ('src', 'rebound'):
        for dp, dn, fn in sorted(os.walk(os.path.join(REPO, root))):
            if '__pycache__' in dp or '/tests' in dp: continue
            for f in sorted(fn):
                if f.endswith(('.c', '.h', '.py')):
                    p = os.path.join(dp, f)
                    h.update(p.encode()); h.update(open(p, 'rb').read())
    return h.hexdigest()[:16]

def _run(cmd, **kw):
    r = subprocess.run(cmd, capture_output=True, text=True, **kw)
    if r.returncode != 0:
        raise RuntimeError("build step failed: %s\n%s" % (' '.join(cmd), r.stderr[-3000:]))
    return r

_ir_cache = {}
def build_ir(debug=False):
    """returns path of the linked, mem2reg'd textual IR of the whole library"""
    key = ('ir', debug)
    if key in _ir_cache: return _ir_cache[key]
    d = os.path.join(scratch(), 'ir_g' if debug else 'ir'); os.makedirs(d, exist_ok=True)
    srcs = sources()
    def one(b):
        ll = os.path.join(d, b + '.ll')
        cmd = ['clang-14'] + CFLAGS + ['-O0', '-Xclang', '-disable-O0-optnone', '-ffp-contract=off', '-S', '-emit-llvm']
        if debug: cmd += ['-g', '-fno-eliminate-unused-debug-types']
        cmd += [os.path.join(REPO, 'src', b + '.c'), '-o', ll]
        _run(cmd)
        if not debug:
            _run(['opt-14', '-S', '-mem2reg', ll, '-o', ll + '.m'])
            return ll + '.m'
        return ll
    with ThreadPoolExecutor(16) as ex:
        outs = list(ex.map(one, srcs))
    out = os.path.join(d, 'all.ll')
    _run(['llvm-link-14', '-S'] + outs + ['-o', out])
    _ir_cache[key] = out
    return out

_mod = None
def module():
    global _mod
    if _mod is None:
        from .ir import Module
        _mod = Module(open(build_ir()).read())
    return _mod

_native = None
def build_native(extra_c=None):
    """gcc -O3 shared library with setup.py's flags; returns path.  Used only for replay / translator validation."""
    global _native
    if _native is not None and extra_c is None: return _native
    d = os.path.join(scratch(), 'native' if extra_c is None else 'native_x'); os.makedirs(d, exist_ok=True)
    srcs = sorted(f for f in os.listdir(os.path.join(REPO, 'src')) if f.endswith('.c') and f[:-2] != 'communication_mpi')
    flags = ['-fstrict-aliasing', '-std=c99', '-Wno-unknown-pragmas', '-DGITHASH=verif', '-DLIBREBOUND', '-D_GNU_SOURCE', '-DSERVER', '-fPIC', '-O3', '-w']
    def one(f):
        o = os.path.join(d, f[:-2] + '.o')
        _run(['gcc'] + flags + ['-c', os.path.join(REPO, 'src', f), '-o', o])
        return o
    with ThreadPoolExecutor(16) as ex:
        objs = list(ex.map(one, srcs))
    if extra_c:
        xo = os.path.join(d, 'extra.o')
        xs = os.path.join(d, 'extra.c'); open(xs, 'w').write(extra_c)
        _run(['gcc'] + flags + ['-I', os.path.join(REPO, 'src'), '-c', xs, '-o', xo]); objs.append(xo)
    so = os.path.join(d, 'librebound.cpython-312-x86_64-linux-gnu.so')
    _run(['gcc', '-shared'] + objs + ['-lm', '-lpthread', '-o', so])
    if extra_c is None: _native = so
    return so

def scratch_package():
    """copy of /repo/rebound next to a freshly built library (the package loads ../librebound*.so). returns dir for PYTHONPATH"""
    so = build_native()
    d = os.path.join(scratch(), 'pkg')
    if not os.path.exists(d):
        os.makedirs(d)
        shutil.copytree(os.path.join(REPO, 'rebound'), os.path.join(d, 'rebound'), ignore=shutil.ignore_patterns('__pycache__', 'tests'))
        shutil.copy(so, d)
    return d

# ------------------------------------------------------------------ debug-info layout (names -> offsets)
class Layout:
    """struct member names/offsets/sizes and enumerators from clang's DWARF metadata of the current headers."""
    def __init__(s, text):
        md = {}
        for m in re.finditer(r'^!(\d+) = (?:distinct )?(.*)$', text, re.M):
            md[int(m.group(1))] = m.group(2)
        s.md = md
        s.structs = {}; s.enums = {}; s.typedefs = {}
        for i, body in md.items():
            if body.startswith('!DICompositeType('):
                tag = _attr(body, 'tag'); name = _attr(body, 'name'); el = _attr(body, 'elements')
                if name is None or el is None: continue
                if 'DIFlagFwdDecl' in body: continue
                name = name.strip('"')
                elems = [int(x) for x in re.findall(r'!(\d+)', md.get(int(el[1:]), ''))]
                if tag in ('DW_TAG_structure_type', 'DW_TAG_union_type'):
                    mem = []
                    for e in elems:
                        b = md[e]
                        if not b.startswith('!DIDerivedType(') or _attr(b, 'tag') != 'DW_TAG_member': continue
                        mem.append(dict(name=(_attr(b, 'name') or '""').strip('"'), offset=int(_attr(b, 'offset') or 0) // 8,
                                        size=int(_attr(b, 'size') or 0) // 8, base=int(_attr(b, 'baseType')[1:]) if _attr(b, 'baseType') else None))
                    size = int(_attr(body, 'size') or 0) // 8
                    if name not in s.structs or len(mem) > len(s.structs[name]['members']):
                        s.structs[name] = dict(members=mem, size=size, id=i)
                elif tag == 'DW_TAG_enumeration_type':
                    vals = {}
                    for e in elems:
                        b = md[e]
                        if b.startswith('!DIEnumerator('):
                            vals[_attr(b, 'name').strip('"')] = int(_attr(b, 'value'))
                    s.enums[name] = vals
        s.enumerators = {}
        for i, body in md.items():
            if body.startswith('!DIEnumerator('):
                s.enumerators[_attr(body, 'name').strip('"')] = int(_attr(body, 'value'))
    def off(s, struct, member):
        cur = struct; off = 0
        for part in member.split('.'):
            st = s.structs[cur]
            for m in st['members']:
                if m['name'] == part:
                    off += m['offset']; cur = s.struct_of(m['base']); break
            else:
                raise KeyError("%s has no member %s" % (cur, part))
        return off
    def member(s, struct, member):
        cur = struct; off = 0; mm = None
        for part in member.split('.'):
            st = s.structs[cur]
            for m in st['members']:
                if m['name'] == part:
                    off += m['offset']; cur = s.struct_of(m['base']); mm = m; break
            else:
                raise KeyError("%s has no member %s" % (cur, part))
        return off, mm['size'], mm
    def struct_of(s, tid):
        """follow typedef/const chains to a struct name (or None)"""
        seen = 0
        while tid is not None and seen < 20:
            b = s.md.get(tid, ''); seen += 1
            if b.startswith('!DICompositeType('):
                n = _attr(b, 'name')
                return n.strip('"') if n else None
            if b.startswith('!DIDerivedType('):
                t = _attr(b, 'tag')
                if t in ('DW_TAG_typedef', 'DW_TAG_const_type', 'DW_TAG_volatile_type', 'DW_TAG_member'):
                    bt = _attr(b, 'baseType'); tid = int(bt[1:]) if bt else None; continue
            return None
        return None
    def type_class(s, tid):
        """coarse class of a DWARF type: ('int',size,signed) ('float',size) ('ptr',) ('struct',name) ('array',elemclass,count) ('enum',name) ('fnptr',)"""
        b = s.md.get(tid, '')
        if b.startswith('!DIBasicType('):
            enc = _attr(b, 'encoding'); size = int(_attr(b, 'size')) // 8
            if enc == 'DW_ATE_float': return ('float', size)
            return ('int', size, enc in ('DW_ATE_signed', 'DW_ATE_signed_char'))
        if b.startswith('!DIDerivedType('):
            t = _attr(b, 'tag')
            if t == 'DW_TAG_pointer_type':
                bt = _attr(b, 'baseType')
                if bt and bt[1:].isdigit() and s.md.get(int(bt[1:]), '').startswith('!DISubroutineType'): return ('fnptr',)
                return ('ptr',)
            bt = _attr(b, 'baseType')
            return s.type_class(int(bt[1:])) if bt and bt[1:].isdigit() else ('void',)
        if b.startswith('!DICompositeType('):
            t = _attr(b, 'tag')
            if t == 'DW_TAG_array_type':
                el = _attr(b, 'elements'); cnts = re.findall(r'count: (-?\d+)', ' '.join(s.md.get(int(x), '') for x in re.findall(r'!(\d+)', s.md.get(int(el[1:]), ''))))
                n = 1
                for c in cnts: n *= int(c)
                return ('array', s.type_class(int(_attr(b, 'baseType')[1:])), n)
            if t == 'DW_TAG_enumeration_type': return ('enum', (_attr(b, 'name') or '').strip('"'), int(_attr(b, 'size')) // 8)
            return ('struct', (_attr(b, 'name') or '').strip('"'), int(_attr(b, 'size') or 0) // 8)
        if b.startswith('!DISubroutineType'): return ('fn',)
        return ('?',)

def _attr(body, key):
    m = re.search(r'\b' + key + r': ("[^"]*"|![0-9]+|[\w.-]+)', body)
    return m.group(1) if m else None

_layout = None
def layout():
    """DWARF of rebound.c alone (it includes every header that declares a mirrored struct)"""
    global _layout
    if _layout is None:
        d = os.path.join(scratch(), 'dbg'); os.makedirs(d, exist_ok=True)
        ll = os.path.join(d, 'rebound_g.ll')
        _run(['clang-14'] + CFLAGS + ['-O0', '-g', '-fno-eliminate-unused-debug-types', '-S', '-emit-llvm', os.path.join(REPO, 'src', 'rebound.c'), '-o', ll])
        _layout = Layout(open(ll).read())
    return _layout
