"""Environment stubs (DESIGN 2.4).  Every stub is part of the claim; evidence lists the ones reached."""
import z3
from .ir import Unsupported, I8, I32, I64, F64, PtrT
from . import engine as E
from .engine import Ptr, NULL, MemError, ExitCalled
from .domains import f2bits

FILE_CAP = 1 << 22

class FileNode:
    def __init__(s, interp, name):
        s.name = name
        s.ptr = interp.mem.alloc(FILE_CAP, 'file:' + name, 'file', zero=True)
        s.length = 0
        s.writes = []          # (pos, n) log in program order (C07 crash model)

class FS:
    def __init__(s):
        s.files = {}
        s.handles = {}         # FILE object id -> dict(node,pos,mode)
        s.fail_open = set()
        s.log = []

def _fs(I):
    fs = getattr(I, 'fs', None)
    if fs is None:
        fs = I.fs = FS()
    return fs

def _len(I, n, what):
    if isinstance(n, int): return n
    return I.ctx.concretize(n, what)

# ---- allocation
def st_malloc(I, n):
    n = _len(I, n, 'malloc size')
    if n >= 1 << 40: raise MemError("malloc of absurd size %d" % n)
    return I.mem.alloc(n, 'malloc#%d' % I.mem.next)
def st_calloc(I, a, b):
    n = _len(I, a, 'calloc') * _len(I, b, 'calloc')
    return I.mem.alloc(n, 'calloc#%d' % I.mem.next, zero=True)
def st_realloc(I, p, n):
    n = _len(I, n, 'realloc size')
    if n >= 1 << 40: raise MemError("realloc to absurd size %d" % n)
    return I.mem.realloc(p, n)
def st_free(I, p):
    I.mem.free(p)

# ---- strings
def st_strlen(I, p): return len(I.mem.cstring(p))
def st_strcmp(I, a, b):
    x = I.mem.cstring(a); y = I.mem.cstring(b)
    return 0 if x == y else ((1 if x > y else -1) & 0xffffffff)
def st_strncmp(I, a, b, n):
    n = _len(I, n, 'strncmp n')
    x = _cstr_upto(I, a, n); y = _cstr_upto(I, b, n)
    return 0 if x == y else ((1 if x > y else -1) & 0xffffffff)
def _cstr_upto(I, p, n):
    o = I.mem.obj(p, 0)
    out = bytearray(); q = p.off
    while len(out) < n:
        if q >= o.size: raise MemError("string read past end of %s" % o.name)
        b = I.mem.byte_at(o, q)
        if not isinstance(b, int):
            if b is E.UNINIT:
                if I.mem.on_uninit == 'zero': b = 0
                else: raise MemError("string read of uninitialised byte in %s" % o.name)
            b = I.ctx.concretize(b, 'string byte')
        if b == 0: break
        out.append(b); q += 1
    return bytes(out)
def st_strcasecmp(I, a, b):
    x = I.mem.cstring(a).lower(); y = I.mem.cstring(b).lower()
    return 0 if x == y else ((1 if x > y else -1) & 0xffffffff)
def st_strncasecmp(I, a, b, n):
    x = _cstr_upto(I, a, n).lower(); y = _cstr_upto(I, b, n).lower()
    return 0 if x == y else ((1 if x > y else -1) & 0xffffffff)
def st_strcpy(I, d, s_):
    b = I.mem.cstring(s_) + b'\0'
    I.mem.set_bytes(d, b); return d
def st_strncpy(I, d, s_, n):
    b = _cstr_upto(I, s_, n)
    b = b + b'\0' * (n - len(b))
    I.mem.set_bytes(d, b); return d
def st_strcat(I, d, s_):
    x = I.mem.cstring(d); b = I.mem.cstring(s_) + b'\0'
    I.mem.set_bytes(Ptr(d.obj, d.off + len(x)), b); return d
def st_strdup(I, s_):
    b = I.mem.cstring(s_) + b'\0'
    p = I.mem.alloc(len(b), 'strdup', zero=True); I.mem.set_bytes(p, b); return p
def st_strchr(I, p, c):
    b = I.mem.cstring(p); k = b.find(bytes([c & 255]))
    if c & 255 == 0: return Ptr(p.obj, p.off + len(b))
    return NULL if k < 0 else Ptr(p.obj, p.off + k)
def _cmp_tokens(I, p, n):
    """bytes of [p, p+n) as comparable tokens: int / BV8 / UNINIT / ('ptr', Ptr, byte index)"""
    o = I.mem.obj(p, n)
    out = []; k = p.off; end = p.off + n
    while k < end:
        c = None
        for q in range(k - 7, k + 1):
            e = o.cells.get(q)
            if e is not None and q + e[0] > k: c = (q, e); break
        if c is not None and isinstance(c[1][1], Ptr) and not (c[1][1].obj == 0 and c[1][1].off == 0):
            out.append(('ptr', c[1][1], k - c[0])); k += 1; continue
        out.append(I.mem.byte_at(o, k)); k += 1
    return out
def st_memcmp(I, a, b, n):
    n = _len(I, n, 'memcmp n')
    if n == 0: return 0
    oa = I.mem.obj(a, n); ob = I.mem.obj(b, n)
    conds = []
    k = 0
    while k < n:
        ca = oa.cells.get(a.off + k); cb = ob.cells.get(b.off + k)
        if ca is not None and cb is not None and ca[0] == cb[0] and k + ca[0] <= n:
            # whole-cell fast path
            x, y = ca[1], cb[1]
            if isinstance(x, Ptr) or isinstance(y, Ptr):
                if isinstance(x, Ptr) and x.obj == 0: x = x.off
                if isinstance(y, Ptr) and y.obj == 0: y = y.off
                if isinstance(x, Ptr) or isinstance(y, Ptr):
                    if x == y: k += ca[0]; continue
                    return 1              # different addresses: the bytes differ
            if isinstance(x, float): x = f2bits(x)
            if isinstance(y, float): y = f2bits(y)
            if isinstance(x, int) and isinstance(y, int):
                if x != y:
                    xb = x.to_bytes(ca[0], 'little'); yb = y.to_bytes(ca[0], 'little')
                    return (1 if xb > yb else -1) & 0xffffffff
                k += ca[0]; continue
            if z3.is_expr(x) and z3.is_expr(y) and x.eq(y): k += ca[0]; continue
            if z3.is_expr(x) and z3.is_bool(x): x = z3.If(x, z3.BitVecVal(1, 8 * ca[0]), z3.BitVecVal(0, 8 * ca[0]))
            if z3.is_expr(y) and z3.is_bool(y): y = z3.If(y, z3.BitVecVal(1, 8 * ca[0]), z3.BitVecVal(0, 8 * ca[0]))
            if z3.is_expr(x) and z3.is_fp(x): x = z3.fpToIEEEBV(x)
            if z3.is_expr(y) and z3.is_fp(y): y = z3.fpToIEEEBV(y)
            if isinstance(x, int): x = z3.BitVecVal(x, 8 * ca[0])
            if isinstance(y, int): y = z3.BitVecVal(y, 8 * ca[0])
            conds.append(x == y); k += ca[0]; continue
        p = _cmp_tokens(I, Ptr(a.obj, a.off + k), 1)[0]; q = _cmp_tokens(I, Ptr(b.obj, b.off + k), 1)[0]
        k += 1
        if isinstance(p, tuple) or isinstance(q, tuple):
            if isinstance(p, tuple) and isinstance(q, tuple) and p[1] == q[1] and p[2] == q[2]: continue
            return 1
        if p is E.UNINIT or q is E.UNINIT:
            I.nondet += 1
            conds.append(z3.Bool('memcmp_uninit!%d' % I.nondet)); continue
        if isinstance(p, int) and isinstance(q, int):
            if p != q: return (1 if p > q else -1) & 0xffffffff
            continue
        conds.append((z3.BitVecVal(p, 8) if isinstance(p, int) else p) == (z3.BitVecVal(q, 8) if isinstance(q, int) else q))
    if not conds: return 0
    eq = z3.simplify(z3.And(*conds))
    if z3.is_true(eq): return 0
    if z3.is_false(eq): return 1
    return z3.If(eq, z3.BitVecVal(0, 32), z3.BitVecVal(1, 32))
def st_atoi(I, p):
    try: return int(I.mem.cstring(p).split()[0]) & 0xffffffff
    except Exception: return 0
def st_strtol(I, p, endp, base):
    b = I.mem.cstring(p); k = 0
    while k < len(b) and (chr(b[k]).isdigit() or (k == 0 and b[k] in b'+-')): k += 1
    v = int(b[:k]) if k and b[:k] not in (b'+', b'-') else 0
    if endp != NULL: I.mem.store(endp, PtrT(I8), Ptr(p.obj, p.off + k))
    return v & ((1 << 64) - 1)
def st_strtok_r(I, s_, delim, save):
    d = I.mem.cstring(delim)
    p = s_ if s_ != NULL else I.mem.load(save, PtrT(I8))
    if p == NULL: return NULL
    b = I.mem.cstring(p); k = 0
    while k < len(b) and b[k] in d: k += 1
    if k == len(b):
        I.mem.store(save, PtrT(I8), NULL); return NULL
    j = k
    while j < len(b) and b[j] not in d: j += 1
    tok = Ptr(p.obj, p.off + k)
    if j < len(b):
        I.mem.set_bytes(Ptr(p.obj, p.off + j), b'\0')
        I.mem.store(save, PtrT(I8), Ptr(p.obj, p.off + j + 1))
    else:
        I.mem.store(save, PtrT(I8), Ptr(p.obj, p.off + j))
    return tok

# ---- formatted output: diagnostics are never the subject; formatting implemented only for concrete ints/strings
def _format(I, fmt, args):
    out = bytearray(); i = 0; ai = 0
    while i < len(fmt):
        c = fmt[i:i + 1]
        if c != b'%': out += c; i += 1; continue
        j = i + 1
        while j < len(fmt) and fmt[j:j + 1] in b'-+ #0123456789.lzhq': j += 1
        conv = fmt[j:j + 1]; spec = fmt[i:j + 1].decode()
        if conv == b'%': out += b'%'; i = j + 1; continue
        a = args[ai] if ai < len(args) else 0; ai += 1
        if conv == b's':
            out += I.mem.cstring(a) if isinstance(a, Ptr) and a != NULL else b'(null)'
        elif conv in b'dixXuc':
            if not isinstance(a, int): out += b'<sym>'
            else:
                sp = spec.replace('l', '').replace('z', '').replace('h', '').replace('q', '')
                if conv in b'di':
                    bits = 64 if ('l' in spec or 'z' in spec) else 32
                    if a >= 1 << (bits - 1): a -= 1 << bits
                out += (sp % a).encode()
        elif conv in b'eEfgG':
            if isinstance(a, float): out += (spec.replace('l', '') % a).encode()
            else: out += b'<real>'
        elif conv == b'p': out += b'<ptr>'
        else: out += b'?'
        i = j + 1
    return bytes(out)
def st_sprintf(I, buf, fmt, *args):
    b = _format(I, I.mem.cstring(fmt), args) + b'\0'
    I.mem.set_bytes(buf, b); return len(b) - 1
def st_snprintf(I, buf, n, fmt, *args):
    b = _format(I, I.mem.cstring(fmt), args)
    n = _len(I, n, 'snprintf n')
    if n > 0: I.mem.set_bytes(buf, b[:n - 1] + b'\0')
    return len(b)
def st_asprintf(I, pp, fmt, *args):
    b = _format(I, I.mem.cstring(fmt), args) + b'\0'
    p = I.mem.alloc(len(b), 'asprintf', zero=True); I.mem.set_bytes(p, b)
    I.mem.store(pp, PtrT(I8), p); return len(b) - 1
def st_printf(I, fmt, *args): return 0
def st_fprintf(I, f, fmt, *args):
    fs = _fs(I); h = fs.handles.get(f.obj) if isinstance(f, Ptr) else None
    if h is None: return 0          # stdout/stderr
    b = _format(I, I.mem.cstring(fmt), args)
    _fwrite_bytes(I, h, b); return len(b)

# ---- model file system
def file_node(I, name, create=False):
    fs = _fs(I)
    n = fs.files.get(name)
    if n is None and create:
        n = fs.files[name] = FileNode(I, name)
    return n
def _open(I, node, mode):
    fs = _fs(I)
    h = I.mem.alloc(8, 'FILE:' + node.name, 'heapfile', zero=True)
    pos = node.length if mode.startswith('a') else 0
    fs.handles[h.obj] = dict(node=node, pos=pos, mode=mode, append=mode.startswith('a'))
    return h
def st_fopen(I, path, mode):
    fs = _fs(I)
    name = I.mem.cstring(path).decode(); m = I.mem.cstring(mode).decode()
    fs.log.append(('fopen', name, m))
    if name in fs.fail_open: return NULL
    node = fs.files.get(name)
    if m[0] == 'r':
        if node is None: return NULL
    elif m[0] == 'w':
        node = file_node(I, name, True); node.length = 0
        o = I.mem.objs[node.ptr.obj]; o.cells.clear(); o.base[:] = bytes(len(o.base))
        node.writes.append(('trunc',))
    else:
        node = file_node(I, name, True)
    return _open(I, node, m)
def st_fclose(I, f):
    fs = _fs(I)
    if f.obj not in fs.handles: raise MemError("fclose of a non-open FILE")
    del fs.handles[f.obj]; I.mem.objs[f.obj].alive = False
    return 0
def _h(I, f):
    fs = _fs(I)
    if not isinstance(f, Ptr) or f.obj not in fs.handles: raise MemError("stdio call on invalid FILE* %r" % (f,))
    return fs.handles[f.obj]
def _fwrite_bytes(I, h, data):
    node = h['node']
    if h['append']: h['pos'] = node.length
    I.mem.set_bytes(Ptr(node.ptr.obj, node.ptr.off + h['pos']), data)
    node.writes.append((h['pos'], len(data)))
    h['pos'] += len(data); node.length = max(node.length, h['pos'])
def st_fwrite(I, p, size, n, f):
    h = _h(I, f)
    tot = _len(I, size, 'fwrite size') * _len(I, n, 'fwrite n')
    if tot == 0: return 0
    node = h['node']
    if h['append']: h['pos'] = node.length
    if h['pos'] + tot > FILE_CAP: raise Unsupported("model file too large")
    I.mem.copy(Ptr(node.ptr.obj, node.ptr.off + h['pos']), p, tot)
    node.writes.append((h['pos'], tot))
    h['pos'] += tot; node.length = max(node.length, h['pos'])
    return n
def st_fread(I, p, size, n, f):
    h = _h(I, f)
    size = _len(I, size, 'fread size'); n = _len(I, n, 'fread n')
    if size == 0 or n == 0: return 0
    node = h['node']
    ln = node.length
    if not isinstance(ln, int):
        # symbolic file length (crash image): decide how many whole items are available
        avail_items = 0
        for k in range(n, 0, -1):
            if I.ctx.branch(z3.UGE(ln, z3.BitVecVal(h['pos'] + k * size, ln.size()))):
                avail_items = k; break
    else:
        avail = max(0, ln - h['pos'])
        avail_items = min(n, avail // size) if size else 0
    tot = avail_items * size
    if tot:
        I.mem.copy(p, Ptr(node.ptr.obj, node.ptr.off + h['pos']), tot)
    # a short read still consumes the partial item (position moves to EOF); callers here only test the count
    if avail_items < n:
        if isinstance(ln, int): h['pos'] = max(h['pos'], ln) if ln >= h['pos'] else h['pos']
        else: h['pos'] += tot; h['eof_sym'] = True
    else:
        h['pos'] += tot
    return avail_items
def st_fseek(I, f, off, whence):
    h = _h(I, f); node = h['node']
    off = _len(I, off, 'fseek offset')
    if off >= 1 << 63: off -= 1 << 64
    ln = node.length
    if whence == 0: np = off
    elif whence == 1: np = h['pos'] + off
    else:
        if not isinstance(ln, int): ln = I.ctx.concretize(ln, 'file length at SEEK_END')
        np = ln + off
    if np < 0: return 0xffffffff
    h['pos'] = np
    return 0
def st_ftell(I, f):
    h = _h(I, f); return h['pos']
def st_fflush(I, f): return 0
def st_fgets(I, buf, n, f):
    h = _h(I, f); node = h['node']
    out = bytearray()
    o = I.mem.objs[node.ptr.obj]
    while len(out) < n - 1 and h['pos'] < node.length:
        b = I.mem.byte_at(o, node.ptr.off + h['pos'])
        if not isinstance(b, int): raise Unsupported("fgets of symbolic byte")
        out.append(b); h['pos'] += 1
        if b == 10: break
    if not out: return NULL
    I.mem.set_bytes(buf, bytes(out) + b'\0'); return buf
class BufNode:
    """read-only stream over a caller-owned buffer (fmemopen)"""
    def __init__(s, buf, n):
        s.name = 'fmemopen'; s.ptr = buf; s.length = n; s.writes = []
def st_fmemopen(I, buf, n, mode):
    n = _len(I, n, 'fmemopen size')
    m = I.mem.cstring(mode).decode()
    if m[0] != 'r': raise Unsupported("fmemopen for writing")
    return _open(I, BufNode(buf, n), m)
def st_access(I, path, mode):
    return 0 if I.mem.cstring(path).decode() in _fs(I).files else 0xffffffff
def st_stat(I, path, st):
    return 0 if I.mem.cstring(path).decode() in _fs(I).files else 0xffffffff

# ---- time, randomness, process
def st_gettimeofday(I, tv, tz):
    if not I.dom.symbolic or getattr(I, 'concrete_env', False):
        I.mem.store(tv, I64, 0); I.mem.store(Ptr(tv.obj, tv.off + 8), I64, 0); return 0
    I.nondet += 1
    I.mem.store(tv, I64, z3.BitVec('time_sec!%d' % I.nondet, 64))
    I.mem.store(Ptr(tv.obj, tv.off + 8), I64, z3.BitVec('time_usec!%d' % I.nondet, 64))
    return 0
def st_usleep(I, n): return 0
def st_getpid(I): return 4242
def st_rand_r(I, seedp):
    if not I.dom.symbolic or getattr(I, 'concrete_env', False):
        import ctypes
        seed = ctypes.c_uint(I.mem.load(seedp, I32))
        r = ctypes.CDLL(None).rand_r(ctypes.byref(seed))
        I.mem.store(seedp, I32, seed.value)
        return r & 0xffffffff
    I.nondet += 1
    r = z3.BitVec('rand_r!%d' % I.nondet, 32)
    I.ctx.assume(z3.ULE(r, 0x7fffffff))
    I.mem.store(seedp, I32, z3.BitVec('rand_seed!%d' % I.nondet, 32))
    I.rand_draws = getattr(I, 'rand_draws', []) + [r]
    return r
def st_exit(I, code): raise ExitCalled(code)
def st_signal(I, sig, h): return NULL
def st_system(I, cmd): return 0
def st_pthread_mutex_lock(I, m):
    locks = I.__dict__.setdefault('locks', {})
    k = (m.obj, m.off)
    if locks.get(k): raise MemError("relock of a held mutex")
    locks[k] = True
    I.__dict__.setdefault('lock_log', []).append(('lock', k)); return 0
def st_pthread_mutex_unlock(I, m):
    locks = I.__dict__.setdefault('locks', {})
    k = (m.obj, m.off)
    if not locks.get(k): raise MemError("unlock of a mutex that is not held")
    locks[k] = False
    I.__dict__.setdefault('lock_log', []).append(('unlock', k)); return 0
def st_pthread_mutex_init(I, m, a): return 0

def st_qsort(I, base, n, size, cmp):
    n = _len(I, n, 'qsort n'); size = _len(I, size, 'qsort size')
    if n < 2: return None
    fname = I.fnname[cmp.obj]
    # insertion sort with the real comparator; comparator results may be symbolic -> fork
    tmp = I.mem.alloc(size, 'qsort_tmp', 'harness')
    def lt(i, j):
        r = I.call(fname, [Ptr(base.obj, base.off + i * size), Ptr(base.obj, base.off + j * size)])
        if not isinstance(r, int):
            return I.ctx.branch(r > 0) if z3.is_bv(r) else I.ctx.branch(r)
        if r >= 1 << 31: r -= 1 << 32
        return r > 0
    for i in range(1, n):
        j = i
        while j > 0 and lt(j - 1, j):
            a = Ptr(base.obj, base.off + (j - 1) * size); b = Ptr(base.obj, base.off + j * size)
            I.mem.copy(tmp, a, size); I.mem.copy(a, b, size); I.mem.copy(b, tmp, size)
            j -= 1
    return None

# ---- libm
def _m(name):
    def f(I, *args): return I.dom.libm(name, list(args))
    return f
def st_nan(I, p): return I.dom.libm('nan', [])

# ---- REBOUND's own diagnostics: record the class, never format
def st_reb_message(I, r, typ, msg):
    I.__dict__.setdefault('messages', []).append((typ, I.mem.cstring(msg).decode(errors='replace')))
    return None
def st_reb_warning(I, r, msg):
    I.__dict__.setdefault('messages', []).append(('w', I.mem.cstring(msg).decode(errors='replace'))); return None
def st_reb_error(I, r, msg):
    I.__dict__.setdefault('messages', []).append(('e', I.mem.cstring(msg).decode(errors='replace'))); return None

def build_va_list(I, valist, args):
    """x86-64 va_list {i32 gp_offset, i32 fp_offset, i8* overflow_arg_area, i8* reg_save_area} with every
    argument in the overflow area (gp_offset=48, fp_offset=176 mean 'registers exhausted')."""
    area = I.mem.alloc(8 * max(1, len(args)), 'va_overflow', 'stack')
    for k, a in enumerate(args):
        if isinstance(a, Ptr): I.mem.store(Ptr(area.obj, 8 * k), PtrT(I8), a)
        elif isinstance(a, int): I.mem.store(Ptr(area.obj, 8 * k), I64, a)
        elif z3.is_expr(a) and z3.is_bv(a):
            if a.size() < 64: a = z3.ZeroExt(64 - a.size(), a)
            I.mem.store(Ptr(area.obj, 8 * k), I64, a)
        else: I.mem.store(Ptr(area.obj, 8 * k), F64, a)
    I.mem.store(valist, I32, 48)
    I.mem.store(Ptr(valist.obj, valist.off + 4), I32, 176)
    I.mem.store(Ptr(valist.obj, valist.off + 8), PtrT(I8), area)
    I.mem.store(Ptr(valist.obj, valist.off + 16), PtrT(I8), NULL)

def default_stubs():
    d = {
        '@malloc': st_malloc, '@calloc': st_calloc, '@realloc': st_realloc, '@free': st_free,
        '@strlen': st_strlen, '@strcmp': st_strcmp, '@strncmp': st_strncmp, '@strcasecmp': st_strcasecmp,
        '@strncasecmp': st_strncasecmp, '@strcpy': st_strcpy, '@strncpy': st_strncpy, '@strcat': st_strcat,
        '@strdup': st_strdup, '@strchr': st_strchr, '@memcmp': st_memcmp, '@atoi': st_atoi, '@strtol': st_strtol,
        '@strtok_r': st_strtok_r,
        '@sprintf': st_sprintf, '@snprintf': st_snprintf, '@asprintf': st_asprintf, '@printf': st_printf, '@fprintf': st_fprintf,
        '@fopen': st_fopen, '@fclose': st_fclose, '@fwrite': st_fwrite, '@fread': st_fread, '@fseek': st_fseek,
        '@ftell': st_ftell, '@fflush': st_fflush, '@fgets': st_fgets, '@fmemopen': st_fmemopen, '@access': st_access, '@stat': st_stat,
        '@gettimeofday': st_gettimeofday, '@usleep': st_usleep, '@getpid': st_getpid, '@rand_r': st_rand_r,
        '@exit': st_exit, '@signal': st_signal, '@system': st_system,
        '@pthread_mutex_lock': st_pthread_mutex_lock, '@pthread_mutex_unlock': st_pthread_mutex_unlock,
        '@pthread_mutex_init': st_pthread_mutex_init,
        '@qsort': st_qsort, '@nan': st_nan,
        '@reb_simulation_warning': st_reb_warning, '@reb_simulation_error': st_reb_error, '@reb_message': st_reb_message,
    }
    for nm in ('sqrt', 'cbrt', 'sin', 'cos', 'tan', 'atan', 'atan2', 'acos', 'acosh', 'sinh', 'cosh', 'tanh', 'exp', 'log', 'log10', 'pow', 'fmod', 'floor', 'fabs'):
        d['@' + nm] = _m(nm)
    return d
