"""Value domains for IEEE doubles (DESIGN 2.2).

CONC : python floats (bit-exact binary64, RNE) – translator validation and replay.
REAL : exact rationals (fractions.Fraction) / z3 Real terms; libm as uninterpreted functions with
       instantiated algebraic axioms collected in `axioms`.
UF   : python floats when concrete, otherwise z3 BitVec(64) terms combined by uninterpreted
       functions fadd/fsub/fmul/fdiv/...; comparison = uninterpreted predicates.
FP   : python floats when concrete, otherwise z3 FP terms of sort (eb,sb), RNE.
"""
import math, struct
from fractions import Fraction
import z3
from .ir import Unsupported

def f2bits(x): return struct.unpack('<Q', struct.pack('<d', x))[0]
def bits2f(b): return struct.unpack('<d', struct.pack('<Q', b & ((1 << 64) - 1)))[0]

class Special:
    """+inf / -inf / nan in the REAL domain: only comparisons are meaningful."""
    __slots__ = ('k',)
    def __init__(s, k): s.k = k
    def __repr__(s): return s.k
RINF = Special('inf'); RNINF = Special('-inf'); RNAN = Special('nan')

def _isz3(x): return isinstance(x, z3.ExprRef)

class Conc:
    name = 'CONC'
    symbolic = False
    def const(s, f): return f
    def fresh(s, name): raise Unsupported("fresh symbol in CONC domain")
    def is_conc(s, v): return True
    def fadd(s, a, b): return a + b
    def fsub(s, a, b): return a - b
    def fmul(s, a, b): return a * b
    def fdiv(s, a, b):
        try: return a / b
        except ZeroDivisionError:
            if a != a or a == 0: return math.nan
            return math.copysign(math.inf, a) * math.copysign(1.0, b)
    def fneg(s, a): return -a
    def fcmp(s, pred, a, b): return _fcmp_conc(pred, a, b)
    def sitofp(s, v, bits, signed=True):
        if not isinstance(v, int): raise Unsupported("sitofp of symbolic int in CONC")
        if signed and v >= 1 << (bits - 1): v -= 1 << bits
        return float(v)
    def fptosi(s, v, bits, signed=True):
        if v != v or math.isinf(v): return 1 << (bits - 1)
        r = int(v)
        if signed and not (-(1 << (bits - 1)) <= r < (1 << (bits - 1))): return 1 << (bits - 1)
        return r & ((1 << bits) - 1)
    def to_bits(s, v): return f2bits(v)
    def from_bits(s, b):
        if not isinstance(b, int): raise Unsupported("symbolic bits in CONC")
        return bits2f(b)
    def select(s, c, a, b): raise Unsupported("symbolic select in CONC")
    def libm(s, name, args): return _libm_conc(name, args)
    def fpext(s, v): return v
    def fptrunc(s, v): return struct.unpack('<f', struct.pack('<f', v))[0]

def _fcmp_conc(pred, a, b):
    un = (a != a) or (b != b)
    if pred == 'uno': return int(un)
    if pred == 'ord': return int(not un)
    if pred == 'true': return 1
    if pred == 'false': return 0
    if pred[0] == 'o':
        if un: return 0
    else:
        if un: return 1
    p = pred[1:]
    return int({'eq': a == b, 'ne': a != b, 'lt': a < b, 'le': a <= b, 'gt': a > b, 'ge': a >= b}[p])

_libm = None
def _libm_handle():
    global _libm
    if _libm is None:
        import ctypes, ctypes.util
        _libm = ctypes.CDLL(ctypes.util.find_library('m') or 'libm.so.6')
    return _libm
def _libm_conc(name, args):
    import ctypes
    lm = _libm_handle()
    if name == 'fabs': return abs(args[0])
    if name == 'copysign': return math.copysign(args[0], args[1])
    if name == 'isnan': return int(args[0] != args[0])
    if name == 'nan': return math.nan
    f = getattr(lm, name)
    f.restype = ctypes.c_double
    f.argtypes = [ctypes.c_double] * len(args)
    return f(*args)

# ------------------------------------------------------------------------------------------ REAL
class Real:
    name = 'REAL'
    symbolic = True
    def __init__(s):
        s.axioms = []          # z3 Bool terms: instantiated facts about uninterpreted libm atoms
        s.uf = {}
        s.atoms = {}           # (name, arg ids) -> term, for axiom instantiation bookkeeping
        s.nfresh = 0
        s.trig = {}            # angle term id -> (sin, cos)
        s.divs = []            # denominators seen (for optional non-zero assumptions)
        s.sqrt_raw = []        # (raw argument term, s*s) rewrite pairs
        s.side = []            # side conditions (sqrt arguments >= 0) the rewrites rely on
    def const(s, f):
        if f != f: return RNAN
        if f == math.inf: return RINF
        if f == -math.inf: return RNINF
        return Fraction(f)
    def fresh(s, name):
        return z3.Real(name)
    def is_conc(s, v): return isinstance(v, (Fraction, int))
    def _chk(s, *vs):
        for v in vs:
            if isinstance(v, Special): raise Unsupported("arithmetic on %r in REAL domain" % v)
    def fadd(s, a, b):
        if isinstance(a, Special) or isinstance(b, Special): return s._sp_add(a, b)
        return a + b
    def fsub(s, a, b):
        if isinstance(a, Special) or isinstance(b, Special): return s._sp_add(a, s.fneg(b))
        return a - b
    def _sp_add(s, a, b):
        if a is RNAN or b is RNAN: return RNAN
        if isinstance(a, Special) and isinstance(b, Special):
            return a if a is b else RNAN
        return a if isinstance(a, Special) else b
    def fmul(s, a, b):
        if isinstance(a, Special) or isinstance(b, Special):
            if a is RNAN or b is RNAN: return RNAN
            # IEEE: 0 * inf = NaN; (finite non-zero) * inf = +-inf; inf * inf = +-inf
            def sgn(v):
                if v is RINF: return 1
                if v is RNINF: return -1
                if isinstance(v, Fraction): return (v > 0) - (v < 0)
                return None
            sa, sb = sgn(a), sgn(b)
            if sa is not None and sb is not None:
                if sa == 0 or sb == 0: return RNAN
                return RINF if sa * sb > 0 else RNINF
            raise Unsupported("inf * x in REAL domain")
        if isinstance(a, Fraction) and a == 0 and not isinstance(b, Special): return Fraction(0)
        if isinstance(b, Fraction) and b == 0: return Fraction(0)
        return a * b
    def fdiv(s, a, b):
        if isinstance(a, Special) or isinstance(b, Special):
            if a is RNAN or b is RNAN: return RNAN
            if isinstance(b, Special) and not isinstance(a, Special): return Fraction(0)
            raise Unsupported("inf / x in REAL domain")
        if isinstance(b, Fraction):
            if b == 0:
                if isinstance(a, Fraction):
                    if a == 0: return RNAN
                    return RINF if a > 0 else RNINF
                raise Unsupported("division of a symbolic real by literal zero")
            if isinstance(a, Fraction): return a / b
            return a / z3.RealVal(b)
        # a/b  ->  a * inv(b): inv is an uninterpreted atom with the field axiom instantiated per occurrence,
        # so that quotients normalise as polynomials over atoms (see DESIGN 2.2, probe notes)
        t = s.inv(b)
        if isinstance(a, Fraction):
            if a == 1: return t
            return z3.RealVal(a) * t
        return a * t
    def canon(s, t):
        """canonical polynomial form (sum of monomials) so that equal arguments give identical atoms"""
        return z3.simplify(t, som=True, sort_sums=True, mul_to_power=False)
    def inv(s, b):
        # rewrite raw sqrt arguments occurring in the denominator as s*s (sound where the argument is >= 0, which is
        # recorded in s.side and must be assumed or proved by the harness), then canonicalise
        if s.sqrt_raw:
            b = z3.substitute(b, *s.sqrt_raw)
        b = s.canon(b)
        t = s.fn('inv', 1)(b)
        key = ('inv', t.get_id())
        if key not in s.atoms:
            s.atoms[key] = t
            s.divs.append(b)
            s.axioms.append(z3.Implies(b != 0, t * b == 1))
        return t
    def fneg(s, a):
        if a is RNAN: return RNAN
        if a is RINF: return RNINF
        if a is RNINF: return RINF
        return -a
    def fcmp(s, pred, a, b):
        sa = isinstance(a, Special); sb = isinstance(b, Special)
        if sa or sb:
            un = a is RNAN or b is RNAN
            if pred == 'uno': return int(un)
            if pred == 'ord': return int(not un)
            if un: return 0 if pred[0] == 'o' else 1
            def key(v):
                if v is RINF: return 1
                if v is RNINF: return -1
                return 0
            ka, kb = key(a), key(b)
            p = pred[1:]
            if sa and sb:
                return int({'eq': ka == kb, 'ne': ka != kb, 'lt': ka < kb, 'le': ka <= kb, 'gt': ka > kb, 'ge': ka >= kb}[p])
            # one finite real vs infinity
            return int({'eq': False, 'ne': True, 'lt': ka < kb, 'le': ka < kb, 'gt': ka > kb, 'ge': ka > kb}[p])
        if pred == 'uno': return 0
        if pred == 'ord': return 1
        p = pred[1:]
        if isinstance(a, Fraction) and isinstance(b, Fraction):
            return int({'eq': a == b, 'ne': a != b, 'lt': a < b, 'le': a <= b, 'gt': a > b, 'ge': a >= b}[p])
        if isinstance(a, Fraction): a = z3.RealVal(a)
        if isinstance(b, Fraction): b = z3.RealVal(b)
        r = {'eq': a == b, 'ne': a != b, 'lt': a < b, 'le': a <= b, 'gt': a > b, 'ge': a >= b}[p]
        return r
    def sitofp(s, v, bits, signed=True):
        if isinstance(v, int):
            if signed and v >= 1 << (bits - 1): v -= 1 << bits
            return Fraction(v)
        if z3.is_bool(v): return z3.If(v, z3.RealVal(1), z3.RealVal(0))
        if z3.is_app(v) and v.decl().kind() == z3.Z3_OP_ITE and z3.is_bv_value(v.arg(1)) and z3.is_bv_value(v.arg(2)):
            def sv(x):
                n = x.as_long()
                return n - (1 << x.size()) if signed and n >= 1 << (x.size() - 1) else n
            return z3.If(v.arg(0), z3.RealVal(sv(v.arg(1))), z3.RealVal(sv(v.arg(2))))
        return z3.ToReal(z3.BV2Int(v, is_signed=signed))
    def fptosi(s, v, bits, signed=True):
        if isinstance(v, Fraction):
            return int(v) & ((1 << bits) - 1)      # int() truncates toward zero
        # (cond ? c1 : c2) with rational constants: convert the branches
        if z3.is_app(v) and v.decl().kind() == z3.Z3_OP_ITE and z3.is_rational_value(v.arg(1)) and z3.is_rational_value(v.arg(2)):
            def tr(x):
                f = Fraction(x.numerator_as_long(), x.denominator_as_long()); return int(f) & ((1 << bits) - 1)
            return z3.If(v.arg(0), z3.BitVecVal(tr(v.arg(1)), bits), z3.BitVecVal(tr(v.arg(2)), bits))
        # truncation toward zero of a symbolic real (no overflow: out-of-range conversion is undefined behaviour in C and outside every claim)
        v = s.z(v)
        return z3.Int2BV(z3.If(v >= 0, z3.ToInt(v), -z3.ToInt(-v)), bits)
    def to_bits(s, v):
        if isinstance(v, Fraction):
            f = float(v)
            if Fraction(f) == v: return f2bits(f)
        if v is RNAN: return f2bits(math.nan)
        if v is RINF: return f2bits(math.inf)
        if v is RNINF: return f2bits(-math.inf)
        raise Unsupported("bit pattern of a real term")
    def from_bits(s, b):
        if isinstance(b, int): return s.const(bits2f(b))
        raise Unsupported("real from symbolic bits")
    def select(s, c, a, b):
        if isinstance(a, Special) or isinstance(b, Special): raise Unsupported("select on special real")
        if isinstance(a, Fraction): a = z3.RealVal(a)
        if isinstance(b, Fraction): b = z3.RealVal(b)
        return z3.If(c, a, b)
    def fpext(s, v): return v
    def fptrunc(s, v): return v
    # --- libm
    def fn(s, name, n):
        k = (name, n)
        if k not in s.uf:
            s.uf[k] = z3.Function(name, *([z3.RealSort()] * (n + 1)))
        return s.uf[k]
    def z(s, v): return z3.RealVal(v) if isinstance(v, (Fraction, int)) else v
    def libm(s, name, args):
        if any(isinstance(a, Special) for a in args):
            if name == 'isnan': return int(args[0] is RNAN)
            if name == 'fabs':
                return RNAN if args[0] is RNAN else RINF
            if name == 'sqrt': return RINF if args[0] is RINF else RNAN
            raise Unsupported("libm %s on special" % name)
        if name == 'nan': return RNAN
        if name == 'isnan': return 0
        if name == 'fabs':
            a = args[0]
            if isinstance(a, Fraction): return abs(a)
            return z3.If(a >= 0, a, -a)
        if name == 'sqrt':
            a = args[0]
            if isinstance(a, Fraction):
                if a < 0: return RNAN
                # exact rational square roots stay exact
                from math import isqrt
                n, d = a.numerator, a.denominator
                rn, rd = isqrt(n), isqrt(d)
                if rn * rn == n and rd * rd == d: return Fraction(rn, rd)
            raw = s.z(a)
            a = s.canon(raw)
            t = s.fn('sqrt', 1)(a)
            key = ('sqrt', t.get_id())
            if key not in s.atoms:
                s.atoms[key] = t
                s.axioms.append(z3.Implies(a >= 0, z3.And(t >= 0, t * t == a)))
                s.side.append(a >= 0)
            if not z3.is_const(raw) and not any(raw.eq(r0) for r0, _ in s.sqrt_raw):
                s.sqrt_raw.append((raw, t * t))
            return t
        if name == 'cbrt':
            a = args[0]
            t = s.fn('cbrt', 1)(s.z(a))
            key = ('cbrt', t.get_id())
            if key not in s.atoms:
                s.atoms[key] = t
                s.axioms.append(t * t * t == s.z(a))
            return t
        if name in ('sin', 'cos'):
            a = s.z(args[0])
            if isinstance(args[0], Fraction) and args[0] == 0:
                return Fraction(0) if name == 'sin' else Fraction(1)
            sn, cs = s.sincos(a)
            return sn if name == 'sin' else cs
        if name == 'copysign':
            a, b = args
            if isinstance(a, Fraction) and isinstance(b, Fraction):
                return abs(a) if b >= 0 else -abs(a)
            a = s.z(a); b = s.z(b)
            ab = z3.If(a >= 0, a, -a)
            return z3.If(b >= 0, ab, -ab)
        if name == 'floor':
            a = args[0]
            if isinstance(a, Fraction): return Fraction(a.numerator // a.denominator)
            return z3.ToReal(z3.ToInt(a))
        if name == 'fmod':
            a, b = args
            if isinstance(a, Fraction) and isinstance(b, Fraction):
                q = int(a / b); return a - q * b
            a = s.z(a); b = s.z(b)
            t = s.fn('fmod', 2)(a, b)
            key = ('fmod', t.get_id())
            if key not in s.atoms:
                s.atoms[key] = t
                s.nfresh += 1
                q = z3.Int('fmodq!%d' % s.nfresh)
                ab = z3.If(b >= 0, b, -b)
                s.axioms.append(z3.And(a == z3.ToReal(q) * b + t, z3.If(a >= 0, z3.And(t >= 0, t < ab), z3.And(t <= 0, -t < ab))))
                s.__dict__.setdefault('fmodq', []).append((a, b, t, q))          # the integer quotients, for obligations that need a witness
            return t
        # generic uninterpreted
        return s.fn(name, len(args))(*[s.z(a) for a in args])
    def sincos(s, a):
        key = a.get_id()
        if key not in s.trig:
            sn = s.fn('sin', 1)(a); cs = s.fn('cos', 1)(a)
            s.trig[key] = (sn, cs)
            s.axioms.append(sn * sn + cs * cs == 1)
        return s.trig[key]

# ------------------------------------------------------------------------------------------ UF
BV64 = z3.BitVecSort(64)
class UF:
    """doubles as opaque 64-bit vectors; arithmetic as uninterpreted functions.  Concrete floats fold."""
    name = 'UF'
    symbolic = True
    def __init__(s, sign_normalise=False):
        s.uf = {}
        s.axioms = []
        s.sign_normalise = sign_normalise
        s.ops_built = 0
        s.nan_ok = None        # None: any double may be NaN; a set of term ids: only those may be NaN (others assumed not NaN)
    def const(s, f): return f
    def fresh(s, name): return z3.BitVec(name, 64)
    def is_conc(s, v): return isinstance(v, float)
    def z(s, v):
        if isinstance(v, float): return z3.BitVecVal(f2bits(v), 64)
        if isinstance(v, int): return z3.BitVecVal(v, 64)
        return v
    def fn(s, name, n, ret=BV64):
        k = (name, n)
        if k not in s.uf:
            s.uf[k] = z3.Function(name, *([BV64] * n + [ret]))
        return s.uf[k]
    SIGN = 1 << 63
    def _split(s, t):
        """(negated?, core) where t == core ^ SIGN syntactically"""
        if isinstance(t, float):
            import math
            return (math.copysign(1.0, t) < 0, abs(t)) if t == t else (False, t)
        if z3.is_app(t) and t.decl().kind() == z3.Z3_OP_BXOR and t.num_args() == 2:
            a0, a1 = t.arg(0), t.arg(1)
            if z3.is_bv_value(a0) and a0.as_long() == s.SIGN: return True, a1
            if z3.is_bv_value(a1) and a1.as_long() == s.SIGN: return True, a0
        return False, t
    def _neg(s, t):
        if isinstance(t, float): return -t
        sg, core = s._split(t)
        return core if sg else t ^ z3.BitVecVal(s.SIGN, 64)
    def _bin(s, name, cf, a, b):
        if isinstance(a, float) and isinstance(b, float): return cf(a, b)
        s.ops_built += 1
        if s.sign_normalise and name in ('fmul', 'fdiv'):
            # IEEE-754: mul/div are odd in each argument (the sign of the result is the xor of the signs; magnitudes
            # round identically).  Each rewrite is discharged as a Float64 lemma by the harness that enables this.
            sa, ca = s._split(a); sb, cb = s._split(b)
            if name == 'fmul':
                x, y = s.z(ca), s.z(cb)
                if x.get_id() > y.get_id(): x, y = y, x          # commutativity (exact in IEEE)
                r = s.fn(name, 2)(x, y)
            else:
                r = s.fn(name, 2)(s.z(ca), s.z(cb))
            return s._neg(r) if sa != sb else r
        return s.fn(name, 2)(s.z(a), s.z(b))
    def fadd(s, a, b): return s._bin('fadd', lambda x, y: x + y, a, b)
    def fsub(s, a, b): return s._bin('fsub', lambda x, y: x - y, a, b)
    def fmul(s, a, b): return s._bin('fmul', lambda x, y: x * y, a, b)
    def fdiv(s, a, b): return s._bin('fdiv', Conc().fdiv, a, b)
    def fneg(s, a):
        if isinstance(a, float): return -a
        # sign bit flip is exact in IEEE: interpret it
        return s._neg(a)
    def isnan_bv(s, a):
        a = s.z(a)
        if s.nan_ok is not None and not (z3.is_bv_value(a) or a.get_id() in s.nan_ok):
            return z3.BoolVal(False)         # stated assumption of the harness: this value is not NaN
        return z3.And(z3.Extract(62, 52, a) == 0x7ff, z3.Extract(51, 0, a) != 0)
    def iszero_bv(s, a):
        return z3.Extract(62, 0, s.z(a)) == 0
    def fcmp(s, pred, a, b):
        if isinstance(a, float) and isinstance(b, float): return _fcmp_conc(pred, a, b)
        # (un)ordered-ness and equality are definable on the bit patterns: interpret them exactly (IEEE-754)
        if pred in ('uno', 'ord', 'oeq', 'une', 'one', 'ueq'):
            un = z3.Or(s.isnan_bv(a), s.isnan_bv(b))
            if pred == 'uno': return z3.simplify(un)
            if pred == 'ord': return z3.simplify(z3.Not(un))
            eq = z3.Or(s.z(a) == s.z(b), z3.And(s.iszero_bv(a), s.iszero_bv(b)))
            if pred == 'oeq': return z3.simplify(z3.And(z3.Not(un), eq))
            if pred == 'une': return z3.simplify(z3.Or(un, z3.Not(eq)))
            if pred == 'one': return z3.simplify(z3.And(z3.Not(un), z3.Not(eq)))
            return z3.simplify(z3.Or(un, eq))
        return s.fn('fcmp_' + pred, 2, z3.BoolSort())(s.z(a), s.z(b))
    def sitofp(s, v, bits, signed=True):
        if isinstance(v, int): return Conc().sitofp(v, bits, signed)
        if s.sign_normalise and z3.is_bv(v): v = z3.simplify(v)       # canonical integer term (x + k - k -> x)
        if z3.is_bool(v): v = z3.If(v, z3.BitVecVal(1, 64), z3.BitVecVal(0, 64))
        elif v.size() < 64: v = z3.SignExt(64 - v.size(), v) if signed else z3.ZeroExt(64 - v.size(), v)
        return s.fn('sitofp' if signed else 'uitofp', 1)(v)
    def fptosi(s, v, bits, signed=True):
        if isinstance(v, float): return Conc().fptosi(v, bits, signed)
        if s.sign_normalise and signed:
            sg, core = s._split(v)
            r = s.fn('fptosi', 1)(s.z(core))
            if sg: r = -r                      # truncation toward zero is odd (in range; assumption stated by the harness)
            return r if bits == 64 else z3.Extract(bits - 1, 0, r)
        r = s.fn('fptosi' if signed else 'fptoui', 1)(v)
        return r if bits == 64 else z3.Extract(bits - 1, 0, r)
    def to_bits(s, v):
        if isinstance(v, float): return f2bits(v)
        return v
    def from_bits(s, b):
        if isinstance(b, int): return bits2f(b)
        return b
    def select(s, c, a, b): return z3.If(c, s.z(a), s.z(b))
    def fpext(s, v): return v
    def fptrunc(s, v):
        if isinstance(v, float): return Conc().fptrunc(v)
        return s.fn('fptrunc', 1)(v)
    def libm(s, name, args):
        if all(isinstance(a, (float, int)) for a in args): return _libm_conc(name, [float(a) for a in args])
        if name == 'isnan': return s.fn('isnan', 1, z3.BoolSort())(s.z(args[0]))
        if name == 'fabs': return s.z(args[0]) & z3.BitVecVal((1 << 63) - 1, 64)
        return s.fn(name, len(args))(*[s.z(a) for a in args])

# ------------------------------------------------------------------------------------------ FP
class FP:
    name = 'FP'
    symbolic = True
    def __init__(s, eb=11, sb=53):
        s.eb = eb; s.sb = sb; s.sort = z3.FPSort(eb, sb); s.rm = z3.RNE(); s.axioms = []
        s.name = 'FP(%d,%d)' % (eb, sb)
        s.uf = {}
    def const(s, f):
        if s.eb == 11 and s.sb == 53: return f
        return z3.FPVal(f, s.sort)
    def fresh(s, name): return z3.FP(name, s.sort)
    def is_conc(s, v): return isinstance(v, float)
    def z(s, v):
        if isinstance(v, float): return z3.FPVal(v, s.sort)
        return v
    def _bin(s, zf, cf, a, b):
        if isinstance(a, float) and isinstance(b, float): return cf(a, b)
        return zf(s.rm, s.z(a), s.z(b))
    def fadd(s, a, b): return s._bin(z3.fpAdd, lambda x, y: x + y, a, b)
    def fsub(s, a, b): return s._bin(z3.fpSub, lambda x, y: x - y, a, b)
    def fmul(s, a, b): return s._bin(z3.fpMul, lambda x, y: x * y, a, b)
    def fdiv(s, a, b): return s._bin(z3.fpDiv, Conc().fdiv, a, b)
    def fneg(s, a): return -a if isinstance(a, float) else z3.fpNeg(a)
    def fcmp(s, pred, a, b):
        if isinstance(a, float) and isinstance(b, float): return _fcmp_conc(pred, a, b)
        a = s.z(a); b = s.z(b)
        un = z3.Or(z3.fpIsNaN(a), z3.fpIsNaN(b))
        if pred == 'uno': return un
        if pred == 'ord': return z3.Not(un)
        p = pred[1:]
        base = {'eq': z3.fpEQ(a, b), 'ne': z3.Not(z3.fpEQ(a, b)), 'lt': z3.fpLT(a, b), 'le': z3.fpLEQ(a, b), 'gt': z3.fpGT(a, b), 'ge': z3.fpGEQ(a, b)}[p]
        if pred[0] == 'o':
            return z3.And(z3.Not(un), base) if p == 'ne' else base
        return z3.Or(un, base)
    def sitofp(s, v, bits, signed=True):
        if isinstance(v, int): return Conc().sitofp(v, bits, signed)
        if z3.is_bool(v): v = z3.If(v, z3.BitVecVal(1, 32), z3.BitVecVal(0, 32))
        return z3.fpSignedToFP(s.rm, v, s.sort) if signed else z3.fpUnsignedToFP(s.rm, v, s.sort)
    def fptosi(s, v, bits, signed=True):
        if isinstance(v, float): return Conc().fptosi(v, bits, signed)
        return z3.fpToSBV(z3.RTZ(), v, z3.BitVecSort(bits)) if signed else z3.fpToUBV(z3.RTZ(), v, z3.BitVecSort(bits))
    def to_bits(s, v):
        if isinstance(v, float): return f2bits(v)
        return z3.fpToIEEEBV(v)
    def from_bits(s, b):
        if isinstance(b, int): return bits2f(b)
        return z3.fpBVToFP(b, s.sort)
    def select(s, c, a, b): return z3.If(c, s.z(a), s.z(b))
    def fpext(s, v): return v
    def fptrunc(s, v): raise Unsupported("fptrunc in FP domain")
    def libm(s, name, args):
        if all(isinstance(a, (float, int)) for a in args): return _libm_conc(name, [float(a) for a in args])
        a = s.z(args[0])
        if name == 'fabs': return z3.fpAbs(a)
        if name == 'sqrt': return z3.fpSqrt(s.rm, a)
        if name == 'isnan': return z3.fpIsNaN(a)
        if name == 'copysign': return z3.If(z3.fpIsNegative(s.z(args[1])), z3.fpNeg(z3.fpAbs(a)), z3.fpAbs(a))
        if name == 'fmod': return z3.fpRem(a, s.z(args[1])) if False else _unsup("fmod in FP")
        raise Unsupported("libm %s in FP domain" % name)
def _unsup(m): raise Unsupported(m)
