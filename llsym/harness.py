"""Harness helpers: named access to REBOUND structs inside the engine's memory and inside the native replay library."""
import ctypes, struct, math
from fractions import Fraction
import z3
from . import build
from .ir import *
from .engine import *
from .domains import *

PARTICLE_DOUBLES = ['x', 'y', 'z', 'vx', 'vy', 'vz', 'ax', 'ay', 'az', 'm', 'r', 'last_collision']

def irtype_of(cls):
    k = cls[0]
    if k == 'int': return intT(cls[1] * 8)
    if k == 'enum': return intT(cls[2] * 8)
    if k == 'float': return F64 if cls[1] == 8 else F32
    if k in ('ptr', 'fnptr'): return PtrT(I8)
    raise Unsupported("no scalar IR type for %r" % (cls,))

class SimView:
    """named field access on a struct living in engine memory"""
    def __init__(s, I, ptr, struct='reb_simulation'):
        s.I = I; s.ptr = ptr; s.struct = struct; s.L = build.layout()
    def fptr(s, name):
        off, size, m = s.L.member(s.struct, name)
        return Ptr(s.ptr.obj, s.ptr.off + off), s.L.type_class(m['base'])
    def get(s, name):
        p, cls = s.fptr(name)
        return s.I.mem.load(p, irtype_of(cls))
    def set(s, name, v):
        p, cls = s.fptr(name)
        ty = irtype_of(cls)
        if ty.kind == 'int' and isinstance(v, int): v &= ty.mask
        if ty.kind == 'fp' and isinstance(v, (int, float)) and not isinstance(v, bool):
            v = s.I.dom.const(float(v))
        s.I.mem.store(p, ty, v)
    def sub(s, name, struct=None):
        off, size, m = s.L.member(s.struct, name)
        st = struct or s.L.struct_of(m['base'])
        return SimView(s.I, Ptr(s.ptr.obj, s.ptr.off + off), st)
    def deref(s, name, struct, index=0):
        p = s.get(name)
        sz = s.L.structs[struct]['size']
        return SimView(s.I, Ptr(p.obj, p.off + index * sz), struct)

class Sim(SimView):
    def __init__(s, I, ptr=None):
        if ptr is None:
            ptr = I.call('@reb_simulation_create', [])
        SimView.__init__(s, I, ptr, 'reb_simulation')
        s.psize = s.L.structs['reb_particle']['size']
    def particle(s, i, base='particles'):
        p = s.get(base)
        return SimView(s.I, Ptr(p.obj, p.off + i * s.psize), 'reb_particle')
    def add(s, **kw):
        I = s.I
        tmp = I.mem.alloc(s.psize, 'harness_particle', 'harness', zero=True)
        pv = SimView(I, tmp, 'reb_particle')
        for k in PARTICLE_DOUBLES:
            pv.set(k, kw.get(k, 0.0))
        if 'hash' in kw: pv.set('hash', kw['hash'])
        I.call('@reb_simulation_add', [s.ptr, tmp])
    def N(s): return s.get('N')
    def pvals(s, names=('x', 'y', 'z', 'vx', 'vy', 'vz'), base='particles', n=None):
        n = s.N() if n is None else n
        return [[s.particle(i, base).get(k) for k in names] for i in range(n)]
    def enum(s, name): return s.L.enumerators[name]

def new_interp(dom, ctx=None, stubs=None):
    return Interp(build.module(), dom, ctx, stubs)

# ------------------------------------------------------------------------------------------ native side
class Native:
    """ctypes access to a freshly built librebound by *offsets taken from the current headers' DWARF*"""
    def __init__(s, so=None):
        s.so = so or build.build_native()
        s.lib = ctypes.CDLL(s.so)
        s.L = build.layout()
        s.psize = s.L.structs['reb_particle']['size']
        s.lib.reb_simulation_create.restype = ctypes.c_void_p
        s.lib.reb_simulation_copy.restype = ctypes.c_void_p
        s.lib.reb_simulation_copy.argtypes = [ctypes.c_void_p]
        s.lib.reb_simulation_free.argtypes = [ctypes.c_void_p]
    def fn(s, name, restype=None, argtypes=None):
        f = getattr(s.lib, name)
        f.restype = restype
        if argtypes is not None: f.argtypes = argtypes
        return f
    def create(s):
        ns = NSim(s, s.lib.reb_simulation_create())
        ns.set('save_messages', 1)        # keep the library's diagnostics off stdout/stderr
        return ns

_CT = {('int', 1, True): ctypes.c_int8, ('int', 1, False): ctypes.c_uint8, ('int', 2, True): ctypes.c_int16, ('int', 2, False): ctypes.c_uint16,
       ('int', 4, True): ctypes.c_int32, ('int', 4, False): ctypes.c_uint32, ('int', 8, True): ctypes.c_int64, ('int', 8, False): ctypes.c_uint64}
def ctype_of(cls):
    if cls[0] == 'int': return _CT[cls]
    if cls[0] == 'enum': return ctypes.c_uint32 if cls[2] == 4 else ctypes.c_uint64
    if cls[0] == 'float': return ctypes.c_double if cls[1] == 8 else ctypes.c_float
    if cls[0] in ('ptr', 'fnptr'): return ctypes.c_void_p
    raise Unsupported("ctype of %r" % (cls,))

class NView:
    def __init__(s, nat, addr, struct):
        s.nat = nat; s.addr = addr; s.struct = struct
    def _f(s, name):
        off, size, m = s.nat.L.member(s.struct, name)
        return s.addr + off, s.nat.L.type_class(m['base'])
    def get(s, name):
        a, cls = s._f(name)
        return ctype_of(cls).from_address(a).value
    def set(s, name, v):
        a, cls = s._f(name)
        ctype_of(cls).from_address(a).value = v
    def getbits(s, name):
        a, cls = s._f(name)
        return ctypes.c_uint64.from_address(a).value
    def sub(s, name):
        off, size, m = s.nat.L.member(s.struct, name)
        return NView(s.nat, s.addr + off, s.nat.L.struct_of(m['base']))

class NSim(NView):
    def __init__(s, nat, addr):
        NView.__init__(s, nat, addr, 'reb_simulation')
    def particle(s, i, base='particles'):
        p = s.get(base)
        return NView(s.nat, p + i * s.nat.psize, 'reb_particle')
    def add(s, **kw):
        buf = (ctypes.c_char * s.nat.psize)()
        pv = NView(s.nat, ctypes.addressof(buf), 'reb_particle')
        for k in PARTICLE_DOUBLES: pv.set(k, float(kw.get(k, 0.0)))
        if 'hash' in kw: pv.set('hash', kw['hash'])
        # struct passed by value (MEMORY class): build a ctypes Structure of the right size
        class P(ctypes.Structure): _fields_ = [('b', ctypes.c_char * s.nat.psize)]
        f = s.nat.lib.reb_simulation_add; f.argtypes = [ctypes.c_void_p, P]; f.restype = None
        f(s.addr, P.from_buffer_copy(bytes(buf)))
    def call(s, name, *args, restype=None):
        f = getattr(s.nat.lib, name); f.restype = restype
        f.argtypes = [ctypes.c_void_p] + [type(a) for a in args]
        return f(s.addr, *args)
    def free(s):
        s.nat.lib.reb_simulation_free(s.addr)
    def pvals(s, names=('x', 'y', 'z', 'vx', 'vy', 'vz'), base='particles', n=None):
        n = s.get('N') if n is None else n
        return [[s.particle(i, base).get(k) for k in names] for i in range(n)]

def same_bits(a, b):
    return struct.pack('<d', a) == struct.pack('<d', b) or (a != a and b != b)
