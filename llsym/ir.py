"""LLVM-14 textual IR front end for llsym: types, data layout, functions, global initialisers.

Only what clang-14 -O0 + mem2reg emits for REBOUND's C99 sources is handled; anything else raises
Unsupported (which every check turns into a harness error, never a pass).
"""
import re, struct

class Unsupported(Exception):
    pass

# ----------------------------------------------------------------------------- types
class T:
    kind = '?'
class IntT(T):
    kind = 'int'
    __slots__ = ('bits', 'mask', 'sz')
    def __init__(s, b): s.bits = b; s.mask = (1 << b) - 1; s.sz = max(1, (b + 7) // 8)
    def size(s): return s.sz
    def align(s): return s.sz
    def __repr__(s): return "i%d" % s.bits
class FpT(T):
    kind = 'fp'
    __slots__ = ('bits',)
    def __init__(s, b): s.bits = b
    def size(s): return s.bits // 8
    def align(s): return s.bits // 8
    def __repr__(s): return "double" if s.bits == 64 else "float"
class PtrT(T):
    kind = 'ptr'
    __slots__ = ('elem',)
    def __init__(s, e): s.elem = e
    def size(s): return 8
    def align(s): return 8
    def __repr__(s): return "%r*" % (s.elem,)
class ArrT(T):
    kind = 'arr'
    __slots__ = ('n', 'elem')
    def __init__(s, n, e): s.n = n; s.elem = e
    def size(s): return s.n * s.elem.size()
    def align(s): return s.elem.align()
    def __repr__(s): return "[%d x %r]" % (s.n, s.elem)
class StructT(T):
    kind = 'struct'
    def __init__(s, fields, packed=False): s.fields = fields; s.packed = packed; s._lay = None
    def layout(s):
        if s._lay is None:
            off = 0; offs = []; al = 1
            for f in s.fields:
                a = 1 if s.packed else f.align(); al = max(al, a)
                off = (off + a - 1) // a * a; offs.append(off); off += f.size()
            size = (off + al - 1) // al * al
            s._lay = (offs, size, al)
        return s._lay
    def size(s): return s.layout()[1]
    def align(s): return s.layout()[2]
    def __repr__(s): return "{struct/%d}" % len(s.fields)
class NamedT(T):
    kind = 'named'
    __slots__ = ('name', 'mod')
    def __init__(s, name, mod): s.name = name; s.mod = mod
    def res(s): return s.mod.types[s.name]
    def size(s): return s.res().size()
    def align(s): return s.res().align()
    def __repr__(s): return s.name
class VoidT(T):
    kind = 'void'
    def size(s): return 0
    def align(s): return 1
    def __repr__(s): return "void"
class FuncT(T):
    kind = 'func'
    def __init__(s, ret=None): s.ret = ret
    def size(s): return 8
    def align(s): return 8
    def __repr__(s): return "fn"
class OpaqueT(T):
    kind = 'opaque'
    def size(s): return 0
    def align(s): return 1
    def __repr__(s): return "opaque"
class MetaT(T):
    kind = 'meta'
    def size(s): return 0
    def align(s): return 1

def resolve(t):
    while t.kind == 'named':
        t = t.res()
    return t

I1 = IntT(1); I8 = IntT(8); I32 = IntT(32); I64 = IntT(64); F64 = FpT(64); F32 = FpT(32)
_INTS = {1: I1, 8: I8, 32: I32, 64: I64}
def intT(b):
    t = _INTS.get(b)
    if t is None:
        t = _INTS[b] = IntT(b)
    return t

_name_re = re.compile(r'%[\w.$-]+|%"[^"]+"')
_gname_re = re.compile(r'@[\w.$-]+|@"[^"]+"')

def split_top(s):
    out = []; depth = 0; cur = []; instr = False
    i = 0; n = len(s)
    while i < n:
        ch = s[i]
        if instr:
            cur.append(ch)
            if ch == '"': instr = False
        elif ch == '"':
            instr = True; cur.append(ch)
        elif ch in '([{<':
            depth += 1; cur.append(ch)
        elif ch in ')]}>':
            depth -= 1; cur.append(ch)
        elif ch == ',' and depth == 0:
            out.append(''.join(cur)); cur = []
        else:
            cur.append(ch)
        i += 1
    last = ''.join(cur)
    if last.strip(): out.append(last)
    return out

# ----------------------------------------------------------------------------- operands
# operand descriptors (pre-decoded):
#   ('r', name)              register
#   ('i', int)               integer constant (already masked)
#   ('f', pyfloat)           fp constant (python float, exact binary64 or binary32 value)
#   ('null',)                null pointer
#   ('undef',)
#   ('g', name)              address of global / function
#   ('gep', basetype, baseop, [(type, op), ...])   constant expression
#   ('cast', op)             bitcast constant expression
#   ('inttoptr', int)
#   ('zero',)                zeroinitializer

class Instr:
    __slots__ = ('op', 'dst', 'a', 'b', 'c', 'ty', 'ty2', 'extra', 'text', 'fn')
    def __init__(s, op, dst=None, a=None, b=None, c=None, ty=None, ty2=None, extra=None, text=''):
        s.op = op; s.dst = dst; s.a = a; s.b = b; s.c = c; s.ty = ty; s.ty2 = ty2; s.extra = extra; s.text = text
        s.fn = None
    def __repr__(s): return s.text

class Function:
    def __init__(s, name, params, rettype, lines, sig, mod):
        s.name = name; s.params = params   # list of (regname, type, byval_type or None)
        s.rettype = rettype; s.lines = lines; s.sig = sig; s.mod = mod
        s.blocks = None; s.entry = None; s.vararg = False
    def decode(s):
        if s.blocks is not None: return
        mod = s.mod
        blocks = {}; cur = None; order = []
        i = 0; L = s.lines; n = len(L)
        while i < n:
            l = L[i]
            if not l.strip() or l.lstrip().startswith(';'):
                i += 1; continue
            bm = re.match(r'^([\w.$-]+):', l)
            if bm:
                cur = bm.group(1); blocks[cur] = []; order.append(cur); i += 1; continue
            txt = l.strip()
            if txt.startswith('switch') and ']' not in txt:
                while ']' not in L[i]:
                    i += 1; txt += ' ' + L[i].strip()
            if cur is None:
                nunnamed = sum(1 for p in s.params if p[0][1:].isdigit())
                cur = str(nunnamed); blocks[cur] = []; order.append(cur)
            # strip trailing metadata / comments
            txt = re.sub(r',\s*!\w+\s*!\d+', '', txt)
            blocks[cur].append(mod.parse_instr(txt))
            i += 1
        # split phis
        s.blocks = {}
        for b, ins in blocks.items():
            k = 0
            while k < len(ins) and ins[k].op == 'phi': k += 1
            s.blocks[b] = (ins[:k], ins[k:])
        s.entry = order[0]
        s.lines = None

class Module:
    def __init__(self, text):
        self.types = {}
        self.funcs = {}
        self.globals = {}      # name -> (type, init_text or None, is_const)
        self.declared = set()
        self._parse(text)

    # ---- types
    def parse_type(self, s, i=0):
        n = len(s)
        while i < n and s[i] == ' ': i += 1
        c = s[i]
        if s.startswith('void', i): t = VoidT(); i += 4
        elif s.startswith('double', i): t = F64; i += 6
        elif s.startswith('float', i): t = F32; i += 5
        elif s.startswith('x86_fp80', i): t = FpT(128); i += 8
        elif s.startswith('metadata', i): t = MetaT(); i += 8
        elif s.startswith('...', i): t = VoidT(); i += 3
        elif c == 'i' and s[i + 1].isdigit():
            j = i + 1
            while j < n and s[j].isdigit(): j += 1
            t = intT(int(s[i + 1:j])); i = j
        elif c == '%':
            m = _name_re.match(s, i); t = NamedT(m.group(0), self); i = m.end()
        elif c == '[':
            m = re.compile(r'\[\s*(\d+)\s*x\s*').match(s, i); cnt = int(m.group(1)); i = m.end()
            e, i = self.parse_type(s, i)
            while s[i] == ' ': i += 1
            assert s[i] == ']', s[i:i + 30]; i += 1; t = ArrT(cnt, e)
        elif c == '<' and not s.startswith('<{', i):
            m = re.compile(r'<\s*(\d+)\s*x\s*').match(s, i); cnt = int(m.group(1)); i = m.end()
            e, i = self.parse_type(s, i)
            while s[i] == ' ': i += 1
            assert s[i] == '>', s[i:i + 30]; i += 1; t = ArrT(cnt, e)
        elif c == '{' or s.startswith('<{', i):
            packed = c == '<'
            i += 2 if packed else 1
            fields = []
            while True:
                while s[i] == ' ': i += 1
                if s[i] == '}': i += 1; break
                f, i = self.parse_type(s, i); fields.append(f)
                while s[i] == ' ': i += 1
                if s[i] == ',': i += 1
            if packed:
                assert s[i] == '>'; i += 1
            t = StructT(fields, packed)
        else:
            raise Unsupported("type? " + s[i:i + 40])
        while True:
            while i < n and s[i] == ' ': i += 1
            if i < n and s[i] == '*': t = PtrT(t); i += 1
            elif i < n and s[i] == '(':
                depth = 0
                while True:
                    if s[i] == '(': depth += 1
                    elif s[i] == ')':
                        depth -= 1
                        if depth == 0: i += 1; break
                    i += 1
                t = FuncT(t)
            else: break
        return t, i

    # ---- operands
    _attr_re = re.compile(r'\s*((noundef|nonnull|signext|zeroext|nocapture|readonly|writeonly|readnone|noalias|immarg|returned|nofree|inreg|align \d+|byval\([^)]*\)|sret\([^)]*\)|dereferenceable\(\d+\)|dereferenceable_or_null\(\d+\))\s+)*')
    def parse_value(self, tok, ty):
        tok = tok.strip()
        c = tok[0]
        if c == '%': return ('r', tok)
        if c == '@': return ('g', tok)
        rt = resolve(ty)
        if tok == 'null': return ('null',)
        if tok in ('undef', 'poison'): return ('undef',)
        if tok == 'true': return ('i', 1)
        if tok == 'false': return ('i', 0)
        if tok == 'zeroinitializer': return ('zero',)
        if tok.startswith('getelementptr'):
            m = re.match(r'getelementptr (inbounds )?\((.*)\)$', tok)
            parts = split_top(m.group(2))
            bt, _ = self.parse_type(parts[0])
            base = self.parse_typed(parts[1])
            idx = [self.parse_typed(p) for p in parts[2:]]
            return ('gep', bt, base, idx)
        if tok.startswith('bitcast'):
            m = re.match(r'bitcast \((.*) to (.*)\)$', tok)
            return ('cast', self.parse_typed(m.group(1))[1])
        if tok.startswith('inttoptr'):
            m = re.match(r'inttoptr \(i64 (-?\d+) to .*\)$', tok)
            return ('inttoptr', int(m.group(1)) & ((1 << 64) - 1))
        if rt.kind == 'fp':
            if tok.startswith('0x'):
                h = tok[2:]
                if h[0] in 'KLMHR': raise Unsupported("fp80 const")
                v = struct.unpack('>d', bytes.fromhex(h.rjust(16, '0')))[0]
                return ('f', v)
            return ('f', float(tok))
        if rt.kind == 'int':
            return ('i', int(tok) & rt.mask)
        raise Unsupported("value? %r of %r" % (tok, ty))
    def parse_typed(self, s):
        """'type [attrs] value' -> (type, operand)"""
        t, i = self.parse_type(s)
        rest = s[i:]
        m = self._attr_re.match(rest)
        rest = rest[m.end():]
        return t, self.parse_value(rest, t)

    # ---- instructions
    _flags_re = re.compile(r'^((nsw|nuw|exact|fast|nnan|ninf|nsz|arcp|contract|afn|reassoc|inbounds|volatile|tail|musttail|notail|atomic) )*')
    def parse_instr(self, ins):
        text = ins
        dst = None
        m = re.match(r'(%[\w.$-]+) = (.*)', ins)
        if m: dst = m.group(1); ins = m.group(2)
        sp = ins.find(' ')
        op = ins if sp < 0 else ins[:sp]
        rest = '' if sp < 0 else ins[sp + 1:]
        if op in ('tail', 'musttail', 'notail'):
            sp = rest.find(' '); op = rest[:sp]; rest = rest[sp + 1:]
        rest = rest[self._flags_re.match(rest).end():]
        P = self.parse_typed
        if op == 'br':
            mm = re.match(r'label %([\w.$-]+)$', rest)
            if mm: return Instr('jmp', a=mm.group(1), text=text)
            mm = re.match(r'i1 (.*), label %([\w.$-]+), label %([\w.$-]+)', rest)
            return Instr('br', a=self.parse_value(mm.group(1), I1), b=mm.group(2), c=mm.group(3), text=text)
        if op == 'ret':
            if rest.strip() == 'void': return Instr('ret', text=text)
            t, v = P(rest); return Instr('ret', a=v, ty=t, text=text)
        if op == 'switch':
            mm = re.match(r'(.*?), label %([\w.$-]+) \[(.*)\]', rest)
            t, v = P(mm.group(1))
            cases = {}
            for cm in re.finditer(r'i\d+ (-?\d+), label %([\w.$-]+)', mm.group(3)):
                cases[int(cm.group(1)) & resolve(t).mask] = cm.group(2)
            return Instr('switch', a=v, b=mm.group(2), c=cases, ty=t, text=text)
        if op == 'alloca':
            parts = split_top(rest); t, _ = self.parse_type(parts[0])
            cnt = None
            if len(parts) > 1 and not parts[1].strip().startswith('align'):
                cnt = P(parts[1])
            return Instr('alloca', dst, ty=t, a=cnt, text=text)
        if op == 'getelementptr':
            parts = split_top(rest)
            bt, _ = self.parse_type(parts[0])
            base = P(parts[1]); idx = [P(p) for p in parts[2:]]
            return Instr('gep', dst, a=base[1], b=idx, ty=bt, text=text)
        if op == 'load':
            parts = split_top(rest)
            t, _ = self.parse_type(parts[0]); pt, p = P(parts[1])
            return Instr('load', dst, a=p, ty=t, text=text)
        if op == 'store':
            parts = split_top(rest)
            t, v = P(parts[0]); pt, p = P(parts[1])
            return Instr('store', a=v, b=p, ty=t, text=text)
        if op in ('fadd', 'fsub', 'fmul', 'fdiv', 'frem', 'add', 'sub', 'mul', 'sdiv', 'udiv', 'srem', 'urem', 'and', 'or', 'xor', 'shl', 'lshr', 'ashr'):
            t, i = self.parse_type(rest); a, b = split_top(rest[i:])
            return Instr(op, dst, a=self.parse_value(a, t), b=self.parse_value(b, t), ty=t, text=text)
        if op == 'fneg':
            t, v = P(rest); return Instr('fneg', dst, a=v, ty=t, text=text)
        if op in ('icmp', 'fcmp'):
            mm = re.match(r'(\w+) (.*)', rest); t, i = self.parse_type(mm.group(2)); a, b = split_top(mm.group(2)[i:])
            return Instr(op, dst, a=self.parse_value(a, t), b=self.parse_value(b, t), ty=t, extra=mm.group(1), text=text)
        if op in ('zext', 'sext', 'trunc', 'bitcast', 'sitofp', 'uitofp', 'fptosi', 'fptoui', 'ptrtoint', 'inttoptr', 'fpext', 'fptrunc'):
            k = rest.rfind(' to ')
            t, v = P(rest[:k]); t2, _ = self.parse_type(rest[k + 4:])
            return Instr(op, dst, a=v, ty=t, ty2=t2, text=text)
        if op == 'select':
            parts = split_top(rest)
            ct, c = P(parts[0]); t, a = P(parts[1]); t2, b = P(parts[2])
            return Instr('select', dst, a=c, b=a, c=b, ty=t, text=text)
        if op == 'phi':
            t, i = self.parse_type(rest)
            inc = {}
            for im in re.finditer(r'\[\s*(.+?),\s*%([\w.$-]+)\s*\]', rest[i:]):
                inc[im.group(2)] = self.parse_value(im.group(1), t)
            return Instr('phi', dst, a=inc, ty=t, text=text)
        if op == 'call':
            # call [cconv] [ret attrs] <ty> [<fnty>*] <fnptrval>(<args>) [attrs]
            rest = re.sub(r'^((noundef|signext|zeroext|nonnull|noalias|align \d+|dereferenceable\(\d+\)|dereferenceable_or_null\(\d+\)) )*', '', rest)
            rt, i = self.parse_type(rest)
            r2 = rest[i:].lstrip()
            if isinstance(rt, FuncT):       # "call void (i8*, ...) @printf(...)" parsed as func type
                rt = rt.ret
            # optional explicit function type already consumed by parse_type suffix handling
            if r2[0] == '@':
                m2 = _gname_re.match(r2); callee = ('g', m2.group(0)); k = m2.end()
            elif r2[0] == '%':
                m2 = _name_re.match(r2); callee = ('r', m2.group(0)); k = m2.end()
            elif r2.startswith('bitcast'):
                # call through a bitcast constant expression
                depth = 0; k = r2.find('(')
                j = k
                while True:
                    if r2[j] == '(': depth += 1
                    elif r2[j] == ')':
                        depth -= 1
                        if depth == 0: break
                    j += 1
                inner = r2[k + 1:j]
                callee = self.parse_typed(inner[:inner.rfind(' to ')])[1]
                k = j + 1
            else:
                raise Unsupported("call form: " + text)
            assert r2[k] == '(', text
            depth = 0; j = k
            while True:
                if r2[j] == '(': depth += 1
                elif r2[j] == ')':
                    depth -= 1
                    if depth == 0: break
                j += 1
            args = []
            for a in split_top(r2[k + 1:j]):
                a = a.strip()
                if not a: continue
                t, i = self.parse_type(a)
                ar = a[i:]
                bv = re.search(r'byval\(([^)]*)\)', ar)
                mm = self._attr_re.match(ar)
                v = self.parse_value(ar[mm.end():], t)
                args.append((t, v, self.parse_type(bv.group(1))[0] if bv else None))
            return Instr('call', dst, a=callee, b=args, ty=rt, text=text)
        if op == 'unreachable':
            return Instr('unreachable', text=text)
        if op in ('extractvalue', 'insertvalue', 'va_arg', 'fence', 'cmpxchg', 'atomicrmw', 'invoke', 'landingpad', 'resume', 'indirectbr'):
            raise Unsupported("instruction: " + text)
        raise Unsupported("instruction: " + text)

    # ---- module
    def _parse(self, text):
        lines = text.split('\n'); i = 0; n = len(lines)
        self.datalayout = None
        while i < n:
            l = lines[i]
            if l.startswith('%'):
                m = re.match(r'(%[\w.$-]+|%"[^"]+") = type (.*)', l)
                if m:
                    if m.group(2).strip() == 'opaque': self.types[m.group(1)] = OpaqueT()
                    else: self.types[m.group(1)] = self.parse_type(m.group(2))[0]
            elif l.startswith('@'):
                m = re.match(r'(@[\w.$-]+|@"[^"]+") = (.*)', l)
                self._parse_global(m.group(1), m.group(2))
            elif l.startswith('define'):
                m = re.match(r'define .*?(@[\w.$-]+)\((.*)\)[^()]*\{\s*$', l)
                name = m.group(1)
                head = l[:l.find(name)]
                rts = re.sub(r'^define\s+', '', head)
                rts = re.sub(r'\b(dso_local|internal|private|hidden|linkonce_odr|weak|available_externally|noundef|signext|zeroext|nonnull|noalias|align \d+|dereferenceable\(\d+\)|dereferenceable_or_null\(\d+\))\b', '', rts).strip()
                rettype = self.parse_type(rts)[0]
                params = []; vararg = False
                for p in split_top(m.group(2)):
                    p = p.strip()
                    if not p: continue
                    if p == '...': vararg = True; continue
                    t, k = self.parse_type(p)
                    bv = re.search(r'byval\(([^)]*)\)', p)
                    pm = re.search(r'(%[\w.$-]+)$', p)
                    params.append((pm.group(1), t, self.parse_type(bv.group(1))[0] if bv else None))
                j = i + 1
                while lines[j] != '}': j += 1
                f = Function(name, params, rettype, lines[i + 1:j], l, self)
                f.vararg = vararg
                self.funcs[name] = f
                i = j
            elif l.startswith('declare'):
                m = re.search(r'(@[\w.$-]+)\(', l)
                if m: self.declared.add(m.group(1))
            elif l.startswith('target datalayout'):
                self.datalayout = l
            i += 1

    def _parse_global(self, name, rest):
        # linkage / attrs words until 'global' or 'constant'
        m = re.match(r'((?:[\w()]+ )*?)(global|constant) (.*)$', rest)
        if not m:
            raise Unsupported("global? " + rest[:80])
        pre = m.group(1); is_const = m.group(2) == 'constant'; body = m.group(3)
        t, i = self.parse_type(body)
        init = body[i:].strip()
        # strip trailing ", align N" / section etc at top level
        parts = split_top(init)
        init = parts[0].strip() if parts else ''
        if 'external' in pre.split():
            self.globals[name] = (t, None, is_const)
        else:
            self.globals[name] = (t, init, is_const)

    def func(self, name):
        f = self.funcs[name]
        f.decode()
        return f

    # ---- constant initialisers: yields (offset, kind, payload) with kind in 'bytes','f64','f32','ptr'
    def flatten_init(self, ty, init, off=0):
        rt = resolve(ty)
        init = init.strip()
        if init == 'zeroinitializer' or init == 'undef':
            return
        k = rt.kind
        if k == 'int':
            if init == 'true': v = 1
            elif init == 'false': v = 0
            else: v = int(init) & rt.mask
            yield (off, 'bytes', v.to_bytes(rt.size(), 'little')); return
        if k == 'fp':
            op = self.parse_value(init, rt)
            yield (off, 'f64' if rt.bits == 64 else 'f32', op[1]); return
        if k == 'ptr':
            if init == 'null': return
            yield (off, 'ptr', self.parse_value(init, rt)); return
        if k == 'arr':
            if init.startswith('c"'):
                s = init[2:init.rfind('"')]
                b = bytearray(); j = 0
                while j < len(s):
                    if s[j] == '\\':
                        b.append(int(s[j + 1:j + 3], 16)); j += 3
                    else:
                        b.append(ord(s[j])); j += 1
                yield (off, 'bytes', bytes(b)); return
            assert init[0] == '[' and init[-1] == ']', init[:60]
            es = rt.elem.size()
            for n_, e in enumerate(split_top(init[1:-1])):
                t2, i2 = self.parse_type(e)
                yield from self.flatten_init(t2, e[i2:], off + n_ * es)
            return
        if k == 'struct':
            if init.startswith('<{'): inner = init[2:-2]
            else:
                assert init[0] == '{' and init[-1] == '}', init[:60]
                inner = init[1:-1]
            elems = split_top(inner)
            # the initialiser may use an anonymous struct type that differs from the declared one; lay out by its own types
            tys = []; vals = []
            for e in elems:
                t2, i2 = self.parse_type(e); tys.append(t2); vals.append(e[i2:])
            st = StructT(tys, init.startswith('<{'))
            offs = st.layout()[0]
            for t2, v, o in zip(tys, vals, offs):
                yield from self.flatten_init(t2, v, off + o)
            return
        raise Unsupported("init of %r: %s" % (rt, init[:60]))

    def global_init_type(self, name):
        """type actually used by the initialiser (clang sometimes declares @x with an anonymous struct type)."""
        return self.globals[name][0]
