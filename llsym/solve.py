"""Obligation discharge: in-process z3 first, then an external portfolio (z3 4.8.12, z3 5.1 CLI, cvc5) on the SMT-LIB2 text."""
import os, subprocess, tempfile, time, re, shutil
from fractions import Fraction
import z3

EXTERNAL = [
    ('z3-4.8.12', ['/usr/bin/z3', '-smt2']),
    ('z3-5.1', ['z3-new', '-smt2']),
    ('cvc5-1.0.3', ['cvc5', '--lang=smt2']),
]

class Result:
    __slots__ = ('status', 'model', 'solver', 'seconds', 'detail')
    def __init__(s, status, model=None, solver='', seconds=0.0, detail=''):
        s.status = status; s.model = model; s.solver = solver; s.seconds = seconds; s.detail = detail
    def __repr__(s): return "<%s by %s in %.2fs>" % (s.status, s.solver, s.seconds)

def to_smt2(assertions, logic=None):
    s = z3.Solver()
    for a in assertions: s.add(a)
    txt = s.to_smt2()
    txt = re.sub(r'^\(set-info :status \w+\)\n', '', txt, flags=re.M)
    return txt

def run_external(smt2, timeout_s, which=None, want_model=False):
    """race the external solvers on the text; returns (status, solver_name, seconds, stdout)"""
    d = tempfile.mkdtemp(prefix='llsym_q_')
    try:
        path = os.path.join(d, 'q.smt2')
        body = smt2
        if want_model and '(get-model)' not in body:
            body = body.replace('(check-sat)', '(check-sat)\n(get-model)')
        open(path, 'w').write(body)
        procs = []
        t0 = time.time()
        for name, cmd in EXTERNAL:
            if which and name not in which: continue
            if shutil.which(cmd[0]) is None: continue
            c = list(cmd)
            if 'cvc5' in cmd[0]:
                c += ['--tlimit=%d' % int(timeout_s * 1000)]
                if want_model: c += ['--produce-models']
            else: c += ['-T:%d' % max(1, int(timeout_s))]
            procs.append((name, subprocess.Popen(c + [path], stdout=subprocess.PIPE, stderr=subprocess.STDOUT, text=True)))
        done = None
        pending = dict(procs)
        while pending and time.time() - t0 < timeout_s + 5:
            for name, p in list(pending.items()):
                if p.poll() is not None:
                    out = p.stdout.read()
                    del pending[name]
                    first = out.strip().split('\n')[0].strip() if out.strip() else ''
                    if '(error' in out and first not in ('sat', 'unsat'):
                        continue
                    if first in ('sat', 'unsat') and '(error' not in out.split('\n', 1)[0]:
                        if '(error' in out and first == 'unsat':
                            continue      # an old solver may drop an assertion it cannot parse: inconclusive
                        done = (first, name, time.time() - t0, out); break
            if done: break
            time.sleep(0.02)
        for name, p in pending.items():
            try: p.kill()
            except Exception: pass
        if done: return done
        return ('unknown', '', time.time() - t0, '')
    finally:
        shutil.rmtree(d, ignore_errors=True)

class Prover:
    def __init__(s, t_inproc_ms=5000, t_ext_s=60, use_external=True):
        s.t_inproc_ms = t_inproc_ms; s.t_ext_s = t_ext_s; s.use_external = use_external
        s.n = 0; s.unsat = 0; s.sat = 0; s.unknown = 0; s.time = 0.0
        s.by_solver = {}
        s.trivial = 0
    def check(s, assertions, want_model=True, tactic=None):
        """satisfiability of the conjunction; returns Result"""
        s.n += 1
        t0 = time.time()
        sol = z3.Solver() if tactic is None else z3.Tactic(tactic).solver()
        sol.set('timeout', s.t_inproc_ms)
        for a in assertions: sol.add(a)
        r = sol.check()
        dt = time.time() - t0
        if r == z3.unsat:
            s.unsat += 1; s.time += dt; s.by_solver['z3-5.1-inproc'] = s.by_solver.get('z3-5.1-inproc', 0) + 1
            return Result('unsat', None, 'z3-5.1-inproc', dt)
        if r == z3.sat:
            s.sat += 1; s.time += dt
            return Result('sat', sol.model(), 'z3-5.1-inproc', dt)
        if s.use_external:
            txt = to_smt2(assertions)
            st, name, secs, out = run_external(txt, s.t_ext_s)
            dt = time.time() - t0
            s.time += dt
            if st == 'unsat':
                s.unsat += 1; s.by_solver[name] = s.by_solver.get(name, 0) + 1
                return Result('unsat', None, name, dt)
            if st == 'sat':
                # get a model in-process by asking again with a longer timeout (only models we can evaluate are replayable)
                s.sat += 1
                sol2 = z3.Solver(); sol2.set('timeout', s.t_inproc_ms * 4)
                for a in assertions: sol2.add(a)
                if sol2.check() == z3.sat:
                    return Result('sat', sol2.model(), name, dt)
                return Result('sat', None, name, dt, detail=out[:4000])
        s.unknown += 1; s.time += time.time() - t0 - (dt if False else 0)
        return Result('unknown', None, '', time.time() - t0)

def model_value(model, term, prec=30):
    """python value (Fraction / int / float for FP / bool) of a term under a z3 model"""
    v = model.eval(term, model_completion=True)
    if z3.is_int_value(v): return v.as_long()
    if z3.is_rational_value(v): return Fraction(v.numerator_as_long(), v.denominator_as_long())
    if z3.is_algebraic_value(v):
        a = v.approx(prec)
        return Fraction(a.numerator_as_long(), a.denominator_as_long())
    if z3.is_bv_value(v): return v.as_long()
    if z3.is_true(v): return True
    if z3.is_false(v): return False
    if z3.is_fp_value(v) or z3.is_fp(v):
        import struct
        bv = z3.simplify(z3.fpToIEEEBV(v))
        if z3.is_bv_value(bv) and bv.size() == 64:
            return struct.unpack('<d', struct.pack('<Q', bv.as_long()))[0]
        return v
    return v
