"""Check driver plumbing: obligations, replays, known findings, evidence files, exit codes (DESIGN section 3)."""
import os, sys, json, time, traceback, multiprocessing, hashlib
import z3
from . import build
from .solve import Prover, Result, model_value

VERIF = os.path.dirname(os.path.dirname(os.path.abspath(__file__)))
OUT = os.environ.get('VERIF_OUT') or VERIF      # evidence/replays directory (VERIF_OUT is only used when trying checks against scratch trees)
EXIT_OK, EXIT_VIOLATION, EXIT_HARNESS = 0, 1, 2

class Report:
    """what one unit of work (one harness configuration) produced; picklable so pool workers can return it"""
    def __init__(s):
        s.obligations = 0; s.discharged = 0; s.inconclusive = 0; s.trivial = 0
        s.paths = 0; s.instr = 0; s.replays = 0; s.solver_time = 0.0; s.queries = 0
        s.violations = []     # dict(key, what, replay)
        s.samples = []
        s.functions = set(); s.stubs = set()
        s.errors = []         # harness errors (strings)
        s.bound_exceeded = []
        s.by_solver = {}
        s.notes = []
        s.witnesses = 0       # reachability twins that came back sat and replayed
        s.vacuous = []        # twins that were NOT reachable -> harness broken
        s.distinct = set()
    def merge(s, o):
        for k in ('obligations', 'discharged', 'inconclusive', 'trivial', 'paths', 'instr', 'replays', 'queries', 'witnesses'):
            setattr(s, k, getattr(s, k) + getattr(o, k))
        s.solver_time += o.solver_time
        s.violations += o.violations; s.errors += o.errors; s.bound_exceeded += o.bound_exceeded
        s.vacuous += o.vacuous; s.notes += o.notes
        if len(s.samples) < 12: s.samples += o.samples[:max(0, 12 - len(s.samples))]
        s.functions |= o.functions; s.stubs |= o.stubs; s.distinct |= o.distinct
        for k, v in o.by_solver.items(): s.by_solver[k] = s.by_solver.get(k, 0) + v
    def add_interp(s, I):
        s.instr += I.ninstr
        for f in I.called:
            (s.stubs if f in I.stubs else s.functions).add(f.lstrip('@'))
    def sample(s, **kw):
        if len(s.samples) < 6: s.samples.append(kw)

class Obligations:
    """collects and discharges obligations for one harness configuration"""
    def __init__(s, rep, prover=None, label=''):
        s.rep = rep; s.prover = prover or Prover(); s.label = label
    def prove(s, name, goal, assumptions=(), axioms=(), on_sat=None, domain='', sample=None):
        """goal must hold under assumptions (+axioms).  on_sat(model)->(reproduced:bool, key, what, replaydata) replays a counterexample."""
        rep = s.rep
        rep.obligations += 1
        g = goal
        if isinstance(g, bool) or isinstance(g, int):
            if g:
                rep.discharged += 1; rep.trivial += 1; return 'unsat'
            g = z3.BoolVal(False)
        g = z3.simplify(g)
        if z3.is_true(g):
            rep.discharged += 1; rep.trivial += 1
            rep.sample(obligation=s.label + name, domain=domain, verdict='closed by simplifier')
            return 'unsat'
        rep.distinct.add(hashlib.sha1((s.label + name + g.sexpr()[:2000]).encode()).hexdigest()[:12])
        before = s.prover.time
        t_full = s.prover.t_inproc_ms
        if len(axioms): s.prover.t_inproc_ms = min(t_full, 1500)       # pass 1 is only a fast path when axioms are available
        ext = s.prover.use_external
        if len(axioms): s.prover.use_external = False
        try:
            r = s.prover.check(list(assumptions) + [z3.Not(g)])
        finally:
            s.prover.t_inproc_ms = t_full; s.prover.use_external = ext
        model1 = r.model if r.status == 'sat' else None
        if r.status != 'unsat' and len(axioms):
            # second pass with the instantiated axioms about the uninterpreted atoms (inv, sqrt, sin/cos, ...) the goal mentions
            # the goal went through z3.simplify, which may rewrite the arguments of uninterpreted atoms (angle/2 -> 1/2*angle):
            # put assumptions and axioms through the same rewriter so that the same atom is the same term everywhere
            sa = [z3.simplify(a) for a in assumptions]
            sx = [_simp_cached(a) for a in axioms]
            ax = relevant_axioms([g] + sa, sx)
            terms = purify(sa + ax + [z3.Not(g)])
            r = s.prover.check(terms)
            if r.status == 'unknown' and model1 is not None and on_sat is not None:
                # solver-guided replay (DESIGN 2.6): the first-pass model fixes concrete inputs; a reproduced
                # discrepancy is a violation like any other, a non-reproduced one leaves the obligation inconclusive
                r = Result('sat', model1, r.solver or 'z3-5.1-inproc(pass1 model)', r.seconds)
        rep.solver_time += s.prover.time - before; rep.queries += 1
        rep.by_solver[r.solver or 'none'] = rep.by_solver.get(r.solver or 'none', 0) + 1
        if len(rep.samples) < 6:
            rep.sample(obligation=s.label + name, domain=domain, verdict=r.status, solver=r.solver, seconds=round(r.seconds, 3),
                       goal=g.sexpr()[:300], **(sample or {}))
        if r.status == 'unsat':
            rep.discharged += 1; return 'unsat'
        if r.status == 'sat':
            if on_sat is None or r.model is None:
                rep.inconclusive += 1
                rep.notes.append("%s%s: sat without replay (abstraction artefact or no replay available)" % (s.label, name))
                return 'sat-unreplayed'
            try:
                ok, key, what, data = on_sat(r.model)
            except Exception as e:
                rep.errors.append("replay of %s%s raised %r\n%s" % (s.label, name, e, traceback.format_exc()[-1500:]))
                return 'error'
            rep.replays += 1
            if ok:
                rep.violations.append(dict(key=key, what=what, replay=data, obligation=s.label + name))
                return 'violation'
            rep.inconclusive += 1
            rep.notes.append("%s%s: counterexample did not reproduce natively (%s) -> inconclusive" % (s.label, name, what))
            return 'sat-unreproduced'
        rep.inconclusive += 1
        rep.notes.append("%s%s: solver timeout/unknown -> inconclusive" % (s.label, name))
        return 'unknown'
    def witness(s, name, assumptions, axioms=(), replay=None):
        """reachability twin: the assumptions (path condition) must be satisfiable"""
        r = s.prover.check(list(assumptions) + list(axioms))
        s.rep.queries += 1
        if r.status == 'sat':
            s.rep.witnesses += 1
            if replay is not None and r.model is not None:
                try:
                    replay(r.model); s.rep.replays += 1
                except Exception as e:
                    s.rep.errors.append("witness replay %s%s raised %r" % (s.label, name, e))
            return True
        if r.status == 'unsat':
            s.rep.vacuous.append(s.label + name)
        return False

_SIMP = {}
def _simp_cached(a):
    k = a.get_id()
    r = _SIMP.get(k)
    if r is None:
        r = _SIMP[k] = (a, z3.simplify(a))
    return r[1]

def uf_apps(t, acc=None, seen=None):
    """ids of uninterpreted-function applications (arity>0) occurring in a term"""
    acc = {} if acc is None else acc
    seen = set() if seen is None else seen
    stack = [t]
    while stack:
        e = stack.pop()
        i = e.get_id()
        if i in seen: continue
        seen.add(i)
        if z3.is_app(e):
            if e.num_args() > 0 and e.decl().kind() == z3.Z3_OP_UNINTERPRETED:
                acc[i] = e
            stack.extend(e.children())
    return acc

def purify(terms):
    """replace every uninterpreted application by a fresh constant (outermost first).  This only forgets congruence, so
    `unsat` of the purified conjunction implies `unsat` of the original; a purified `sat` is confirmed by replay."""
    apps = {}
    for t in terms: uf_apps(t, apps)
    items = sorted(apps.values(), key=lambda e: -len(e.sexpr()))
    out = list(terms)
    for n, e in enumerate(items):
        v = z3.Const('pur!%d!%s' % (n, e.decl().name()), e.sort())
        out = [z3.substitute(t, (e, v)) for t in out]
        items[n + 1:] = [z3.substitute(x, (e, v)) for x in items[n + 1:]]
    return out

def relevant_axioms(terms, axioms):
    apps = {}
    for t in terms: uf_apps(t, apps)
    axs = [(a, uf_apps(a)) for a in axioms]
    chosen = []; used = set()
    changed = True
    while changed:
        changed = False
        for n, (a, ap) in enumerate(axs):
            if n in used: continue
            if any(i in apps for i in ap):
                used.add(n); chosen.append(a); changed = True
                for i, e in ap.items():
                    if i not in apps:
                        apps[i] = e
    return chosen

class NativeCrash(Exception):
    def __init__(s, sig): s.sig = sig

def isolated(fn, *args, timeout=300):
    """run fn(*args) in a forked child: a crash of the native library inside a replay must not take the checker down"""
    import pickle, signal, select
    r, w = os.pipe()
    pid = os.fork()
    if pid == 0:
        os.close(r)
        try:
            out = pickle.dumps(('ok', fn(*args)))
        except BaseException as e:
            out = pickle.dumps(('exc', repr(e)))
        try:
            with os.fdopen(w, 'wb') as f: f.write(out)
        finally:
            os._exit(0)
    os.close(w)
    data = b''
    t0 = time.time()
    with os.fdopen(r, 'rb') as f:
        while True:
            rl, _, _ = select.select([f], [], [], 1.0)
            if rl:
                chunk = f.read()
                data += chunk
                break
            if time.time() - t0 > timeout:
                os.kill(pid, signal.SIGKILL); break
    _, status = os.waitpid(pid, 0)
    if os.WIFSIGNALED(status): raise NativeCrash(os.WTERMSIG(status))
    if not data: raise NativeCrash(-1)
    kind, val = pickle.loads(data)
    if kind == 'exc': raise RuntimeError(val)
    return val

def load_known():
    p = os.path.join(VERIF, 'known_findings.json')
    if not os.path.exists(p): return []
    return json.load(open(p))['findings']

def run_units(units, worker, jobs=None):
    """units: list of picklable descriptors; worker(unit)->Report.  Runs in a fork pool; module parsed before forking."""
    jobs = jobs or min(16, os.cpu_count() or 1, max(1, len(units)))
    total = Report()
    if jobs == 1 or len(units) == 1:
        for u in units: total.merge(_safe(worker, u))
        return total
    from concurrent.futures import ProcessPoolExecutor, as_completed
    from concurrent.futures.process import BrokenProcessPool
    ctx = multiprocessing.get_context('fork')
    with ProcessPoolExecutor(jobs, mp_context=ctx) as pool:
        futs = {pool.submit(_Safe(worker), u): u for u in units}
        for f in as_completed(futs):
            try:
                total.merge(f.result())
            except BrokenProcessPool:
                total.errors.append("a worker process died (crash of native code or out of memory) while running unit %r" % (futs[f],))
            except Exception as e:
                total.errors.append("unit %r: %r" % (futs[f], e))
    return total

class _Safe:
    def __init__(s, w): s.w = w
    def __call__(s, u): return _safe(s.w, u)
def _safe(worker, u):
    try:
        return worker(u)
    except Exception as e:
        r = Report(); r.errors.append("unit %r raised %r\n%s" % (u, e, traceback.format_exc()[-2500:]))
        return r

def finish(pid, tier, rep, t0, bounds, assumptions, outside, domain_note, exhaustive=False, extra=None):
    """write evidence, print verdict lines, return exit code"""
    seed = int(os.environ.get('VERIF_SEED', '0') or 0)
    known = [k for k in load_known() if k['property'] == pid]
    open_keys = {k['key']: k for k in known if k.get('status', 'known') == 'known'}
    code = EXIT_OK
    os.makedirs(os.path.join(OUT, 'replays'), exist_ok=True)
    seen_known = set(); nviol = 0; per_key = {}
    for n, v in enumerate(rep.violations):
        if v['key'] in open_keys:
            if v['key'] not in seen_known:
                print("KNOWN-FINDING: property=%s %s [%s]" % (pid, open_keys[v['key']]['what'], v['key']))
                seen_known.add(v['key'])
            continue
        nviol += 1
        per_key[v['key']] = per_key.get(v['key'], 0) + 1
        code = EXIT_VIOLATION
        if per_key[v['key']] > 3: continue          # at most three replay files / lines per distinct failure class
        path = os.path.join(OUT, 'replays', '%s_%s_%d.json' % (pid, tier, n))
        json.dump(dict(property=pid, key=v['key'], what=v['what'], obligation=v.get('obligation'), replay=v['replay']), open(path, 'w'), indent=1, default=str)
        print("VIOLATION property=%s replay=%s" % (pid, path))
        print("  what: %s [%s]" % (v['what'], v['key']))
        code = EXIT_VIOLATION
    for k, kf in open_keys.items():
        if k not in seen_known:
            print("NOTE: known finding %s was not observed on this tree (fixed upstream? update known_findings.json)" % k)
    if rep.errors or rep.vacuous:
        for e in rep.errors[:10]: print("HARNESS-ERROR:", e, file=sys.stderr)
        for e in rep.vacuous[:10]: print("HARNESS-ERROR: vacuous harness (reachability twin unsat):", e, file=sys.stderr)
        if code == EXIT_OK: code = EXIT_HARNESS
    cov = dict(
        states=max(rep.paths, 0), transitions=rep.instr, traces_validated_against_impl=rep.replays,
        samples=rep.samples[:8] or [dict(note='no obligation reached')],
        obligations=rep.obligations, discharged=rep.discharged, inconclusive=rep.inconclusive,
        closed_by_simplifier=rep.trivial,
        evaluations=rep.obligations, distinct_nontrivial=len(rep.distinct),
        rule="one evaluation = one proof obligation (path condition ∧ ¬assertion) sent to the solver; non-trivial = contains symbolic variables and is not closed by the term simplifier; distinct by hash of name+goal",
        reachability_witnesses=rep.witnesses,
        functions_encoded=sorted(rep.functions)[:400], stubs_reached=sorted(rep.stubs),
        bounds=bounds, outside_claim=outside, domain=domain_note,
        solver_time_s=round(rep.solver_time, 2), solver_queries=rep.queries, solvers=rep.by_solver,
        bound_exceeded=rep.bound_exceeded[:20], notes=rep.notes[:40],
        known_findings_confirmed=sorted(seen_known),
        tree_digest=build.tree_digest(), exhaustive=bool(exhaustive),
    )
    if extra: cov.update(extra)
    ev = dict(property_id=pid, tier=tier, seed=seed, level='model_checking', coverage=cov,
              assumptions=assumptions, wall_s=round(time.time() - t0, 2), violations=nviol)
    os.makedirs(os.path.join(OUT, 'evidence'), exist_ok=True)
    json.dump(ev, open(os.path.join(OUT, 'evidence', pid + '.json'), 'w'), indent=1, default=str)
    print("%s %s: %d obligations, %d discharged (%d by simplifier), %d inconclusive, %d paths, %d IR instr, %d replays, %d witnesses, solver %.1fs, wall %.1fs -> exit %d" % (
        pid, tier, rep.obligations, rep.discharged, rep.trivial, rep.inconclusive, rep.paths, rep.instr, rep.replays, rep.witnesses, rep.solver_time, time.time() - t0, code))
    return code


# ------------------------------------------------------------------------------------------------------------------------------
class Lineariser:
    """abstraction for obligations that are linear in the atoms: every application of an uninterpreted function (sqrt, inv, acos2,
    sin, ...) and every genuinely non-linear product / power / division is replaced by a fresh real constant (the same term always
    by the same constant).  Proving the abstracted obligation proves the original (the abstraction only forgets facts)."""
    def __init__(s, som=False): s.cache = {}; s.n = 0; s.som = som
    def fresh(s, t):
        s.n += 1; return z3.Real('lin!%d' % s.n)
    def __call__(s, t):
        t = (z3.simplify(t, som=True) if s.som else z3.simplify(t)) if z3.is_expr(t) else t
        return s.go(t)
    def go(s, t):
        k = t.get_id()
        if k in s.cache: return s.cache[k][1]
        r = s._go(t); s.cache[k] = (t, r); return r           # keep t alive: z3 recycles ast ids
    def _go(s, t):
        if z3.is_const(t) or z3.is_rational_value(t) or z3.is_int_value(t): return t
        kind = t.decl().kind(); ch = t.children()
        if kind == z3.Z3_OP_UNINTERPRETED: return s.fresh(t) if t.sort() == z3.RealSort() else t
        if kind == z3.Z3_OP_MUL:
            nonnum = [c for c in ch if not (z3.is_rational_value(c) or z3.is_int_value(c))]
            if len(nonnum) > 1 and not all(c.sort() == z3.IntSort() for c in nonnum) and not (len(nonnum) == 2 and any(c.decl().kind() == z3.Z3_OP_TO_REAL for c in nonnum) and False): return s.fresh(t)
        if kind in (z3.Z3_OP_POWER, z3.Z3_OP_DIV) and not (kind == z3.Z3_OP_DIV and (z3.is_rational_value(ch[1]))): return s.fresh(t)
        nch = [s.go(c) for c in ch]
        return t.decl()(*nch) if nch else t


class LinExplorer:
    """path exploration whose feasibility queries see only the LINEAR skeleton of the path condition (non-linear terms and
    uninterpreted atoms abstracted by Lineariser).  Over-approximates feasibility (never prunes a feasible path); z3's non-linear
    engine does not honour its timeout on some of these queries, the linear one answers in milliseconds."""
    def __init__(s, run, max_paths=4000):
        from llsym.engine import PathCtx, PathInfeasible, BoundExceeded
        s.run = run; s.max_paths = max_paths; s.results = []; s.nqueries = 0; s.qtime = 0.0
    def explore(s):
        from llsym.engine import PathCtx, PathInfeasible, BoundExceeded
        outer = s
        class Ctx(PathCtx):
            def __init__(c, prefix=()):
                PathCtx.__init__(c, prefix); c.lin = Lineariser(); c.lsolver = z3.Solver(); c.lsolver.set('timeout', 2000)
            def assume(c, cond):
                n0 = len(c.pc); PathCtx.assume(c, cond)
                for t in c.pc[n0:]: c.lsolver.add(c.lin(t))
            def feasible(c, cond):
                outer.nqueries += 1; t0 = time.time()
                r = c.lsolver.check(c.lin(cond)); outer.qtime += time.time() - t0
                return r != z3.unsat
            def branch(c, cond):
                n0 = len(c.pc); d = PathCtx.branch(c, cond)
                for t in c.pc[n0:]: c.lsolver.add(c.lin(t))
                return d
        work = [[]]; n = 0
        while work:
            if n >= s.max_paths: raise BoundExceeded("path bound %d" % s.max_paths)
            pre = work.pop(); ctx = Ctx(pre); n += 1
            try:
                res = s.run(ctx)
            except PathInfeasible:
                work.extend(ctx.pending); continue
            work.extend(ctx.pending)
            s.results.append((ctx, res))
        return s.results
