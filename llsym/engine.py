"""llsym: symbolic interpreter for the LLVM IR of REBOUND (DESIGN section 2).

Values
  iN      : python int in [0,2^N) or z3 BitVecRef(N); i1 may also be a z3 BoolRef
  double  : domain value (see domains.py)
  pointer : Ptr(obj, off) ; NULL is Ptr(0,0) ; functions are Ptr(FnObj) with off 0
Memory   : objects with an optional concrete byte layer (`base`) and a cell layer for everything
           that is not a concrete integer byte string (symbolic ints, doubles, pointers).
Control  : concrete where data is concrete; a symbolic branch asks the path context, which forks by
           re-execution with a decision prefix (Explorer).
"""
import sys, math, itertools, time
import z3
from .ir import *
from .domains import *

sys.setrecursionlimit(20000)

class MemError(Exception):
    """memory-safety violation in the code under analysis (out of bounds, use after free, bad free...)"""
class BoundExceeded(Exception):
    """unwinding / instruction bound hit: the path is reported as outside the bound, never as a pass"""
class PathInfeasible(Exception):
    pass
class ExitCalled(Exception):
    def __init__(s, code): s.code = code
class AssertFail(Exception):
    """property assertion failed on this path (raised by harness helpers)"""

class Ptr:
    __slots__ = ('obj', 'off')
    def __init__(s, obj, off): s.obj = obj; s.off = off
    def __repr__(s): return "&%s+%s" % (s.obj, s.off)
    def __eq__(s, o): return isinstance(o, Ptr) and s.obj == o.obj and s.off == o.off
    def __hash__(s): return hash((s.obj, s.off))
NULL = Ptr(0, 0)

class Obj:
    __slots__ = ('id', 'size', 'base', 'cells', 'name', 'alive', 'kind', 'const', 'fn')
    def __init__(s, id, size, name, kind, zero):
        s.id = id; s.size = size; s.name = name; s.kind = kind; s.alive = True; s.const = False
        s.cells = {}
        s.base = bytearray(size) if zero else None
        s.fn = None

class Uninit:
    """marker returned for reads of never-written malloc memory"""
    def __repr__(s): return "<uninit>"
UNINIT = Uninit()

def _isz3(x): return isinstance(x, z3.ExprRef)

class Memory:
    def __init__(s, dom):
        s.objs = {}
        s.next = 1
        s.dom = dom
        s.uninit_reads = 0
        s.global_writes = []     # (name, off) log of stores to mutable globals
        s.global_reads = set()
        s.log_globals = False
        s.nfresh = 0
        s.on_uninit = 'fresh'    # 'fresh' | 'zero' | 'error'
    def alloc(s, size, name='', kind='heap', zero=False):
        i = s.next; s.next += 1
        s.objs[i] = Obj(i, size, name, kind, zero)
        return Ptr(i, 0)
    def obj(s, p, n, write=False):
        if not isinstance(p, Ptr): raise MemError("access through non-pointer %r" % (p,))
        if p.obj == 0: raise MemError("NULL dereference (offset %s)" % (p.off,))
        o = s.objs.get(p.obj)
        if o is None: raise MemError("wild pointer %r" % p)
        if not o.alive: raise MemError("use after free of %s" % o.name)
        if not isinstance(p.off, int): raise Unsupported("symbolic offset reached memory")
        if p.off < 0 or p.off + n > o.size:
            raise MemError("out-of-bounds %s of %d bytes at offset %d of %s (size %d)" % ('store' if write else 'load', n, p.off, o.name, o.size))
        if write:
            if o.const: raise MemError("store to constant %s" % o.name)
            if o.kind == 'fn': raise MemError("store to function")
            if s.log_globals and o.kind == 'global': s.global_writes.append((o.name, p.off))
        elif s.log_globals and o.kind == 'global' and not o.const:
            s.global_reads.add(o.name)
        return o
    # ---- typed store/load
    def _clear(s, o, off, n):
        c = o.cells
        if c:
            for k in range(off - 7, off + n):
                e = c.get(k)
                if e is not None and k + e[0] > off:
                    if k < off or k + e[0] > off + n:
                        s._split_cell(o, k)     # partial overwrite: break into bytes first
                        for kk in range(max(k, off), min(k + e[0], off + n)):
                            c.pop(kk, None)
                    else:
                        del c[k]
    def _split_cell(s, o, k):
        sz, v = o.cells.pop(k)
        bs = s._bytes_of(v, sz)
        for j, b in enumerate(bs):
            if isinstance(b, int) and o.base is not None: o.base[k + j] = b
            else: o.cells[k + j] = (1, b)
    def _bytes_of(s, v, sz):
        """little-endian list of byte values (python int or BV8) of a cell value"""
        if isinstance(v, int): return list(v.to_bytes(sz, 'little'))
        if isinstance(v, float): return list(struct.pack('<d', v)) if sz == 8 else list(struct.pack('<f', v))
        if isinstance(v, Ptr):
            if v.obj == 0 and v.off == 0: return [0] * 8
            raise Unsupported("byte view of a pointer")
        if _isz3(v):
            if z3.is_bool(v): v = z3.If(v, z3.BitVecVal(1, 8), z3.BitVecVal(0, 8))
            if z3.is_bv(v):
                return [z3.simplify(z3.Extract(8 * j + 7, 8 * j, v)) for j in range(sz)]
            if z3.is_fp(v):
                bv = z3.fpToIEEEBV(v)
                return [z3.simplify(z3.Extract(8 * j + 7, 8 * j, bv)) for j in range(sz)]
        if v is UNINIT: return [UNINIT] * sz
        raise Unsupported("byte view of %r" % (type(v),))
    def store(s, p, ty, v):
        n = ty.size()
        o = s.obj(p, n, True)
        off = p.off
        s._clear(o, off, n)
        if o.base is not None and isinstance(v, int) and ty.kind == 'int':
            o.base[off:off + n] = v.to_bytes(n, 'little')
        elif o.base is not None and ty.kind == 'ptr' and isinstance(v, Ptr) and v.obj == 0 and v.off == 0:
            o.base[off:off + n] = bytes(8)
        else:
            if o.base is not None: pass
            o.cells[off] = (n, v)
    def load(s, p, ty):
        n = ty.size()
        o = s.obj(p, n)
        off = p.off
        k = ty.kind
        e = o.cells.get(off)
        if e is not None and e[0] == n:
            return s._coerce(e[1], ty)
        # any overlapping cell?
        if o.cells:
            for q in range(off - 7, off + n):
                e2 = o.cells.get(q)
                if e2 is not None and q + e2[0] > off:
                    return s._load_bytes(o, off, ty)
        if o.base is None:
            return s._uninit(o, off, ty)
        raw = bytes(o.base[off:off + n])
        if k == 'int': return int.from_bytes(raw, 'little')
        if k == 'fp':
            if n == 8: return s.dom.const(struct.unpack('<d', raw)[0])
            return s.dom.const(struct.unpack('<f', raw)[0])
        if k == 'ptr':
            if raw == bytes(8): return NULL
            raise MemError("loading a pointer from integer bytes at %s+%d" % (o.name, off))
        raise Unsupported("load of %r" % ty)
    def _uninit(s, o, off, ty):
        s.uninit_reads += 1
        if s.on_uninit == 'error': raise MemError("read of uninitialised memory %s+%d" % (o.name, off))
        if s.on_uninit == 'zero':
            if ty.kind == 'int': return 0
            if ty.kind == 'fp': return s.dom.const(0.0)
            return NULL
        if ty.kind == 'ptr':
            # reading an indeterminate pointer is tolerated (it is what the hardware does); using it is not:
            # the junk pointer names no object, so any dereference / free raises "wild pointer"
            s.nfresh += 1
            v = Ptr(-s.nfresh, 0)
            o.cells[off] = (8, v)
            return v
        # materialise the never-written bytes once, so that later reads and copies see the same (arbitrary) bits
        s._materialise_gaps(o, off, off + ty.size())
        e = o.cells.get(off)
        if e is not None and e[0] == ty.size(): return s._coerce(e[1], ty)
        return s._load_bytes(o, off, ty)
    def _materialise_gaps(s, o, lo, hi):
        """give every byte of [lo,hi) of a base-less object that no cell covers a fresh symbolic value (stable junk)"""
        if o.base is not None: return
        k = lo
        cells = o.cells
        while k < hi:
            c = None
            for q in range(k - 7, k + 1):
                e = cells.get(q)
                if e is not None and q + e[0] > k: c = (q, e); break
            if c is not None:
                k = c[0] + c[1][0]; continue
            # length of the gap starting at k
            j = k + 1
            while j < hi and cells.get(j) is None: j += 1
            n = 8 if (k % 8 == 0 and j - k >= 8) else (4 if (k % 4 == 0 and j - k >= 4) else 1)
            s.nfresh += 1
            cells[k] = (n, z3.BitVec("uninit!%s!%d!%d" % (o.name, k, s.nfresh), 8 * n))
            k += n
    def _coerce(s, v, ty):
        k = ty.kind
        if k == 'int':
            if isinstance(v, int): return v
            if _isz3(v):
                if z3.is_bool(v): return v
                if z3.is_bv(v): return v
                if z3.is_fp(v): return z3.fpToIEEEBV(v)
            if isinstance(v, float): return f2bits(v) if ty.bits == 64 else struct.unpack('<I', struct.pack('<f', v))[0]
            if isinstance(v, Ptr) and v.obj == 0: return v.off
            if isinstance(v, Fraction): return s.dom.to_bits(v)
            if v is UNINIT: return s._fresh_int(ty.bits)
            raise Unsupported("int view of %r" % (v,))
        if k == 'fp':
            if isinstance(v, int): return s.dom.from_bits(v) if ty.bits == 64 else s.dom.const(struct.unpack('<f', struct.pack('<I', v))[0])
            if _isz3(v) and z3.is_bv(v) and s.dom.name == 'REAL' and z3.is_const(v) and v.decl().name().startswith('uninit!'):
                # never-written junk read as a double in the REAL domain: an arbitrary (but stable) real number
                jr = s.__dict__.setdefault('_junk_reals', {})
                k_ = v.decl().name()
                if k_ not in jr: jr[k_] = s.dom.fresh('junk!' + k_)
                return jr[k_]
            if _isz3(v) and z3.is_bv(v) and s.dom.name != 'UF': return s.dom.from_bits(v)
            if v is UNINIT: s.nfresh += 1; return s.dom.fresh("uninit!%d" % s.nfresh)
            return v
        if k == 'ptr':
            if isinstance(v, Ptr): return v
            if isinstance(v, int) and v == 0: return NULL
            if v is UNINIT: raise MemError("uninitialised pointer")
            raise MemError("pointer load of non-pointer value %r" % (v,))
        raise Unsupported("coerce %r" % ty)
    def _fresh_int(s, bits):
        s.nfresh += 1
        return z3.BitVec("uninit!%d" % s.nfresh, bits)
    def byte_at(s, o, q):
        e = o.cells.get(q)
        if e is not None and e[0] == 1: return e[1]
        if o.cells:
            for k in range(q - 7, q + 1):
                e = o.cells.get(k)
                if e is not None and k + e[0] > q:
                    return s._bytes_of(e[1], e[0])[q - k]
        if o.base is not None: return o.base[q]
        return UNINIT
    def _load_bytes(s, o, off, ty):
        n = ty.size()
        bs = [s.byte_at(o, off + j) for j in range(n)]
        if any(b is UNINIT for b in bs):
            return s._uninit(o, off, ty)
        if all(isinstance(b, int) for b in bs):
            v = int.from_bytes(bytes(bs), 'little')
        else:
            zs = [z3.BitVecVal(b, 8) if isinstance(b, int) else b for b in bs]
            v = z3.simplify(z3.Concat(*reversed(zs))) if n > 1 else zs[0]
        return s._coerce(v, ty)
    # ---- bulk
    def copy(s, dst, src, n):
        if n == 0: return
        so = s.obj(src, n); do = s.obj(dst, n, True)
        # gather source cells (splitting partial overlaps)
        items = []
        lo = src.off; hi = src.off + n
        if so.base is None and s.on_uninit == 'fresh' and n <= 1 << 16 and s.dom.symbolic:
            s._materialise_gaps(so, lo, hi)
        if so.cells:
            for k in list(so.cells.keys()):
                e = so.cells.get(k)
                if e is None: continue
                if k < hi and k + e[0] > lo and (k < lo or k + e[0] > hi):
                    s._split_cell(so, k)
            if len(so.cells) > 4 * n:
                for k in range(lo, hi):
                    e = so.cells.get(k)
                    if e is not None: items.append((k, e))
            else:
                for k, e in so.cells.items():
                    if lo <= k < hi: items.append((k, e))
        basebytes = bytes(so.base[lo:hi]) if so.base is not None else None
        s._clear(do, dst.off, n)
        if basebytes is not None:
            if do.base is not None:
                do.base[dst.off:dst.off + n] = basebytes
            else:
                # destination has no byte layer: materialise bytes as cells where no cell covers them
                covered = bytearray(n)
                for k, e in items:
                    for j in range(k - lo, k - lo + e[0]): covered[j] = 1
                j = 0
                while j < n:
                    if covered[j]: j += 1; continue
                    # group into aligned 8/4/1 chunks
                    a = dst.off + j
                    if a % 8 == 0 and j + 8 <= n and not any(covered[j:j + 8]):
                        do.cells[a] = (8, int.from_bytes(basebytes[j:j + 8], 'little')); j += 8
                    elif a % 4 == 0 and j + 4 <= n and not any(covered[j:j + 4]):
                        do.cells[a] = (4, int.from_bytes(basebytes[j:j + 4], 'little')); j += 4
                    else:
                        do.cells[a] = (1, basebytes[j]); j += 1
        d = dst.off - lo
        for k, e in items:
            do.cells[k + d] = e
    def set_bytes(s, p, data):
        o = s.obj(p, len(data), True)
        s._clear(o, p.off, len(data))
        if o.base is not None: o.base[p.off:p.off + len(data)] = data
        else:
            for j, b in enumerate(data): o.cells[p.off + j] = (1, b)
    def memset(s, p, byte, n):
        if n == 0: return
        o = s.obj(p, n, True)
        if not isinstance(byte, int): raise Unsupported("symbolic memset value")
        s._clear(o, p.off, n)
        if o.base is None:
            # promote to a byte layer? keep cells for already-written data
            if not o.cells and p.off == 0 and n == o.size:
                o.base = bytearray([byte & 255]) * n
                return
            o.base = None
            for j in range(n): o.cells[p.off + j] = (1, byte & 255)
        else:
            o.base[p.off:p.off + n] = bytes([byte & 255]) * n
    def cstring(s, p, maxlen=1 << 16):
        o = s.obj(p, 1)
        out = bytearray()
        q = p.off
        while q < o.size and len(out) < maxlen:
            b = s.byte_at(o, q)
            if not isinstance(b, int): raise Unsupported("symbolic byte in C string %s" % o.name)
            if b == 0: return bytes(out)
            out.append(b); q += 1
        raise MemError("unterminated string in %s" % o.name)
    def read_bytes(s, p, n):
        o = s.obj(p, n)
        return [s.byte_at(o, p.off + j) for j in range(n)]
    def free(s, p):
        if p.obj == 0 and p.off == 0: return
        o = s.objs.get(p.obj)
        if o is None: raise MemError("free of wild pointer")
        if o.kind != 'heap': raise MemError("free of non-heap object %s (%s)" % (o.name, o.kind))
        if not o.alive: raise MemError("double free of %s" % o.name)
        if p.off != 0: raise MemError("free of interior pointer into %s" % o.name)
        o.alive = False
    def realloc(s, p, n, name='realloc'):
        if p.obj == 0 and p.off == 0:
            return s.alloc(n, name)
        o = s.objs.get(p.obj)
        if o is None or o.kind != 'heap': raise MemError("realloc of non-heap object %s" % (o.name if o else p))
        if not o.alive: raise MemError("realloc of freed object %s" % o.name)
        if p.off != 0: raise MemError("realloc of interior pointer")
        q = s.alloc(n, o.name or name)
        m = min(n, o.size)
        if m: s.copy(q, p, m)
        o.alive = False
        return q

# ------------------------------------------------------------------------------------------ paths
class PathCtx:
    """Decision-prefix path context.  `branch(cond)` returns the direction taken on this run."""
    def __init__(s, prefix=(), timeout_ms=2000, explorer=None):
        s.prefix = list(prefix); s.pos = 0
        s.decisions = []          # list of bool taken
        s.pc = []                 # z3 Bool terms
        s.pending = []            # prefixes to explore later
        s.solver = z3.Solver(); s.solver.set('timeout', timeout_ms)
        s.nqueries = 0; s.qtime = 0.0
        s.unknown_feasible = 0
        s.extra_axioms = lambda: []
        s._ax_added = 0
    def assume(s, c):
        if c is True or (isinstance(c, int) and c): return
        if c is False or (isinstance(c, int) and not c): raise PathInfeasible()
        c = z3.simplify(c)
        if z3.is_true(c): return
        if z3.is_false(c): raise PathInfeasible()
        s.pc.append(c); s.solver.add(c)
    def _sync_axioms(s):
        ax = s.extra_axioms()
        while s._ax_added < len(ax):
            s.solver.add(ax[s._ax_added]); s._ax_added += 1
    def feasible(s, c):
        s._sync_axioms()
        s.nqueries += 1; t0 = time.time()
        r = s.solver.check(c)
        s.qtime += time.time() - t0
        if r == z3.unknown: s.unknown_feasible += 1
        return r != z3.unsat
    def branch(s, c):
        if isinstance(c, int): return bool(c)
        c = z3.simplify(c)
        if z3.is_true(c): return True
        if z3.is_false(c): return False
        if s.pos < len(s.prefix):
            d = s.prefix[s.pos]; s.pos += 1
            assert isinstance(d, bool), "decision prefix misaligned (non-deterministic re-execution)"
            s.decisions.append(d)
            cc = c if d else z3.Not(c)
            s.pc.append(cc); s.solver.add(cc)
            return d
        ft = s.feasible(c); ff = s.feasible(z3.Not(c))
        if ft and ff:
            s.pending.append(s.decisions + [False])
            d = True
        elif ft: d = True
        elif ff: d = False
        else: raise PathInfeasible()
        s.pos += 1; s.prefix.append(d)
        s.decisions.append(d)
        if ft and ff:
            cc = c if d else z3.Not(c)
            s.pc.append(cc); s.solver.add(cc)
        return d
    def concretize(s, bv, what='value'):
        """enumerate the feasible values of a bit-vector term by forking"""
        if isinstance(bv, int): return bv
        bv = z3.simplify(bv)
        if z3.is_bv_value(bv): return bv.as_long()
        for _ in range(4096):
            # deterministic candidate: smallest feasible value is expensive; use recorded decisions
            if s.pos < len(s.prefix):
                ent = s.prefix[s.pos]
                assert isinstance(ent, tuple), "decision prefix misaligned (non-deterministic re-execution)"
                tag, v, d = ent; s.pos += 1
                s.decisions.append((tag, v, d))
                cc = (bv == v) if d else (bv != v)
                s.pc.append(cc); s.solver.add(cc)
                if d: return v
                continue
            s._sync_axioms()
            s.nqueries += 1
            r = s.solver.check()
            if r != z3.sat: raise PathInfeasible()
            v = s.solver.model().eval(bv, model_completion=True).as_long()
            other = s.feasible(bv != v)
            if other:
                s.pending.append(s.decisions + [('eq', v, False)])
            s.decisions.append(('eq', v, True)); s.prefix.append(('eq', v, True)); s.pos += 1
            cc = bv == v
            s.pc.append(cc); s.solver.add(cc)
            return v
        raise BoundExceeded("concretize: too many values for " + what)

class Explorer:
    """depth-first exploration of all decision sequences of `run(ctx)`."""
    def __init__(s, run, max_paths=10000, timeout_ms=2000, on_path=None):
        s.run = run; s.max_paths = max_paths; s.timeout_ms = timeout_ms
        s.paths = 0; s.infeasible = 0; s.results = []
        s.nqueries = 0; s.qtime = 0.0
    def explore(s):
        work = [[]]
        while work:
            if s.paths >= s.max_paths: raise BoundExceeded("path bound %d" % s.max_paths)
            prefix = work.pop()
            ctx = PathCtx(prefix, s.timeout_ms)
            try:
                r = s.run(ctx)
                s.paths += 1
                s.results.append((ctx, r))
            except PathInfeasible:
                s.infeasible += 1
            work.extend(ctx.pending)
            s.nqueries += ctx.nqueries; s.qtime += ctx.qtime
        return s.results

# ------------------------------------------------------------------------------------------ interpreter
class FnObj:
    pass

class Interp:
    def __init__(s, mod, dom, ctx=None, stubs=None):
        s.mod = mod; s.dom = dom
        s.mem = Memory(dom)
        s.ctx = ctx if ctx is not None else PathCtx()
        if hasattr(dom, 'axioms'): s.ctx.extra_axioms = lambda: dom.axioms
        s.stubs = dict(stubs or {})
        s.ninstr = 0
        s.max_instr = 50_000_000
        s.loop_bound = None          # max visits of one block per function activation
        s.gptr = {}                  # global name -> Ptr
        s.fnptr = {}                 # function name -> Ptr ; obj id -> name
        s.fnname = {}
        s.trace = None               # optional list collecting called function names
        s.called = set()
        s.depth = 0
        s.nondet = 0
        from . import stubs as _st
        for k, v in _st.default_stubs().items():
            s.stubs.setdefault(k, v)
    # ---- globals
    def global_ptr(s, name):
        p = s.gptr.get(name)
        if p is not None: return p
        if name in s.mod.funcs or name in s.stubs or name in s.mod.declared:
            p = s.mem.alloc(1, name, 'fn')
            s.mem.objs[p.obj].fn = name
            s.gptr[name] = p; s.fnname[p.obj] = name
            return p
        g = s.mod.globals.get(name)
        if g is None: raise Unsupported("unknown global " + name)
        ty, init, is_const = g
        if init is None:
            # external data (stdout, stderr...)
            p = s.mem.alloc(max(ty.size(), 8), name, 'global', zero=True)
            s.gptr[name] = p
            if name in ('@stdout', '@stderr', '@stdin'):
                fobj = s.mem.alloc(8, name[1:] + '_FILE', 'global', zero=True)
                s.mem.objs[p.obj].cells[0] = (8, fobj)
            return p
        # size from the initialiser's own type
        p = s.mem.alloc(ty.size(), name, 'global', zero=True)
        s.gptr[name] = p
        o = s.mem.objs[p.obj]
        for off, kind, payload in s.mod.flatten_init(ty, init):
            if kind == 'bytes': o.base[off:off + len(payload)] = payload
            elif kind == 'f64': o.base[off:off + 8] = struct.pack('<d', payload)
            elif kind == 'f32': o.base[off:off + 4] = struct.pack('<f', payload)
            elif kind == 'ptr': o.cells[off] = (8, s.operand({}, payload))
        o.const = is_const
        return p
    # ---- operands
    def operand(s, env, d):
        k = d[0]
        if k == 'r': return env[d[1]]
        if k == 'i': return d[1]
        if k == 'f': return s.dom.const(d[1])
        if k == 'null': return NULL
        if k == 'g': return s.global_ptr(d[1])
        if k == 'undef': return 0
        if k == 'gep':
            base = s.operand(env, d[2][1])
            return s.gep(env, d[1], base, d[3])
        if k == 'cast': return s.operand(env, d[1])
        if k == 'inttoptr': return Ptr(0, d[1])
        if k == 'zero': return 0
        raise Unsupported("operand %r" % (d,))
    def gep(s, env, bt, base, idx):
        if not isinstance(base, Ptr): raise MemError("getelementptr on non-pointer %r" % (base,))
        off = base.off; cur = bt
        for k, (it, iop) in enumerate(idx):
            i = s.operand(env, iop) if iop[0] != 'i' else iop[1]
            if not isinstance(i, int):
                if z3.is_bool(i): i = 1 if s.ctx.branch(i) else 0
                else: i = s.ctx.concretize(i, 'gep index')
            bits = it.bits
            if i >= 1 << (bits - 1): i -= 1 << bits
            if k == 0: off += i * cur.size()
            else:
                c = resolve(cur)
                if c.kind == 'struct': off += c.layout()[0][i]; cur = c.fields[i]
                elif c.kind == 'arr': off += i * c.elem.size(); cur = c.elem
                else: raise Unsupported("gep into %r" % c)
        return Ptr(base.obj, off)
    # ---- calls
    def call(s, fname, args):
        st = s.stubs.get(fname)
        if st is not None:
            s.called.add(fname)
            return st(s, *args)
        f = s.mod.funcs.get(fname)
        if f is None: raise Unsupported("call to undefined function %s (no stub)" % fname)
        return s.run_function(f, args)
    def run_function(s, f, args, varargs=None):
        f.decode()
        s.called.add(f.name)
        if s.trace is not None: s.trace.append(f.name)
        env = {}
        frame_allocs = []
        for (pn, pt, bv), a in zip(f.params, args):
            if bv is not None:
                sz = bv.size()
                q = s.mem.alloc(sz, 'byval:' + f.name, 'stack')
                s.mem.copy(q, a, sz)
                frame_allocs.append(q.obj)
                a = q
            env[pn] = a
        if f.vararg: env['__varargs'] = list(args[len(f.params):])
        blocks = f.blocks
        blk = f.entry; prev = None
        mem = s.mem; dom = s.dom; operand = s.operand
        visits = {}
        s.depth += 1
        try:
            while True:
                phis, body = blocks[blk]
                if s.loop_bound is not None:
                    v = visits.get(blk, 0) + 1; visits[blk] = v
                    if v > s.loop_bound: raise BoundExceeded("loop bound %d in %s block %s" % (s.loop_bound, f.name, blk))
                if phis:
                    nv = [(ph.dst, operand(env, ph.a[prev])) for ph in phis]
                    for k_, v_ in nv: env[k_] = v_
                nxt = None
                for ins in body:
                    s.ninstr += 1
                    op = ins.op
                    if op == 'load':
                        env[ins.dst] = mem.load(operand(env, ins.a), resolve(ins.ty))
                    elif op == 'gep':
                        env[ins.dst] = s.gep(env, ins.ty, operand(env, ins.a), ins.b)
                    elif op == 'store':
                        mem.store(operand(env, ins.b), resolve(ins.ty), operand(env, ins.a))
                    elif op == 'fmul': env[ins.dst] = dom.fmul(operand(env, ins.a), operand(env, ins.b))
                    elif op == 'fadd': env[ins.dst] = dom.fadd(operand(env, ins.a), operand(env, ins.b))
                    elif op == 'fsub': env[ins.dst] = dom.fsub(operand(env, ins.a), operand(env, ins.b))
                    elif op == 'fdiv': env[ins.dst] = dom.fdiv(operand(env, ins.a), operand(env, ins.b))
                    elif op == 'jmp':
                        nxt = ins.a; break
                    elif op == 'br':
                        c = operand(env, ins.a)
                        if not isinstance(c, int): c = s.ctx.branch(c)
                        nxt = ins.b if c else ins.c; break
                    elif op == 'call':
                        r = s.do_call(env, ins)
                        if ins.dst: env[ins.dst] = r
                    elif op == 'ret':
                        return operand(env, ins.a) if ins.a is not None else None
                    elif op == 'switch':
                        v = operand(env, ins.a)
                        if not isinstance(v, int): v = s.ctx.concretize(v, 'switch')
                        nxt = ins.c.get(v, ins.b); break
                    elif op == 'alloca':
                        n = 1
                        if ins.a is not None:
                            n = operand(env, ins.a[1])
                            if not isinstance(n, int): n = s.ctx.concretize(n, 'alloca count')
                        q = mem.alloc(ins.ty.size() * n, 'alloca:%s:%s' % (f.name, ins.dst), 'stack')
                        frame_allocs.append(q.obj)
                        env[ins.dst] = q
                    elif op == 'unreachable':
                        raise Unsupported("reached 'unreachable' in " + f.name)
                    else:
                        env[ins.dst] = s.alu(env, ins)
                    if s.ninstr > s.max_instr: raise BoundExceeded("instruction bound")
                prev = blk; blk = nxt
        finally:
            s.depth -= 1
            for oid in frame_allocs: mem.objs[oid].alive = False
    def do_call(s, env, ins):
        callee = ins.a
        if callee[0] == 'g': fname = callee[1]
        else:
            fp = s.operand(env, callee)
            if not isinstance(fp, Ptr) or fp.obj not in s.fnname:
                raise MemError("indirect call through non-function pointer %r" % (fp,))
            fname = s.fnname[fp.obj]
        args = [s.operand(env, a[1]) for a in ins.b]
        if fname.startswith('@llvm.'):
            return s.intrinsic(env, fname, args)
        st = s.stubs.get(fname)
        if st is not None:
            s.called.add(fname)
            return st(s, *args)
        f = s.mod.funcs.get(fname)
        if f is None: raise Unsupported("call to undefined function %s (no stub)" % fname)
        # byval at call sites: callee copies (handled in run_function from the define's attributes)
        return s.run_function(f, args)
    def intrinsic(s, env, name, args):
        if name.startswith('@llvm.memcpy') or name.startswith('@llvm.memmove'):
            n = args[2]
            if not isinstance(n, int): n = s.ctx.concretize(n, 'memcpy length')
            s.mem.copy(args[0], args[1], n); return None
        if name.startswith('@llvm.memset'):
            n = args[2]
            if not isinstance(n, int): n = s.ctx.concretize(n, 'memset length')
            s.mem.memset(args[0], args[1], n); return None
        if name.startswith('@llvm.fabs'): return s.dom.libm('fabs', args)
        if name.startswith('@llvm.floor'): return s.dom.libm('floor', args)
        if name.startswith('@llvm.copysign'): return s.dom.libm('copysign', args)
        if name.startswith('@llvm.sqrt'): return s.dom.libm('sqrt', args)
        if name.startswith('@llvm.va_start'):
            va = env.get('__varargs')
            if va is None: raise Unsupported("va_start outside a vararg function")
            from . import stubs as _st
            _st.build_va_list(s, args[0], va)
            return None
        if name.startswith('@llvm.va_end') or name.startswith('@llvm.dbg') or name.startswith('@llvm.lifetime'):
            return None
        if name.startswith('@llvm.va_copy'):
            s.mem.copy(args[0], args[1], 24); return None
        raise Unsupported("intrinsic " + name)
    # ---- scalar ops
    def alu(s, env, ins):
        op = ins.op
        if op in ('add', 'sub', 'mul', 'and', 'or', 'xor', 'shl', 'lshr', 'ashr', 'sdiv', 'udiv', 'srem', 'urem'):
            a = s.operand(env, ins.a); b = s.operand(env, ins.b)
            ty = ins.ty
            return s.intop(op, a, b, ty.bits)
        if op == 'icmp':
            a = s.operand(env, ins.a); b = s.operand(env, ins.b)
            return s.icmp(ins.extra, a, b, resolve(ins.ty))
        if op == 'fcmp':
            return s.dom.fcmp(ins.extra, s.operand(env, ins.a), s.operand(env, ins.b))
        if op == 'fneg':
            return s.dom.fneg(s.operand(env, ins.a))
        if op == 'select':
            c = s.operand(env, ins.a); a = s.operand(env, ins.b); b = s.operand(env, ins.c)
            if isinstance(c, int): return a if c else b
            ty = resolve(ins.ty)
            if ty.kind == 'fp': return s.dom.select(s.tobool(c), a, b)
            if ty.kind == 'int':
                c = s.tobool(c)
                if ty.bits == 1:
                    return z3.If(c, s.tobool(a), s.tobool(b))
                return z3.If(c, s.tobv(a, ty.bits), s.tobv(b, ty.bits))
            return a if s.ctx.branch(c) else b
        if op in ('zext', 'sext', 'trunc'):
            v = s.operand(env, ins.a); b1 = ins.ty.bits; b2 = ins.ty2.bits
            if isinstance(v, int):
                if op == 'sext':
                    if v >= 1 << (b1 - 1): v = v - (1 << b1) + (1 << b2)
                    return v
                if op == 'trunc': return v & ((1 << b2) - 1)
                return v
            if z3.is_bool(v):
                if op == 'sext': return z3.If(v, z3.BitVecVal((1 << b2) - 1, b2), z3.BitVecVal(0, b2))
                return z3.If(v, z3.BitVecVal(1, b2), z3.BitVecVal(0, b2))
            if op == 'zext': return z3.ZeroExt(b2 - b1, v)
            if op == 'sext': return z3.SignExt(b2 - b1, v)
            r = z3.Extract(b2 - 1, 0, v)
            if b2 == 1: return r == 1
            return r
        if op == 'bitcast':
            v = s.operand(env, ins.a)
            k1 = resolve(ins.ty).kind; k2 = resolve(ins.ty2).kind
            if k1 == k2: return v
            if k1 == 'fp' and k2 == 'int': return s.dom.to_bits(v)
            if k1 == 'int' and k2 == 'fp': return s.dom.from_bits(v)
            raise Unsupported("bitcast %r" % ins)
        if op in ('sitofp', 'uitofp'):
            return s.dom.sitofp(s.operand(env, ins.a), ins.ty.bits, op == 'sitofp')
        if op in ('fptosi', 'fptoui'):
            return s.dom.fptosi(s.operand(env, ins.a), ins.ty2.bits, op == 'fptosi')
        if op == 'fpext': return s.dom.fpext(s.operand(env, ins.a))
        if op == 'fptrunc': return s.dom.fptrunc(s.operand(env, ins.a))
        if op == 'ptrtoint':
            v = s.operand(env, ins.a)
            if v.obj == 0: return v.off
            return ('ptrint', v)
        if op == 'inttoptr':
            v = s.operand(env, ins.a)
            if isinstance(v, int): return Ptr(0, v)
            if isinstance(v, tuple) and v[0] == 'ptrint': return v[1]
            raise Unsupported("inttoptr of symbolic")
        if op == 'frem':
            return s.dom.libm('fmod', [s.operand(env, ins.a), s.operand(env, ins.b)])
        raise Unsupported("opcode " + op + ": " + ins.text)
    def tobool(s, c):
        if isinstance(c, int): return z3.BoolVal(bool(c))
        if z3.is_bool(c): return c
        return c != 0
    def tobv(s, v, bits):
        if isinstance(v, int): return z3.BitVecVal(v, bits)
        if z3.is_bool(v): return z3.If(v, z3.BitVecVal(1, bits), z3.BitVecVal(0, bits))
        return v
    def intop(s, op, a, b, bits):
        if isinstance(a, tuple) or isinstance(b, tuple):
            if op == 'sub' and isinstance(a, tuple) and isinstance(b, tuple) and a[1].obj == b[1].obj:
                return (a[1].off - b[1].off) & ((1 << bits) - 1)
            raise Unsupported("arithmetic on pointer-derived integer")
        if isinstance(a, int) and isinstance(b, int):
            mask = (1 << bits) - 1
            if op == 'add': return (a + b) & mask
            if op == 'sub': return (a - b) & mask
            if op == 'mul': return (a * b) & mask
            if op == 'and': return a & b
            if op == 'or': return a | b
            if op == 'xor': return a ^ b
            if op == 'shl': return (a << b) & mask if b < bits else 0
            if op == 'lshr': return a >> b if b < bits else 0
            def sg(x): return x - (1 << bits) if x >= 1 << (bits - 1) else x
            if op == 'ashr': return (sg(a) >> min(b, bits - 1)) & mask
            if op in ('sdiv', 'srem'):
                x, y = sg(a), sg(b)
                if y == 0: raise MemError("integer division by zero")
                q = abs(x) // abs(y)
                if (x < 0) != (y < 0): q = -q
                return (q if op == 'sdiv' else x - q * y) & mask
            if op in ('udiv', 'urem'):
                if b == 0: raise MemError("integer division by zero")
                return a // b if op == 'udiv' else a % b
        if bits == 1:
            a = s.tobool(a); b = s.tobool(b)
            if op == 'and': return z3.And(a, b)
            if op == 'or': return z3.Or(a, b)
            if op == 'xor': return z3.Xor(a, b)
            raise Unsupported("i1 op " + op)
        a = s.tobv(a, bits); b = s.tobv(b, bits)
        if op == 'add': return a + b
        if op == 'sub': return a - b
        if op == 'mul': return a * b
        if op == 'and': return a & b
        if op == 'or': return a | b
        if op == 'xor': return a ^ b
        if op == 'shl': return a << b
        if op == 'lshr': return z3.LShR(a, b)
        if op == 'ashr': return a >> b
        if op in ('sdiv', 'srem', 'udiv', 'urem'):
            if s.ctx.branch(b == 0): raise MemError("integer division by zero")
            if op == 'sdiv': return a / b
            if op == 'srem': return z3.SRem(a, b)
            if op == 'udiv': return z3.UDiv(a, b)
            return z3.URem(a, b)
        raise Unsupported(op)
    def icmp(s, pred, a, b, ty):
        if ty.kind == 'ptr' or isinstance(a, Ptr) or isinstance(b, Ptr):
            if isinstance(a, int): a = Ptr(0, a)
            if isinstance(b, int): b = Ptr(0, b)
            if pred == 'eq': return int(a == b)
            if pred == 'ne': return int(a != b)
            if a.obj == b.obj:
                x, y = a.off, b.off
                return int({'ult': x < y, 'ule': x <= y, 'ugt': x > y, 'uge': x >= y, 'slt': x < y, 'sle': x <= y, 'sgt': x > y, 'sge': x >= y}[pred])
            raise Unsupported("relational compare of pointers to different objects")
        bits = ty.bits
        if isinstance(a, int) and isinstance(b, int):
            if pred[0] == 's':
                if a >= 1 << (bits - 1): a -= 1 << bits
                if b >= 1 << (bits - 1): b -= 1 << bits
            return int({'eq': a == b, 'ne': a != b, 'slt': a < b, 'sle': a <= b, 'sgt': a > b, 'sge': a >= b, 'ult': a < b, 'ule': a <= b, 'ugt': a > b, 'uge': a >= b}[pred])
        if bits == 1:
            a = s.tobool(a); b = s.tobool(b)
            if pred == 'eq': return a == b
            if pred == 'ne': return z3.Xor(a, b)
            raise Unsupported("i1 relational")
        a = s.tobv(a, bits); b = s.tobv(b, bits)
        if pred == 'eq': return a == b
        if pred == 'ne': return a != b
        if pred == 'slt': return a < b
        if pred == 'sle': return a <= b
        if pred == 'sgt': return a > b
        if pred == 'sge': return a >= b
        if pred == 'ult': return z3.ULT(a, b)
        if pred == 'ule': return z3.ULE(a, b)
        if pred == 'ugt': return z3.UGT(a, b)
        if pred == 'uge': return z3.UGE(a, b)
        raise Unsupported(pred)
    # ---- harness conveniences
    def cstr(s, text, name='str'):
        b = text.encode() if isinstance(text, str) else bytes(text)
        p = s.mem.alloc(len(b) + 1, name, 'harness', zero=True)
        s.mem.objs[p.obj].base[:len(b)] = b
        return p
    def fresh_double(s, name): return s.dom.fresh(name)
    def fresh_int(s, name, bits): return z3.BitVec(name, bits)
