"""C03 — Kepler propagation is exact (the decidable kernels; DESIGN 5/C03).

The Stumpff-function kernels of the WHFast Kepler solver (static functions stumpff_cs3, stumpff_cs, reached by their internal
names in the linked IR) are executed over the reals with a symbolic argument z, on every path of the argument-reduction loop
up to n halvings (|z| <= 0.1 * 4^n).  On each path the returned c_k(z) is a polynomial in z with the code's own coefficients
(invfactorial[] entries as exact rationals) combined by the code's own argument-doubling formulas; z3 proves for all z of that
range that it agrees with the Taylor polynomial of the Stumpff function c_k(z) = sum_j (-z)^j/(k+2j)!  (degree 24, truncation
error < 1e-30 on the range) to within 1e-15 relative to the natural scale.  This pins every entry of invfactorial[], the
Horner recurrences and every doubling formula.  stiefel_Gs3 is then checked to be c_k(beta X^2) X^k.
The bisection fallback of the solver (hyperbolic branch) is covered by c03_bracket.py: mirror symmetry of the bracket under dt -> -dt,
sign, and the closed forms dt/q and dt/(r0 + v_q dt)."""
import sys, os, time, ctypes, math
sys.path.insert(0, os.path.dirname(os.path.dirname(os.path.abspath(__file__))))
sys.path.insert(0, os.path.dirname(os.path.abspath(__file__)))
import z3
from fractions import Fraction
from llsym import build
from llsym.harness import *
from llsym.check import *
from llsym.solve import model_value

PID = 'C03'

def taylor(k, z, deg=24):
    t = z3.RealVal(0); f = Fraction(1, math.factorial(k)); zp = z3.RealVal(1)
    for j in range(deg):
        t = t + z3.RealVal(Fraction((-1) ** j, math.factorial(k + 2 * j))) * zp
        zp = zp * z
    return t

def run_stumpff(u):
    rep = Report(); fn, K, nmax, sign = u['fn'], u['K'], u['nmax'], u['sign']
    label = "%s z%s0 halvings<=%d " % (fn, '>' if sign > 0 else '<', nmax)
    prover = Prover(t_inproc_ms=u.get('t_ms', 30000), use_external=u.get('ext', True), t_ext_s=60)
    def run(ctx):
        dom = Real(); I = new_interp(dom, ctx); I.loop_bound = nmax + 12
        z = dom.fresh('z')
        lim = z3.RealVal(Fraction(1, 10)) * (4 ** nmax)
        ctx.assume(z3.And(z >= 0, z <= lim) if sign > 0 else z3.And(z <= 0, z >= -lim))
        cs = I.mem.alloc(8 * K, 'cs', 'harness', zero=True)
        I.call('@' + fn, [cs, z])
        return I, dom, z, [dom.z(I.mem.load(Ptr(cs.obj, 8 * k), F64)) for k in range(K)]
    ex = Explorer(run, max_paths=64, timeout_ms=5000)
    try: ex.explore()
    except BoundExceeded as e: rep.bound_exceeded.append(label + str(e))
    rep.queries += ex.nqueries; rep.solver_time += ex.qtime
    for ctx, (I, dom, z, out) in ex.results:
        rep.paths += 1; rep.add_interp(I)
        ob = Obligations(rep, prover, label + "path%d " % rep.paths)
        pc = list(ctx.pc)
        def on_sat(model, k=None):
            zv = float(model_value(model, z))
            ok, detail = native_stumpff(fn, K, zv)
            return ok, 'C03:%s' % fn, detail, dict(fn=fn, K=K, z=zv)
        for k in range(K):
            ref = taylor(k, z)
            # natural scale of c_k on the range: |c_k| <= cosh(sqrt|z|)/k!  -> use 1e-15 * (1/k! + |ref|)
            tol = z3.RealVal(Fraction(1, 10 ** 15)) * (z3.RealVal(Fraction(1, math.factorial(k))) + z3.If(ref >= 0, ref, -ref))
            d = out[k] - ref
            ob.prove("%s: c_%d(z) equals the Stumpff series to 1e-15 for every z on this path" % (fn, k), z3.And(d <= tol, -d <= tol), pc, on_sat=on_sat, domain='REAL (univariate polynomial inequality)',
                     sample=dict(function=fn, k=k))
        def wit(model):
            zv = float(model_value(model, z))
            bad, detail = native_stumpff(fn, K, zv)
            if bad: raise RuntimeError(detail)
        ob.witness("path", pc, replay=wit)
    return rep

_nat = None
def native_stumpff(fn, K, zv):
    """the static kernels are not exported: replay through the engine in the concrete IEEE domain (validated bit-for-bit against
    the native library on whole integrator steps) and compare with the series evaluated in exact rationals"""
    dom = Conc(); I = new_interp(dom)
    cs = I.mem.alloc(8 * K, 'cs', 'harness', zero=True)
    I.call('@' + fn, [cs, zv])
    bad = []
    zf = Fraction(zv)
    for k in range(K):
        ref = sum(Fraction((-1) ** j, math.factorial(k + 2 * j)) * zf ** j for j in range(40))
        got = I.mem.load(Ptr(cs.obj, 8 * k), F64)
        if abs(Fraction(got) - ref) > Fraction(1, 10 ** 12) * (Fraction(1, math.factorial(k)) + abs(ref)): bad.append((k, got, float(ref)))
    return bool(bad), "%s(z=%r): %s" % (fn, zv, ("differs from the Stumpff series: %r" % bad) if bad else "agrees with the series")

def run_gs3(u):
    rep = Report(); rep.paths = 1
    dom = Real(); ctx = PathCtx(); I = new_interp(dom, ctx)
    beta, X = dom.fresh('beta'), dom.fresh('X')
    ctx.assume(z3.And(beta * X * X <= z3.RealVal('1/10'), beta * X * X >= -z3.RealVal('1/10')))
    g = I.mem.alloc(32, 'Gs', 'harness', zero=True)
    # the reduction loop compares |beta X^2| with 0.1: decided by the assumption
    class Ctx2(PathCtx): pass
    I.call('@stiefel_Gs3', [g, beta, X])
    rep.add_interp(I)
    ob = Obligations(rep, Prover(t_inproc_ms=30000, use_external=True, t_ext_s=60), 'stiefel_Gs3 ')
    z = beta * X * X
    for k in range(4):
        got = dom.z(I.mem.load(Ptr(g.obj, 8 * k), F64)); ref = taylor(k, z, 8) * (X ** k if k else 1)
        # compare as polynomials in (beta, X): same truncation as the code for c_k (degree 6 in z) -> exact identity up to the code's own coefficients
        c3 = I.mem  # unused
    # G_k = c_k(beta X^2) X^k with the *code's* c_k: run stumpff_cs3 on the same argument and compare exactly
    dom2 = dom; cs = I.mem.alloc(32, 'cs', 'harness', zero=True)
    I.call('@stumpff_cs3', [cs, beta * X * X])
    for k in range(4):
        got = dom.z(I.mem.load(Ptr(g.obj, 8 * k), F64)); ck = dom.z(I.mem.load(Ptr(cs.obj, 8 * k), F64))
        ob.prove("G_%d(beta, X) == c_%d(beta X^2) X^%d" % (k, k, k), got == ck * (X ** k if k else 1), list(ctx.pc), domain='REAL')
    return rep

def worker(u):
    if u['what'] == 'bracket':
        import c03_bracket
        return c03_bracket.run_bracket(u)
    if u['what'] == 'termination':
        import c03_bracket
        return c03_bracket.run_termination(u)
    if u['what'] == 'overflow':
        import c03_bracket
        return c03_bracket.run_overflow(u)
    return run_gs3(u) if u['what'] == 'gs3' else run_stumpff(u)

def replay(data):
    if data.get('kind') == 'overflow':
        import c03_bracket
        return c03_bracket.native_long_steps()
    if data.get('kind') == 'many_periods':
        import c03_bracket
        return c03_bracket.native_many_periods()
    if data.get('kind') == 'hang':
        import c03_bracket
        return c03_bracket.native_hang()
    if data.get('kind') == 'bracket':
        import c03_bracket
        return c03_bracket.replay(data)
    return native_stumpff(data['fn'], data['K'], data['z'])

def main():
    tier = os.environ.get('VERIF_TIER') or (sys.argv[1] if len(sys.argv) > 1 else 'quick')
    t0 = time.time()
    build.module(); build.layout(); build.build_native()
    nmax = 1 if tier == 'quick' else 3
    us = [dict(what='stumpff', fn='stumpff_cs3', K=4, nmax=nmax, sign=s, t_ms=20000 if tier == 'quick' else 120000) for s in (1, -1)]
    us += [dict(what='stumpff', fn='stumpff_cs', K=6, nmax=nmax, sign=s, t_ms=20000 if tier == 'quick' else 120000) for s in (1, -1)]
    us.append(dict(what='gs3'))
    us += [dict(what='termination', fn='stumpff_cs3'), dict(what='termination', fn='stumpff_cs')]
    for st, sg in ((('pericentre', 1), ('incoming', 1), ('pericentre', -1)) if tier == 'quick' else [(a_, b_) for a_ in ('pericentre', 'incoming', 'outgoing') for b_ in (1, -1)]):
        us.append(dict(what='overflow', state=st, sign=sg, t_ms=60000 if tier == 'quick' else 300000))
    us.append(dict(what='bracket', t_ms=20000 if tier == 'quick' else 120000))
    rep = run_units(us, worker)
    code = finish(PID, tier, rep, t0,
        bounds=dict(argument_range='|z| <= %g (up to %d argument halvings)' % (0.1 * 4 ** nmax, nmax), functions=['stumpff_cs3 (c0..c3)', 'stumpff_cs (c0..c5)', 'stiefel_Gs3', 'reb_whfast_kepler_solver (control flow into the bisection fallback, hyperbolic branch: bracket ends)'], tolerance='1e-15 relative to 1/k! + |c_k|'),
        assumptions=['real arithmetic (the polynomial the code evaluates, with its own double-precision coefficients taken exactly)', 'reference = Taylor polynomial of degree 24 of the Stumpff functions'],
        outside=['the headline claim: exactness of a whole Kepler step for every (e, a, dt); convergence of the Newton / quartic iterations in floating point (only: termination of the Stumpff reduction loops, the hyperbolic bisection bracket and the bisection decision under overflow are decided)',
                 'the Newton / quartic update formulas, the f-g update and the elliptic bisection bracket of reb_whfast_kepler_solver', 'the G functions inside the solver run are arbitrary reals (stub): the bracket obligations hold whatever they return', '|z| beyond the bound (more halvings)', 'WHFast512', 'rounding error magnitude'],
        domain_note='REAL: univariate polynomial inequalities decided by nlsat (z3) / cvc5')
    sys.exit(code)

if __name__ == '__main__':
    main()
