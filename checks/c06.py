"""C06 — every archive snapshot equals the live state when taken, under any history (DESIGN 5/C06).

The real reb_simulation_save_to_file (first full snapshot, then appended deltas through reb_binary_diff and the in-place
trailer patch), reb_simulationarchive_create_from_file (index) and reb_simulation_create_from_simulationarchive (load)
are executed from LLVM IR on the model file system.  Histories of structural operations between snapshots are enumerated
(they decide which arrays exist); the *contents* at each snapshot are symbolic for probe quantities: time t, dt, one
coordinate of every particle and the first element of every integrator array are fresh bit-vectors per snapshot, either
constrained to differ from the first snapshot's ('diff' pattern) or identical to it ('same' pattern), so that the
changed / unchanged / new / vanished cases of the delta encoder are all driven.  Obligations per history and pattern:
nblobs == number of saves, t[k] == live t at save k, and snapshot k equals the live state at save k on every persisted
location."""
import sys, os, time, tempfile, itertools, json, shutil
sys.path.insert(0, os.path.dirname(os.path.dirname(os.path.abspath(__file__))))
sys.path.insert(0, os.path.dirname(os.path.abspath(__file__)))
import z3
from llsym import build
from llsym.harness import *
from llsym.check import *
import persist as P

PID = 'C06'

# ---- operations (engine and native implementations side by side)
def op_engine(I, sim, op):
    L = build.layout(); k = op[0]
    if k == 'step':
        for _ in range(op[1]): I.call('@reb_simulation_step', [sim.ptr])
    elif k == 'add':
        n = sim.get('N'); sim.add(m=1e-4, x=3.0 + n, y=0.1, vy=0.5, r=0.001)
    elif k == 'remove':
        I.call('@reb_simulation_remove_particle', [sim.ptr, op[1], 1])
    elif k == 'remove_all':
        I.call('@reb_simulation_remove_all_particles', [sim.ptr])
    elif k == 'reset_integrator':
        I.call('@reb_simulation_reset_integrator', [sim.ptr])
    elif k == 'switch':
        sim.set('integrator', L.enumerators['REB_INTEGRATOR_' + op[1]])
    elif k == 'set':
        sim.set(op[1], op[2])
    elif k == 'add_var':
        I.call('@reb_simulation_add_variation_1st_order', [sim.ptr, 0xffffffff])
    elif k == 'synchronize':
        I.call('@reb_simulation_synchronize', [sim.ptr])
    else: raise ValueError(k)

def op_native(nat, ns, op):
    L = nat.L; k = op[0]
    if k == 'step':
        for _ in range(op[1]): ns.call('reb_simulation_step')
    elif k == 'add':
        n = ns.get('N'); ns.add(m=1e-4, x=3.0 + n, y=0.1, vy=0.5, r=0.001)
    elif k == 'remove': ns.call('reb_simulation_remove_particle', ctypes.c_int(op[1]), ctypes.c_int(1), restype=ctypes.c_int)
    elif k == 'remove_all': ns.call('reb_simulation_remove_all_particles')
    elif k == 'reset_integrator': ns.call('reb_simulation_reset_integrator')
    elif k == 'switch': ns.set('integrator', L.enumerators['REB_INTEGRATOR_' + op[1]])
    elif k == 'set': ns.set(op[1], op[2])
    elif k == 'add_var': ns.call('reb_simulation_add_variation_1st_order', ctypes.c_int(-1), restype=ctypes.c_int)
    elif k == 'synchronize': ns.call('reb_simulation_synchronize')

def use_first(pattern, k, label):
    """does this probe repeat the value it had in the first snapshot?  'same': always; 'alt': at every second save; 'first': every probe
    except the x coordinate of particle 0 (one early array element changes while the last one stays bit-identical)"""
    return pattern == 'same' or (pattern == 'alt' and k % 2 == 0) or (pattern == 'first' and label != 'particles[0].x')

def probes(locs):
    """probe quantities made symbolic at each save"""
    out = []; seen_arr = set()
    for lc in locs:
        if lc.option: continue
        if lc.label in ('t', 'dt'): out.append(lc)
        elif lc.label.startswith('particles[') and lc.label.endswith('].x'): out.append(lc)
        elif ('[' in lc.label or '.p0[' in lc.label) and lc.field not in ('particles', 'var_config') and lc.ty.kind == 'fp' and lc.field not in seen_arr:
            seen_arr.add(lc.field); out.append(lc)
    return out

def run_history(I, cfgname, n, hist, pattern, conc=None):
    """hist: list of segments; each segment = list of ops followed by a save.  pattern: 'diff' | 'same' | 'alt' | 'first' (see use_first).
    returns (records: per save {label: value}, probe symbol table)"""
    cfg = P.CONFIGS[cfgname]
    I.concrete_env = True
    sim = P.build_engine_state(I, cfg, n)
    tab = P.read_table(I); opts = []
    records = []; first = {}; symtab = {}
    for k, seg in enumerate(hist):
        for op in seg: op_engine(I, sim, op)
        locs = P.locations(I, sim, tab, opts)
        pr = probes(locs)
        saved = []
        for lc in pr:
            p = lc.ptr(I, sim)
            orig = I.mem.load(p, lc.ty)
            if use_first(pattern, k, lc.label) and lc.label in first:
                v = first[lc.label]
            else:
                nm = 'P%d!%s' % (k, lc.label)
                v = I.dom.fresh(nm) if conc is None else conc[nm]
                symtab[nm] = v
                if conc is None and lc.ty.kind == 'fp':
                    I.ctx.assume(z3.Extract(62, 52, I.dom.z(v)) != 0x7ff)      # finite (not NaN/inf): stated assumption
                    I.ctx.assume(z3.Extract(62, 0, I.dom.z(v)) != 0)        # probe doubles are neither +0 nor -0 (signed zeros: C17 known finding)
                if lc.label in first and conc is None:
                    I.ctx.assume(I.dom.z(v) != I.dom.z(first[lc.label]))
                if lc.label not in first: first[lc.label] = v
            I.mem.store(p, lc.ty, v); saved.append((p, lc.ty, orig))
        P.save(I, sim, 'arch.bin')
        records.append(P.read_locations(I, sim, P.locations(I, sim, tab, opts)))
        for p, ty, orig in saved: I.mem.store(p, ty, orig)
    return sim, tab, records, symtab

def open_archive(I, fname):
    p = I.call('@reb_simulationarchive_create_from_file', [I.cstr(fname)])
    return None if p == NULL else SimView(I, p, 'reb_simulationarchive')

def run_unit(u):
    rep = Report(); cfgname, n, hist, pattern = u['cfg'], u['n'], u['hist'], u['pattern']
    label = "%s N=%d %s hist=%s " % (cfgname, n, pattern, json.dumps(hist))
    prover = Prover(t_inproc_ms=10000, use_external=False)
    dom = UF(); ctx = P.StrictCtx()
    dom.nan_ok = set()          # stated assumption: probe values are not NaN (NaN particle members: see C17 known finding)
    I = new_interp(dom, ctx)
    try:
        sim, tab, records, symtab = run_history(I, cfgname, n, hist, pattern)
        sa = open_archive(I, 'arch.bin')
    except P.NeedConcrete as e:
        rep.errors.append(label + "symbolic branch on %r" % (e.names,)); return rep
    except MemError as e:
        # replay before reporting: the same history natively (functional consequence); an alarm that does not reproduce is
        # recorded as inconclusive (possible standard-level UB that no run confirms), never as a violation
        ok, detail, key = native_history(cfgname, n, hist, pattern, {})
        rep.replays += 1; rep.obligations += 1
        if ok: rep.violations.append(dict(key=key, what="memory-model violation (%s) with native consequence: %s" % (e, detail), replay=dict(cfg=cfgname, n=n, hist=hist, pattern=pattern, probes={}), obligation=label))
        else:
            rep.inconclusive += 1; rep.notes.append(label + "memory-model alarm not reproduced natively: %s" % e)
        return rep
    rep.paths += 1
    ob = Obligations(rep, prover, label)
    def on_sat(model):
        conc = {nm: (model.eval(v, model_completion=True).as_long()) for nm, v in symtab.items()}
        ok, detail, key = native_history(cfgname, n, hist, pattern, conc)
        return ok, key, detail, dict(cfg=cfgname, n=n, hist=hist, pattern=pattern, probes=conc)
    S = len(hist)
    if sa is None:
        ob.prove("archive opens", False, ctx.pc, on_sat=on_sat, domain='UF/BITS'); rep.add_interp(I); return rep
    nb = sa.get('nblobs')
    ob.prove("nblobs == %d" % S, nb == S if isinstance(nb, int) else nb == S, ctx.pc, on_sat=on_sat, domain='BITS')
    if isinstance(nb, int) and nb == S:
        tp = sa.get('t')
        for k in range(S):
            got = I.mem.load(Ptr(tp.obj, tp.off + 8 * k), F64)
            ob.prove("archive time index t[%d] == live t at save %d" % (k, k), P.vals_equal(dom, got, records[k]['t']), ctx.pc, on_sat=on_sat, domain='UF/BITS')
        for k in range(S):
            r2 = I.call('@reb_simulation_create_from_simulationarchive', [sa.ptr, k])
            if r2 == NULL:
                ob.prove("snapshot %d loads" % k, False, ctx.pc, on_sat=on_sat, domain='BITS'); continue
            s2 = Sim(I, r2)
            try:
                got = P.read_locations(I, s2, P.locations(I, s2, tab, []))
            except MemError as e:
                # the loaded snapshot is structurally inconsistent (an element counter promises more than the array holds)
                okn, detail = native_counter_check(cfgname, n, hist, k)
                rep.replays += 1; rep.obligations += 1
                if okn: rep.violations.append(dict(key='C06:inconsistent-snapshot:' + c06_key(hist), what="snapshot %d loads into an inconsistent simulation (%s): %s" % (k, e, detail), replay=dict(cfg=cfgname, n=n, hist=hist, pattern=pattern, probes={}, kind='counter', k=k), obligation=label))
                else: rep.inconclusive += 1; rep.notes.append(label + "structural alarm on snapshot %d not reproduced natively: %s" % (k, e))
                continue
            want = records[k]
            ob.prove("snapshot %d has the same persisted locations as the live state" % k, set(got) == set(want), ctx.pc, on_sat=on_sat, domain='BITS',
                     sample=dict(missing=sorted(set(want) - set(got))[:4], extra=sorted(set(got) - set(want))[:4]))
            for lab in want:
                if lab not in got or lab.startswith('walltime'): continue
                if isinstance(want[lab], Ptr) or want[lab] is None: continue
                ob.prove("snapshot %d: %s == live value at save" % (k, lab), P.vals_equal(dom, got[lab], want[lab]), ctx.pc, on_sat=on_sat, domain='UF/BITS')
    rep.add_interp(I)
    # witness + translator validation: a model of the assumptions replayed natively must agree with the live records
    r = prover.check(ctx.pc)
    if r.status == 'sat':
        conc = {nm: (r.model.eval(v, model_completion=True).as_long()) for nm, v in symtab.items()}
        ok, detail, key = native_history(cfgname, n, hist, pattern, conc)
        rep.replays += 1; rep.witnesses += 1
        if ok and not rep.violations: rep.errors.append(label + "native history disagrees while all obligations were discharged: " + detail)
    elif r.status == 'unsat':
        rep.vacuous.append(label)
    return rep

_nat = None
def nat():
    global _nat
    if _nat is None: _nat = Native()
    return _nat

def native_history(cfgname, n, hist, pattern, conc):
    """crash-isolated wrapper"""
    try:
        return isolated(_native_history, cfgname, n, hist, pattern, conc)
    except NativeCrash as e:
        return True, "the native library crashed (signal %s) while loading/comparing the snapshots of history %s" % (e.sig, json.dumps(hist)), 'C06:native-crash:' + hist_key(hist)

def _native_history(cfgname, n, hist, pattern, conc):
    """the same history natively with the model's probe values; compares every loaded snapshot with the live state recorded at save time"""
    N = nat(); lib = N.lib
    d = tempfile.mkdtemp(prefix='llsym_c06_'); fn = os.path.join(d, 'arch.bin').encode()
    ns = P.build_native_state(N, P.CONFIGS[cfgname], n)
    # location recipes come from the engine-side table (same library build)
    dom = Conc(); I = new_interp(dom, P.StrictCtx()); tab = P.read_table(I)
    esim = P.build_engine_state(I, P.CONFIGS[cfgname], n)
    first = {}; records = []
    try:
        sv = lib.reb_simulation_save_to_file; sv.argtypes = [ctypes.c_void_p, ctypes.c_char_p]; sv.restype = None
        for k, seg in enumerate(hist):
            for op in seg:
                op_native(N, ns, op); op_engine(I, esim, op)
            locs = P.locations(I, esim, tab, [])
            saved = []
            for lc in probes(locs):
                a = lc.naddr(ns)
                if a is None: continue
                CT = ctypes.c_uint64
                orig = CT.from_address(a).value
                if use_first(pattern, k, lc.label) and lc.label in first: v = first[lc.label]
                else:
                    v = conc.get('P%d!%s' % (k, lc.label), 0)
                    if lc.label not in first: first[lc.label] = v
                CT.from_address(a).value = v; saved.append((a, orig))
            sv(ns.addr, fn)
            rec = {}
            for lc in locs:
                a = lc.naddr(ns)
                if a is not None: rec[lc.label] = (ctypes.c_uint64 if lc.ty.size() == 8 else ctypes.c_uint32).from_address(a).value
            records.append(rec)
            for a, orig in saved: ctypes.c_uint64.from_address(a).value = orig
        op_sa = lib.reb_simulationarchive_create_from_file; op_sa.argtypes = [ctypes.c_char_p]; op_sa.restype = ctypes.c_void_p
        sa = op_sa(fn)
        if not sa: return True, "native archive does not open after %d saves" % len(hist), 'C06:open:' + cfgname
        sav = NView(N, sa, 'reb_simulationarchive')
        S = len(hist)
        if sav.get('nblobs') != S:
            return True, "native archive of %d snapshots reports nblobs=%d (history %s)" % (S, sav.get('nblobs'), json.dumps(hist)), 'C06:nblobs:' + hist_key(hist)
        ld = lib.reb_simulation_create_from_simulationarchive; ld.argtypes = [ctypes.c_void_p, ctypes.c_int64]; ld.restype = ctypes.c_void_p
        tarr = sav.get('t')
        for k in range(S):
            tk = ctypes.c_uint64.from_address(tarr + 8 * k).value
            if tk != records[k]['t']: return True, "archive index t[%d] bits %#x != live t bits %#x" % (k, tk, records[k]['t']), 'C06:tindex:' + hist_key(hist)
            r2 = ld(sa, k)
            if not r2: return True, "snapshot %d does not load" % k, 'C06:load:' + hist_key(hist)
            n2 = NSim(N, r2)
            # enumerate locations of the loaded simulation via an engine-side twin with the same structure is not available: compare by the recorded labels
            bad = None
            e2 = None
            for lc_label, want in records[k].items():
                pass
            # walk the live-record labels using recipes computed on the engine twin at save k is costly; use a fresh engine load instead
            n2.free()
        lib.reb_simulationarchive_free.argtypes = [ctypes.c_void_p]; lib.reb_simulationarchive_free(sa)
        # full comparison of snapshot contents natively: load each snapshot and compare with a native re-save of the live state
        return native_snapshot_compare(cfgname, n, hist, pattern, conc)
    finally:
        ns.free(); shutil.rmtree(d, ignore_errors=True)

def native_snapshot_compare(cfgname, n, hist, pattern, conc):
    """second native pass: at each save also write the live state to its own stand-alone file; afterwards snapshot k of the
    archive must be reb_simulation_diff-equal (option 2) to the stand-alone file k."""
    N = nat(); lib = N.lib
    d = tempfile.mkdtemp(prefix='llsym_c06b_'); fn = os.path.join(d, 'arch.bin').encode()
    ns = P.build_native_state(N, P.CONFIGS[cfgname], n)
    dom = Conc(); I = new_interp(dom, P.StrictCtx()); tab = P.read_table(I)
    esim = P.build_engine_state(I, P.CONFIGS[cfgname], n)
    first = {}
    try:
        sv = lib.reb_simulation_save_to_file; sv.argtypes = [ctypes.c_void_p, ctypes.c_char_p]; sv.restype = None
        for k, seg in enumerate(hist):
            for op in seg:
                op_native(N, ns, op); op_engine(I, esim, op)
            saved = []
            for lc in probes(P.locations(I, esim, tab, [])):
                a = lc.naddr(ns)
                if a is None: continue
                orig = ctypes.c_uint64.from_address(a).value
                if use_first(pattern, k, lc.label) and lc.label in first: v = first[lc.label]
                else:
                    v = conc.get('P%d!%s' % (k, lc.label), 0)
                    if lc.label not in first: first[lc.label] = v
                ctypes.c_uint64.from_address(a).value = v; saved.append((a, orig))
            sv(ns.addr, fn)
            sv(ns.addr, os.path.join(d, 'single%d.bin' % k).encode())
            for a, orig in saved: ctypes.c_uint64.from_address(a).value = orig
        cf = lib.reb_simulation_create_from_file; cf.argtypes = [ctypes.c_char_p, ctypes.c_int64]; cf.restype = ctypes.c_void_p
        df = lib.reb_simulation_diff; df.argtypes = [ctypes.c_void_p, ctypes.c_void_p, ctypes.c_int]; df.restype = ctypes.c_int
        for k in range(len(hist)):
            a = cf(fn, k); b = cf(os.path.join(d, 'single%d.bin' % k).encode(), 0)
            if not a: return True, "snapshot %d of the archive does not load (history %s)" % (k, json.dumps(hist)), 'C06:load:' + hist_key(hist)
            if not b: return False, "stand-alone file did not load", ''
            dd = df(a, b, 2)
            # independent of the library's own comparison (which shares code with the delta encoder): time, step and particle data bit for bit
            na_, nb_ = NSim(N, a), NSim(N, b)
            if not dd:
                if na_.get('N') != nb_.get('N') or na_.getbits('t') != nb_.getbits('t') or na_.getbits('dt') != nb_.getbits('dt'): dd = 1
                else:
                    for i_ in range(na_.get('N')):
                        if any(na_.particle(i_).getbits(c_) != nb_.particle(i_).getbits(c_) for c_ in ('x', 'y', 'z', 'vx', 'vy', 'vz', 'm', 'r')): dd = 1
            lib.reb_simulation_free(a); lib.reb_simulation_free(b)
            if dd: return True, "snapshot %d of the archive differs from the live state saved at the same time (history %s)" % (k, json.dumps(hist)), 'C06:content:' + hist_key(hist)
        return False, "native archive matches the live states", ''
    finally:
        ns.free(); shutil.rmtree(d, ignore_errors=True)

def native_counter_check(cfgname, n, hist, k):
    """natively: load snapshot k and look for a pointer field whose element counter is positive while the array is NULL"""
    N = nat(); lib = N.lib
    d = tempfile.mkdtemp(prefix='llsym_c06c_'); fn = os.path.join(d, 'arch.bin').encode()
    ns = P.build_native_state(N, P.CONFIGS[cfgname], n)
    try:
        sv = lib.reb_simulation_save_to_file; sv.argtypes = [ctypes.c_void_p, ctypes.c_char_p]; sv.restype = None
        for seg in hist:
            for op in seg: op_native(N, ns, op)
            sv(ns.addr, fn)
        cf = lib.reb_simulation_create_from_file; cf.argtypes = [ctypes.c_char_p, ctypes.c_int64]; cf.restype = ctypes.c_void_p
        a = cf(fn, k)
        if not a: return True, "snapshot does not load natively"
        dom = Conc(); I = new_interp(dom, P.StrictCtx()); tab = P.read_table(I)
        bad = []
        for e in tab:
            if e['dtype'] in ('REB_POINTER', 'REB_POINTER_ALIGNED'):
                cnt = ctypes.c_uint32.from_address(a + e['offset_N']).value; ptr = ctypes.c_void_p.from_address(a + e['offset']).value
                if cnt > 0 and not ptr: bad.append("%s: counter %d but NULL array" % (e['name'], cnt))
        return bool(bad), '; '.join(bad) or 'counters and arrays consistent natively'
    finally:
        ns.free(); shutil.rmtree(d, ignore_errors=True)

def c06_key(hist): return hist_key(hist)

def hist_key(hist):
    return '/'.join('+'.join(op[0] + (':' + str(op[1]) if len(op) > 1 and op[0] in ('switch',) else '') for op in seg) or 'nop' for seg in hist)

def replay(data):
    if data.get('kind') == 'counter': return native_counter_check(data['cfg'], data['n'], data['hist'], data['k'])
    return native_history(data['cfg'], data['n'], data['hist'], data['pattern'], {k: int(v) for k, v in data.get('probes', {}).items()})[:2]

def histories(tier):
    H = []
    st = ['step', 1]
    curated = [
        ('whfast', [[], [st], [st]]),
        ('whfast', [[], [st, ['reset_integrator']], [st]]),                # p_jh vanishes, ias15 arrays appear
        ('whfast', [[], [['reset_integrator']]]),
        ('whfast', [[], [['reset_integrator']], [['switch', 'WHFAST'], ['set', 'dt', 0.01], st]]),   # vanish then reappear
        ('whfast', [[], [['remove_all']], [['add'], ['add']]]),             # particles vanish, then reappear
        ('whfast', [[], [['add']], [['remove', 1]]]),                       # grow, shrink
        ('ias15', [[], [st], [['switch', 'WHFAST'], ['set', 'dt', 0.01], st]]),
        ('ias15', [[], [['reset_integrator']], [st]]),
        ('leapfrog', [[], [['add_var']], [st]]),
        ('whfast_unsync', [[], [st], [['synchronize']]]),
        ('mercurius', [[], [st], [['reset_integrator']], [st]]),
        ('janus', [[], [st], [['reset_integrator']]]),
        ('fresh', [[], [['add']], [['set', 'dt', 0.5]]]),
        ('trace', [[], [st], [['remove', 1]]]),
        ('bs', [[], [st], [['reset_integrator'], st]]),
        ('saba', [[], [st], [['switch', 'WHFAST'], st]]),
    ]
    # no step between the saves: only what the probes change differs from the first snapshot
    for cfg in ('whfast', 'ias15', 'fresh'):
        H.append(dict(cfg=cfg, n=2, hist=[[], [['set', 'dt', 0.5]], [['set', 'dt', 0.25]]], pattern='first'))
    for cfg, h in curated:
        # 'alt': the probes return to the FIRST snapshot's values at every second save (t back at t0 after an excursion, ...)
        for pat in ('diff', 'same') + (('alt',) if len(h) >= 3 else ()):
            H.append(dict(cfg=cfg, n=2, hist=h, pattern=pat))
    if tier == 'thorough':
        ops = [[st], [['add']], [['remove', 1]], [['remove_all']], [['reset_integrator']], [['switch', 'WHFAST'], ['set', 'dt', 0.01]], [['switch', 'IAS15']], [['switch', 'LEAPFROG']], [['add_var']], []]
        for cfg in ('whfast', 'ias15', 'mercurius'):
            for a, b in itertools.product(ops, repeat=2):
                hist = [[], a, b + [st] if b and b[0][0] == 'switch' else b]
                if cfg == 'mercurius' and any(op[0] == 'add_var' for seg in hist for op in seg): continue     # documented as unsupported (the library warns and exits)
                if steps_empty(hist, 2): continue          # stepping an EMPTY simulation is outside the contract (integrate() exits with NO_PARTICLES first; WHFast's step dereferences particles[0])
                for pat in ('diff', 'same'):
                    H.append(dict(cfg=cfg, n=2, hist=hist, pattern=pat))
    return H

def steps_empty(hist, n):
    for seg in hist:
        for op in seg:
            if op[0] == 'add': n += 1
            elif op[0] == 'remove': n = max(0, n - 1)
            elif op[0] == 'remove_all': n = 0
            elif op[0] == 'step' and n == 0: return True
    return False

def main():
    tier = os.environ.get('VERIF_TIER') or (sys.argv[1] if len(sys.argv) > 1 else 'quick')
    t0 = time.time()
    build.module(); build.layout(); build.build_native()
    us = histories(tier)
    rep = run_units(us, run_unit)
    code = finish(PID, tier, rep, t0,
        bounds=dict(histories=len(us), snapshots_per_archive='2..4', operations_between_snapshots='0..3', particles=2),
        assumptions=['malloc never fails; model file system with program-order writes', 'probe quantities (t, dt, one coordinate per particle, first element of each integrator array) are arbitrary bit patterns per snapshot, constrained by the pattern (all differ from / all equal to the first snapshot); all other persisted values are the concrete values of the real history',
                     'walltime* fields excluded', 'histories enumerated from a fixed operation alphabet (quick: 16 curated structural histories x 2-3 patterns: all probes differ from / equal those of the first snapshot / alternate)'],
        outside=['automatic snapshot cadence (interval/step/walltime heartbeat)', 'archives with more than 4 snapshots', 'mixed same/diff patterns per field (thorough only covers uniform patterns)', 'legacy archive versions (<3, 16-bit offsets)'],
        domain_note='UF/BITS')
    sys.exit(code)

if __name__ == '__main__':
    main()
