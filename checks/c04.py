"""C04 — momentum, angular momentum and energy (the decidable, exact-over-the-reals part; DESIGN 5/C04).

REAL domain, real code from LLVM IR, symbolic positions/velocities/masses/G:
  * every force routine's kick conserves total linear and angular momentum (sum m a = 0, sum m x cross a = 0) when all
    particles interact (all active, or test particles of type 1);
  * one full LEAPFROG step (real part1 / gravity / part2) conserves linear momentum, angular momentum and moves the centre of
    mass uniformly;
  * the diagnostics reb_simulation_energy / angular_momentum / com return the textbook sums for every N_active and
    testparticle_type;
  * the force-gradient ("jerk") velocity correction of the modified-kick EOS schemes conserves linear momentum for arbitrary
    accelerations, and angular momentum with the accelerations the real force routine computes;
  * TRACE and MERCURIUS keep the centre of mass in a side variable: one real step with HAVOC sub-steps and a nondeterministic
    accept/reject verdict moves the inertial centre of mass by exactly dt * V_com and returns the initial total momentum;
  * reb_collision_resolve_merge conserves mass, momentum and the centre of mass, and (track_energy_offset) books exactly
    the kinetic + pair potential energy removed."""
import sys, os, time, ctypes, itertools
sys.path.insert(0, os.path.dirname(os.path.dirname(os.path.abspath(__file__))))
sys.path.insert(0, os.path.dirname(os.path.abspath(__file__)))
import z3
from llsym import build
from llsym.harness import *
from llsym.check import *
from llsym.solve import model_value

PID = 'C04'
COMP = ['x', 'y', 'z', 'vx', 'vy', 'vz', 'm']

def mk(dom, ctx, N, extra=()):
    I = new_interp(dom, ctx); I.concrete_env = True
    sim = Sim(I)
    for i in range(N): sim.add(m=1.0)
    V = {}
    for i in range(N):
        for c in COMP:
            V[(i, c)] = dom.fresh('%s%d' % (c, i)); sim.particle(i).set(c, V[(i, c)])
    G = dom.fresh('G'); sim.set('G', G)
    return I, sim, V, G

def cross(a, b): return [a[1] * b[2] - a[2] * b[1], a[2] * b[0] - a[0] * b[2], a[0] * b[1] - a[1] * b[0]]

def native_vals(model, V, G):
    vals = {"%s%d" % (c, i): float(model_value(model, v)) for (i, c), v in V.items()}
    vals['G'] = (float(model_value(model, G) or 1.0) or 1.0) if G is not None else 1.0; return vals

def run_kick(u):
    rep = Report(); dom = Real(); ctx = PathCtx()
    N, grav, na, tpt = u['N'], u['gravity'], u['na'], u['tpt']
    label = "kick %s N=%d N_active=%d tpt=%d " % (grav, N, na, tpt)
    I, sim, V, G = mk(dom, ctx, N)
    L = build.layout()
    sim.set('gravity', L.enumerators['REB_GRAVITY_' + grav]); sim.set('N_active', na if na != N else 0xffffffff); sim.set('testparticle_type', tpt)
    I.call('@reb_calculate_acceleration', [sim.ptr])
    A = [[dom.z(sim.particle(i).get(a)) for a in ('ax', 'ay', 'az')] for i in range(N)]
    X = [[V[(i, c)] for c in ('x', 'y', 'z')] for i in range(N)]; M = [V[(i, 'm')] for i in range(N)]
    ob = Obligations(rep, Prover(t_inproc_ms=15000, use_external=False), label)
    assum = [m >= 0 for m in M] + [G > 0] + [b != 0 for b in dom.divs]
    def on_sat(model):
        ok, detail = native_kick(u, native_vals(model, V, G))
        return ok, 'C04:kick:%s' % grav, detail, dict(unit=u, vals=native_vals(model, V, G))
    for k in range(3):
        ob.prove("sum m a_%s == 0" % 'xyz'[k], sum((M[i] * A[i][k] for i in range(N)), z3.RealVal(0)) == 0, assum, axioms=dom.axioms, on_sat=on_sat, domain='REAL')
    tq = [sum((M[i] * cross(X[i], A[i])[k] for i in range(N)), z3.RealVal(0)) for k in range(3)]
    for k in range(3):
        ob.prove("sum m (x cross a)_%s == 0" % 'xyz'[k], tq[k] == 0, assum, axioms=dom.axioms, on_sat=on_sat, domain='REAL')
    rep.paths += 1; rep.add_interp(I)
    def wit(model):
        bad, detail = native_kick(u, native_vals(model, V, G))
        if bad: raise RuntimeError("native kick does not conserve momentum where all obligations were discharged: " + detail)
    ob.witness("inputs", assum + [m > 0 for m in M], axioms=dom.axioms, replay=wit)
    return rep

_nat = None
def nat():
    global _nat
    if _nat is None: _nat = Native()
    return _nat

def native_setup(u, vals):
    N_ = nat(); L = N_.L; ns = N_.create()
    for i in range(u['N']): ns.add(m=1.0)
    for i in range(u['N']):
        for c in COMP: ns.particle(i).set(c, vals['%s%d' % (c, i)])
    ns.set('G', vals['G'])
    if 'gravity' in u: ns.set('gravity', L.enumerators['REB_GRAVITY_' + u['gravity']])
    if 'na' in u: ns.set('N_active', u['na'] if u['na'] != u['N'] else -1)
    if 'tpt' in u: ns.set('testparticle_type', u['tpt'])
    return ns

def native_kick(u, vals):
    ns = native_setup(u, vals)
    try:
        ns.call('reb_calculate_acceleration')
        N = u['N']
        P_ = [sum(vals['m%d' % i] * ns.particle(i).get(a) for i in range(N)) for a in ('ax', 'ay', 'az')]
        scale = sum(abs(vals['m%d' % i] * ns.particle(i).get(a)) for i in range(N) for a in ('ax', 'ay', 'az')) + 1e-300
        bad = max(abs(p) for p in P_) > 1e-9 * scale
        return bad, "native kick: sum m a = %r (scale %.3g)" % (P_, scale)
    finally:
        ns.free()

def run_leapfrog(u):
    rep = Report(); dom = Real(); ctx = PathCtx(); N = u['N']
    label = "leapfrog step N=%d " % N
    I, sim, V, G = mk(dom, ctx, N)
    L = build.layout()
    sim.set('integrator', L.enumerators['REB_INTEGRATOR_LEAPFROG']); dt = dom.fresh('dt'); sim.set('dt', dt)
    I.call('@reb_simulation_step', [sim.ptr])
    M = [V[(i, 'm')] for i in range(N)]
    X0 = [[V[(i, c)] for c in ('x', 'y', 'z')] for i in range(N)]; U0 = [[V[(i, c)] for c in ('vx', 'vy', 'vz')] for i in range(N)]
    X1 = [[dom.z(sim.particle(i).get(c)) for c in ('x', 'y', 'z')] for i in range(N)]; U1 = [[dom.z(sim.particle(i).get(c)) for c in ('vx', 'vy', 'vz')] for i in range(N)]
    ob = Obligations(rep, Prover(t_inproc_ms=20000, use_external=u.get('ext', False), t_ext_s=60), label)
    assum = [m >= 0 for m in M] + [G > 0] + [b != 0 for b in dom.divs]
    def on_sat(model):
        vals = native_vals(model, V, G); vals['dt'] = float(model_value(model, dt) or 0.0) or 0.01
        ok, detail = native_unit(u, vals)
        return ok, 'C04:leapfrog', detail, dict(kind='unit', unit=u, vals=vals)
    for k in range(3):
        p0 = sum((M[i] * U0[i][k] for i in range(N)), z3.RealVal(0)); p1 = sum((M[i] * U1[i][k] for i in range(N)), z3.RealVal(0))
        ob.prove("linear momentum %s conserved by one step" % 'xyz'[k], p1 == p0, assum, axioms=dom.axioms, on_sat=on_sat, domain='REAL')
        c0 = sum((M[i] * X0[i][k] for i in range(N)), z3.RealVal(0)); c1 = sum((M[i] * X1[i][k] for i in range(N)), z3.RealVal(0))
        ob.prove("centre of mass %s moves uniformly: M X(t+dt) == M X(t) + P dt" % 'xyz'[k], c1 == c0 + p0 * dt, assum, axioms=dom.axioms, on_sat=on_sat, domain='REAL')
    l0 = [sum((M[i] * cross(X0[i], U0[i])[k] for i in range(N)), z3.RealVal(0)) for k in range(3)]
    l1 = [sum((M[i] * cross(X1[i], U1[i])[k] for i in range(N)), z3.RealVal(0)) for k in range(3)]
    for k in range(3):
        ob.prove("angular momentum %s conserved by one step" % 'xyz'[k], l1[k] == l0[k], assum, axioms=dom.axioms, on_sat=on_sat, domain='REAL')
    ob.prove("t advanced by dt", dom.z(sim.get('t')) == dt, assum, on_sat=on_sat, domain='REAL')
    rep.paths += 1; rep.add_interp(I)
    ob.witness("inputs", assum, axioms=dom.axioms)
    return rep

def run_diag(u):
    rep = Report(); dom = Real(); ctx = PathCtx(); N, na, tpt = u['N'], u['na'], u['tpt']
    label = "diagnostics N=%d N_active=%d tpt=%d " % (N, na, tpt)
    I, sim, V, G = mk(dom, ctx, N)
    sim.set('N_active', na if na != N else 0xffffffff); sim.set('testparticle_type', tpt)
    eoff = dom.fresh('energy_offset'); sim.set('energy_offset', eoff)
    L = build.layout()
    M = [V[(i, 'm')] for i in range(N)]
    X = [[V[(i, c)] for c in ('x', 'y', 'z')] for i in range(N)]; U = [[V[(i, c)] for c in ('vx', 'vy', 'vz')] for i in range(N)]
    E = dom.z(I.call('@reb_simulation_energy', [sim.ptr]))
    nint = na if tpt == 0 else N
    want = eoff
    for i in range(nint): want = want + z3.RealVal('1/2') * M[i] * sum(c * c for c in U[i])
    for i in range(na):
        for j in range(i + 1, nint):
            d = [X[i][k] - X[j][k] for k in range(3)]
            want = want - dom.fdiv(G * M[i] * M[j], dom.libm('sqrt', [d[0] * d[0] + d[1] * d[1] + d[2] * d[2]]))
    ob = Obligations(rep, Prover(t_inproc_ms=15000, use_external=False), label)
    assum = [b != 0 for b in dom.divs]
    def on_sat(model):
        vals = native_vals(model, V, G); vals['energy_offset'] = float(model_value(model, eoff) or 0.0)
        ok, detail = native_unit(u, vals)
        return ok, 'C04:diagnostics', detail, dict(kind='unit', unit=u, vals=vals)
    ob.prove("reb_simulation_energy == kinetic + pair potential (+ offset)", E == want, assum, axioms=dom.axioms, on_sat=on_sat, domain='REAL')
    o = I.mem.alloc(24, 'L', 'harness', zero=True); I.call('@reb_simulation_angular_momentum', [o, sim.ptr])
    for k in range(3):
        got = dom.z(I.mem.load(Ptr(o.obj, 8 * k), F64))
        ob.prove("angular_momentum.%s == sum m (x cross v)" % 'xyz'[k], got == sum((M[i] * cross(X[i], U[i])[k] for i in range(N)), z3.RealVal(0)), assum, on_sat=on_sat, domain='REAL')
    psz = L.structs['reb_particle']['size']
    c = I.mem.alloc(psz, 'com', 'harness', zero=True)
    def run_com(ctx2):
        return None
    # reb_simulation_com branches on (m > 0): explore its paths
    def run(ctx2):
        dom2 = Real(); I2, sim2, V2, G2 = mk(dom2, ctx2, N)
        for i in range(N): ctx2.assume(V2[(i, 'm')] >= 0)
        ctx2.assume(V2[(0, 'm')] > 0)
        o2 = I2.mem.alloc(psz, 'com', 'harness', zero=True); I2.call('@reb_simulation_com', [o2, sim2.ptr])
        return I2, dom2, SimView(I2, o2, 'reb_particle'), V2
    ex = Explorer(run, max_paths=64, timeout_ms=3000); ex.explore()
    for ctx2, (I2, dom2, cv, V2) in ex.results:
        rep.paths += 1; rep.add_interp(I2)
        ob2 = Obligations(rep, ob.prover, label + "com path%d " % rep.paths)
        M2 = [V2[(i, 'm')] for i in range(N)]; mt = sum(M2, z3.RealVal(0))
        a2 = list(ctx2.pc) + [b != 0 for b in dom2.divs]
        def on_sat2(model, V2=V2):
            vals = native_vals(model, V2, None)
            ok, detail = native_unit(u, vals)
            return ok, 'C04:diagnostics', detail, dict(kind='unit', unit=u, vals=vals)
        ob2.prove("com.m == total mass", dom2.z(cv.get('m')) == mt, a2, axioms=dom2.axioms, on_sat=on_sat2, domain='REAL')
        for cc in ('x', 'y', 'z', 'vx', 'vy', 'vz'):
            ob2.prove("com.%s * M == sum m %s" % (cc, cc), dom2.z(cv.get(cc)) * mt == sum((M2[i] * V2[(i, cc)] for i in range(N)), z3.RealVal(0)), a2, axioms=dom2.axioms, on_sat=on_sat2, domain='REAL')
        ob2.witness("path", a2, axioms=dom2.axioms)
    rep.paths += 1; rep.add_interp(I)
    return rep

def run_merge(u):
    rep = Report(); N = 3; tre = u['track']
    label = "merge track_energy_offset=%d pair=%s " % (tre, u['pair'])
    L = build.layout()
    def run(ctx):
        dom = Real(); I, sim, V, G = mk(dom, ctx, N)
        for i in range(N):
            r_ = dom.fresh('r%d' % i); V[(i, 'r')] = r_; sim.particle(i).set('r', r_); sim.particle(i).set('last_collision', dom.const(-1.0))
            ctx.assume(V[(i, 'm')] > 0); ctx.assume(r_ > 0)          # masses and radii are positive (documented)
        sim.set('track_energy_offset', tre); sim.set('t', dom.const(1.0))
        col = I.mem.alloc(L.structs['reb_collision']['size'], 'collision', 'harness', zero=True)
        cv = SimView(I, col, 'reb_collision'); cv.set('p1', u['pair'][0]); cv.set('p2', u['pair'][1])
        E0 = dom.z(I.call('@reb_simulation_energy', [sim.ptr])) if tre else None
        ret = I.call('@reb_collision_resolve_merge', [sim.ptr, col])
        return I, dom, sim, V, G, ret, E0
    ex = Explorer(run, max_paths=32, timeout_ms=3000); ex.explore()
    prover = Prover(t_inproc_ms=20000, use_external=u.get('ext', False), t_ext_s=60)
    for ctx, (I, dom, sim, V, G, ret, E0) in ex.results:
        rep.paths += 1; rep.add_interp(I)
        ob = Obligations(rep, prover, label + "path%d " % rep.paths)
        i, j = sorted(u['pair'])
        assum = list(ctx.pc) + [b != 0 for b in dom.divs]
        def on_sat(model, V=V, G=G):
            vals = native_vals(model, V, G)
            for i_ in range(N): vals['r%d' % i_] = float(model_value(model, V[(i_, 'r')]) or 0.1)
            ok, detail = native_unit(u, vals)
            return ok, 'C04:merge', detail, dict(kind='unit', unit=u, vals=vals)
        ob.prove("the particle with the larger index is flagged for removal", ret == (1 if u['pair'][1] < u['pair'][0] else 2), assum, on_sat=on_sat, domain='REAL')
        mi = dom.z(sim.particle(i).get('m'))
        ob.prove("merged mass == m_i + m_j", mi == V[(i, 'm')] + V[(j, 'm')], assum, axioms=dom.axioms, on_sat=on_sat, domain='REAL')
        for cc in ('x', 'y', 'z', 'vx', 'vy', 'vz'):
            ob.prove("merged %s: momentum / centre of mass conserved" % cc, dom.z(sim.particle(i).get(cc)) * (V[(i, 'm')] + V[(j, 'm')]) == V[(i, 'm')] * V[(i, cc)] + V[(j, 'm')] * V[(j, cc)], assum, axioms=dom.axioms, on_sat=on_sat, domain='REAL')
        rr = dom.z(sim.particle(i).get('r'))
        ob.prove("merged radius: volume additive (r^3 == r_i^3 + r_j^3)", rr * rr * rr == V[(i, 'r')] ** 3 + V[(j, 'r')] ** 3, assum, axioms=dom.axioms, on_sat=on_sat, domain='REAL')
        k = 3 - i - j
        for cc in COMP:
            ob.prove("the uninvolved particle is untouched (%s)" % cc, dom.z(sim.particle(k).get(cc)) == V[(k, cc)], assum, on_sat=on_sat, domain='REAL')
        ob.witness("path", assum, axioms=dom.axioms)
    return rep

def run_jerk(u):
    """the force-gradient ('jerk') velocity correction of the modified-kick EOS schemes: for ARBITRARY accelerations in the particle
    slots (free symbols) the pairwise updates cancel in total linear momentum; with the accelerations the real force routine
    computed, total angular momentum is unchanged as well"""
    rep = Report(); dom = Real(); ctx = PathCtx()
    N, na, tpt, true_acc = u['N'], u['na'], u['tpt'], u.get('true_acc', False)
    label = "jerk kick N=%d N_active=%d tpt=%d %s " % (N, na, tpt, 'gravitational accelerations' if true_acc else 'arbitrary accelerations')
    I, sim, V, G = mk(dom, ctx, N)
    L = build.layout()
    sim.set('gravity', L.enumerators['REB_GRAVITY_BASIC']); sim.set('N_active', na if na != N else 0xffffffff); sim.set('testparticle_type', tpt)
    AV = {}
    if true_acc: I.call('@reb_calculate_acceleration', [sim.ptr])
    else:
        for i in range(N):
            for a in ('ax', 'ay', 'az'):
                AV[(i, a)] = dom.fresh('%s%d' % (a, i)); sim.particle(i).set(a, AV[(i, a)])
    v = dom.fresh('v')
    I.call('@reb_calculate_and_apply_jerk', [sim.ptr, v])
    X = [[V[(i, c)] for c in ('x', 'y', 'z')] for i in range(N)]; M = [V[(i, 'm')] for i in range(N)]
    DV = [[dom.z(sim.particle(i).get(c)) - V[(i, c)] for c in ('vx', 'vy', 'vz')] for i in range(N)]
    ob = Obligations(rep, Prover(t_inproc_ms=20000, use_external=u.get('ext', False), t_ext_s=60), label)
    assum = [m >= 0 for m in M] + [G > 0] + [b != 0 for b in dom.divs]
    def vals_of(model):
        vals = native_vals(model, V, G); vals['v'] = float(model_value(model, v) or 0.0) or 0.01
        for (i, a), t in AV.items(): vals['%s%d' % (a, i)] = float(model_value(model, t) or 0.0)
        return vals
    def on_sat(model):
        vals = vals_of(model); ok, detail = native_jerk(u, vals)
        return ok, 'C04:jerk', detail, dict(kind='jerk', unit=u, vals=vals)
    for k in range(3):
        ob.prove("sum m dv_%s == 0" % 'xyz'[k], sum((M[i] * DV[i][k] for i in range(N)), z3.RealVal(0)) == 0, assum, axioms=dom.axioms, on_sat=on_sat, domain='REAL')
    if true_acc:
        tq = [sum((M[i] * cross(X[i], DV[i])[k] for i in range(N)), z3.RealVal(0)) for k in range(3)]
        for k in range(3):
            ob.prove("sum m (x cross dv)_%s == 0" % 'xyz'[k], tq[k] == 0, assum, axioms=dom.axioms, on_sat=on_sat, domain='REAL')
    rep.paths += 1; rep.add_interp(I)
    def wit(model):
        bad, detail = native_jerk(u, vals_of(model))
        if bad: raise RuntimeError("native jerk kick does not conserve momentum where all obligations were discharged: " + detail)
    ob.witness("inputs", assum + [m > 0 for m in M], axioms=dom.axioms, replay=wit)
    return rep

def native_jerk(u, vals):
    ns = native_setup(u, vals)
    try:
        N = u['N']
        if u.get('true_acc'): ns.call('reb_calculate_acceleration')
        else:
            for i in range(N):
                for a in ('ax', 'ay', 'az'): ns.particle(i).set(a, vals['%s%d' % (a, i)])
        v0 = [[ns.particle(i).get(c) for c in ('vx', 'vy', 'vz')] for i in range(N)]
        ns.call('reb_calculate_and_apply_jerk', ctypes.c_double(vals['v']))
        dv = [[ns.particle(i).get(c) - v0[i][k] for k, c in enumerate(('vx', 'vy', 'vz'))] for i in range(N)]
        P_ = [sum(vals['m%d' % i] * dv[i][k] for i in range(N)) for k in range(3)]
        scale = sum(abs(vals['m%d' % i] * dv[i][k]) for i in range(N) for k in range(3)) + 1e-300
        bad = max(abs(p) for p in P_) > 1e-9 * scale
        if u.get('true_acc'):
            X = [[vals['%s%d' % (c, i)] for c in 'xyz'] for i in range(N)]
            T_ = [sum(vals['m%d' % i] * cross(X[i], dv[i])[k] for i in range(N)) for k in range(3)]
            tscale = sum(abs(vals['m%d' % i] * c_) for i in range(N) for c_ in cross(X[i], dv[i])) + 1e-300
            bad = bad or max(abs(t) for t in T_) > 1e-8 * tscale
        return bad, "native jerk kick: sum m dv = %r (scale %.3g)" % (P_, scale)
    finally:
        ns.free()

def native_unit(u, vals):
    """native replay of a leapfrog / diagnostics / merge unit at the model's values"""
    import math
    N_ = nat(); L = N_.L; N = u.get('N', 3); what = u['what']
    ns = N_.create()
    try:
        for i in range(N): ns.add(m=1.0)
        for i in range(N):
            for c in COMP: ns.particle(i).set(c, vals.get('%s%d' % (c, i), 0.0))
        ns.set('G', vals.get('G', 1.0))
        P = lambda: [[ns.particle(i).get(c) for c in COMP] for i in range(N)]
        def mom(p): return [sum(q[6] * q[3 + k] for q in p) for k in range(3)]
        def com(p): return [sum(q[6] * q[k] for q in p) for k in range(3)]
        def ang(p): return [sum(q[6] * cross(q[0:3], q[3:6])[k] for q in p) for k in range(3)]
        sc = lambda *v: max([abs(x) for x in v] + [1e-300])
        if what == 'leapfrog':
            dt = vals.get('dt', 0.01); ns.set('integrator', L.enumerators['REB_INTEGRATOR_LEAPFROG']); ns.set('dt', dt)
            p0 = P(); ns.call('reb_simulation_step'); p1 = P()
            bad = []
            m0, m1 = mom(p0), mom(p1); c0, c1 = com(p0), com(p1); a0, a1 = ang(p0), ang(p1)
            S = sc(*(abs(q[6] * q[3 + k]) for q in p0 for k in range(3)))
            for k in range(3):
                if abs(m1[k] - m0[k]) > 1e-9 * S: bad.append(('momentum', k, m0[k], m1[k]))
                if abs(c1[k] - c0[k] - m0[k] * dt) > 1e-9 * sc(S * dt, *(abs(q[6] * q[k]) for q in p0)): bad.append(('centre of mass', k))
                if abs(a1[k] - a0[k]) > 1e-8 * sc(*(abs(q[6] * c_) for q in p0 for c_ in cross(q[0:3], q[3:6]))): bad.append(('angular momentum', k, a0[k], a1[k]))
            return bool(bad), "native LEAPFROG step at the model's values: %s" % (("not conserved: %r" % bad[:3]) if bad else "momentum, centre of mass and angular momentum conserved")
        if what == 'diag':
            na, tpt = u['na'], u['tpt']
            ns.set('N_active', na if na != N else -1); ns.set('testparticle_type', tpt); ns.set('energy_offset', vals.get('energy_offset', 0.0))
            p = P(); G = vals.get('G', 1.0)
            f = N_.lib.reb_simulation_energy; f.restype = ctypes.c_double; f.argtypes = [ctypes.c_void_p]
            E = f(ns.addr)
            nint = na if tpt == 0 else N
            want = vals.get('energy_offset', 0.0) + sum(0.5 * p[i][6] * sum(c * c for c in p[i][3:6]) for i in range(nint))
            terms = [abs(want)]
            for i in range(na):
                for j in range(i + 1, nint):
                    d = math.dist(p[i][0:3], p[j][0:3])
                    if d == 0: return False, "degenerate model (coincident particles)"
                    want -= G * p[i][6] * p[j][6] / d; terms.append(abs(G * p[i][6] * p[j][6] / d))
            bad = []
            if abs(E - want) > 1e-9 * sc(*terms): bad.append(('energy', E, want))
            class V3(ctypes.Structure): _fields_ = [('x', ctypes.c_double), ('y', ctypes.c_double), ('z', ctypes.c_double)]
            g = N_.lib.reb_simulation_angular_momentum; g.restype = V3; g.argtypes = [ctypes.c_void_p]
            Lv = g(ns.addr); a = ang(p)
            for k, got in enumerate((Lv.x, Lv.y, Lv.z)):
                if abs(got - a[k]) > 1e-9 * sc(*(abs(q[6] * c_) for q in p for c_ in cross(q[0:3], q[3:6]))): bad.append(('angular momentum', k, got, a[k]))
            psz = N_.psize
            class Pt(ctypes.Structure): _fields_ = [('b', ctypes.c_ubyte * psz)]
            h = N_.lib.reb_simulation_com; h.restype = Pt; h.argtypes = [ctypes.c_void_p]
            cp = h(ns.addr); cv = NView(N_, ctypes.addressof(cp), 'reb_particle')
            mt = sum(q[6] for q in p)
            if mt > 0:
                if abs(cv.get('m') - mt) > 1e-9 * mt: bad.append(('com.m', cv.get('m'), mt))
                for k, c in enumerate(('x', 'y', 'z', 'vx', 'vy', 'vz')):
                    w = sum(q[6] * q[k] for q in p) / mt
                    if abs(cv.get(c) - w) > 1e-9 * sc(w, *(abs(q[k]) for q in p)): bad.append(('com.' + c, cv.get(c), w))
            return bool(bad), "native diagnostics at the model's values: %s" % (("differ from the textbook sums: %r" % bad[:3]) if bad else "agree with the textbook sums")
        if what == 'merge':
            for i in range(N): ns.particle(i).set('r', vals.get('r%d' % i, 0.1)); ns.particle(i).set('last_collision', -1.0)
            ns.set('track_energy_offset', u['track']); ns.set('t', 1.0)
            p0 = P(); r0 = [ns.particle(i).get('r') for i in range(N)]
            csz = L.structs['reb_collision']['size']
            class Col(ctypes.Structure): _fields_ = [('b', ctypes.c_ubyte * csz)]
            col = Col(); cv = NView(N_, ctypes.addressof(col), 'reb_collision'); cv.set('p1', u['pair'][0]); cv.set('p2', u['pair'][1])
            f = N_.lib.reb_collision_resolve_merge; f.restype = ctypes.c_int; f.argtypes = [ctypes.c_void_p, Col]
            ret = f(ns.addr, col)
            p1 = P(); i, j = sorted(u['pair']); k = 3 - i - j
            bad = []
            if ret != (1 if u['pair'][1] < u['pair'][0] else 2): bad.append(('return', ret))
            mt = p0[i][6] + p0[j][6]
            if abs(p1[i][6] - mt) > 1e-12 * abs(mt): bad.append(('mass', p1[i][6], mt))
            for c in range(6):
                w = p0[i][6] * p0[i][c] + p0[j][6] * p0[j][c]
                if abs(p1[i][c] * mt - w) > 1e-9 * sc(abs(p0[i][6] * p0[i][c]), abs(p0[j][6] * p0[j][c])): bad.append((COMP[c], p1[i][c] * mt, w))
            rr = ns.particle(i).get('r')
            if abs(rr ** 3 - r0[i] ** 3 - r0[j] ** 3) > 1e-9 * (abs(r0[i]) ** 3 + abs(r0[j]) ** 3): bad.append(('radius', rr))
            if any(p1[k][c] != p0[k][c] for c in range(7)): bad.append(('bystander changed',))
            return bool(bad), "native merge at the model's values: %s" % (("violates conservation: %r" % bad[:3]) if bad else "conserves mass, momentum, centre of mass and volume")
        return False, "no native replay for unit kind %r" % what
    finally:
        ns.free()

def run_comframe(u):
    """hybrid integrators keep the centre of mass in a side variable (TRACE: ri_trace.com_pos/com_vel; MERCURIUS: DH slot 0) that
    only the com step advances.  One real step is executed with the Kepler / interaction / jump / encounter sub-steps replaced by
    HAVOC stubs (arbitrary new democratic-heliocentric coordinates for every non-central particle) and TRACE's post-step encounter
    check replaced by a nondeterministic verdict, so that both the accepted and the rejected-and-redone step are explored: for every
    behaviour of the sub-steps the inertial centre of mass must have moved by exactly dt * V_com."""
    rep = Report(); integ, N = u['integ'], u['N']
    label = "%s centre-of-mass bookkeeping N=%d%s%s " % (integ, N, (' current_C=1 (PARTIAL_BS)' if u.get('peri') else ''), (' %d unsynchronised steps + synchronize%s' % (u.get('steps', 1), ' ' + str(u.get('set', ''))) if integ in ('WHFAST', 'SABA') else ''))
    L = build.layout()
    def run(ctx):
        dom = Real(); I, sim, V, G = mk(dom, ctx, N)
        sim.set('integrator', L.enumerators['REB_INTEGRATOR_' + integ]); dt = dom.fresh('dt'); sim.set('dt', dt)
        for k_, v_ in (u.get('set') or {}).items(): sim.set(k_, L.enumerators[v_] if isinstance(v_, str) else v_)
        cnt = [0]
        def havoc(I_, r, *a):
            cnt[0] += 1
            for i in range(1, N):
                for c in ('x', 'y', 'z', 'vx', 'vy', 'vz'): sim.particle(i).set(c, dom.fresh('h%d_%s%d' % (cnt[0], c, i)))
            return None
        verdicts = []; verd_extra = {}
        if integ == 'TRACE':
            for f in ('interaction_step', 'jump_step', 'kepler_step'): I.stubs['@reb_integrator_trace_' + f] = havoc
            def pre(I_, r):
                if u.get('peri'): sim.set('ri_trace.current_C', 1)
                return None
            I.stubs['@reb_integrator_trace_pre_ts_check'] = pre
            if u.get('peri'): sim.set('ri_trace.peri_mode', L.enumerators['REB_TRACE_PERI_PARTIAL_BS'])
            def post(I_, r):
                v = dom.fresh('new_encounter_found'); verdicts.append(v); return v
            I.stubs['@reb_integrator_trace_post_ts_check'] = post
        elif integ in ('WHFAST', 'SABA'):
            # Jacobi coordinates live in ri_whfast.p_jh; slot 0 is the centre of mass and only the real com step may touch it
            sim.set('ri_%s.safe_mode' % integ.lower(), 0)
            psz_ = L.structs['reb_particle']['size']
            def havoc_j(I_, r, *a):
                cnt[0] += 1
                pj = sim.get('ri_whfast.p_jh')
                if 'slot0' not in verd_extra:
                    p0_ = SimView(I_, Ptr(pj.obj, pj.off), 'reb_particle'); verd_extra['slot0'] = {c: p0_.get(c) for c in ('x', 'y', 'z', 'vx', 'vy', 'vz')}
                for i in range(1, N):
                    pv_ = SimView(I_, Ptr(pj.obj, pj.off + i * psz_), 'reb_particle')
                    for c in ('x', 'y', 'z', 'vx', 'vy', 'vz'): pv_.set(c, dom.fresh('hj%d_%s%d' % (cnt[0], c, i)))
                return None
            for f in ('kepler_step', 'interaction_step', 'jump_step'): I.stubs['@reb_whfast_' + f] = havoc_j
        else:
            for f in ('interaction_step', 'jump_step', 'kepler_step'): I.stubs['@reb_integrator_mercurius_' + f] = havoc
            I.stubs['@reb_mercurius_encounter_predict'] = lambda I_, r: None
            I.stubs['@reb_mercurius_encounter_step'] = havoc
            I.stubs['@reb_integrator_mercurius_calculate_dcrit_for_particle'] = lambda I_, r, i: dom.fresh('dcrit')
        I.stubs['@reb_simulation_update_acceleration'] = lambda I_, r: None; I.stubs['@reb_calculate_acceleration'] = lambda I_, r: None
        nst = u.get('steps', 1)
        for _ in range(nst): I.call('@reb_simulation_step', [sim.ptr])
        I.call('@reb_simulation_synchronize', [sim.ptr])
        if integ in ('WHFAST', 'SABA'):
            pj = sim.get('ri_whfast.p_jh'); p0_ = SimView(I, Ptr(pj.obj, pj.off), 'reb_particle')
            verd_extra['slot0_final'] = {c: p0_.get(c) for c in ('x', 'y', 'z', 'vx', 'vy', 'vz')}
        return I, dom, sim, V, G, dt * nst, (verdicts, verd_extra)
    ex = Explorer(run, max_paths=8, timeout_ms=5000); ex.explore()
    rep.queries += ex.nqueries; rep.solver_time += ex.qtime
    for ctx, (I, dom, sim, V, G, dt, (verdicts, verd_extra)) in ex.results:
        rep.paths += 1; rep.add_interp(I)
        M = [V[(i, 'm')] for i in range(N)]
        rejected = bool(verdicts) and any(d for d in ctx.decisions)
        ob = Obligations(rep, Prover(t_inproc_ms=20000, use_external=True, t_ext_s=60), label + "path%d " % rep.paths)
        assum = list(ctx.pc) + [m > 0 for m in M] + [b != 0 for b in dom.divs]
        def on_sat(model):
            ok, detail = native_comframe(integ, u)
            return ok, 'C04:comframe:%s' % integ, detail, dict(kind='comframe', integ=integ, unit=u)
        if integ in ('WHFAST', 'SABA'):
            # Jacobi slot 0 IS the centre of mass (C12 proves slot0 == sum m x / M and that the inverse map restores the particles): the
            # bookkeeping claim is made on that slot, whatever the Kepler / interaction / jump steps did to the other slots
            a0, a1 = verd_extra.get('slot0'), verd_extra.get('slot0_final')
            if a0 is None or a1 is None: rep.errors.append(label + 'slot 0 not observed'); continue
            for c in 'xyz':
                w_ = dt * dom.z(a0['v' + c]); d_ = z3.simplify(dom.z(a1[c]) - dom.z(a0[c]) - w_, som=True); aw_ = z3.If(w_ >= 0, w_, -w_); T_ = z3.RealVal('1e-14')
                ob.prove("Jacobi slot 0 (centre of mass) %s advanced by the elapsed time times its velocity (to 1e-14: the tabulated drift coefficients sum to 1 only to rounding)" % c, z3.And(d_ <= T_ * aw_, -d_ <= T_ * aw_), list(ctx.pc), on_sat=on_sat, domain='REAL')
                ob.prove("Jacobi slot 0 velocity %s untouched" % c, dom.z(a1['v' + c]) == dom.z(a0['v' + c]), list(ctx.pc), on_sat=on_sat, domain='REAL')
            ob.witness("path", assum, axioms=dom.axioms)
            continue
        for k, c in enumerate('xyz'):
            c0 = sum((M[i] * V[(i, c)] for i in range(N)), z3.RealVal(0)); p0 = sum((M[i] * V[(i, 'v' + c)] for i in range(N)), z3.RealVal(0))
            c1 = sum((M[i] * dom.z(sim.particle(i).get(c)) for i in range(N)), z3.RealVal(0)); p1 = sum((M[i] * dom.z(sim.particle(i).get('v' + c)) for i in range(N)), z3.RealVal(0))
            ob.prove("centre of mass %s moves uniformly whatever the sub-steps do: M X(t+dt) == M X(t) + P dt" % c, c1 == c0 + p0 * dt, assum, axioms=dom.axioms, on_sat=on_sat, domain='REAL')
            ob.prove("total momentum %s is what the step started with, whatever the sub-steps do" % c, p1 == p0, assum, axioms=dom.axioms, on_sat=on_sat, domain='REAL')
        ob.witness("path", assum, axioms=dom.axioms)
    bad, detail = native_comframe(integ, u); rep.replays += 1
    if bad: rep.violations.append(dict(key='C04:comframe:%s' % integ, what=detail, replay=dict(kind='comframe', integ=integ, unit=u), obligation=label + 'native twin'))
    return rep

_nat2 = None
def native_comframe(integ, u=None):
    """native: a drifting three-body system with repeated planet-planet encounters (TRACE rejects and redoes steps); the centre of
    mass must stay on its straight line to rounding error"""
    global _nat2
    if _nat2 is None: _nat2 = Native()
    N_ = _nat2; L = N_.L; ns = N_.create(); vcom = 0.5
    try:
        ns.add(m=1.0, vx=vcom); ns.add(m=1e-3, x=1.0, vy=1.0, vx=vcom); ns.add(m=1e-3, x=1.05, vy=-0.97, vx=vcom)
        ns.set('integrator', L.enumerators['REB_INTEGRATOR_' + integ]); ns.set('dt', 0.02)
        deferred = integ in ('WHFAST', 'SABA')
        if deferred:
            ns.set('ri_%s.safe_mode' % integ.lower(), 0)
            for k_, v_ in ((u or {}).get('set') or {}).items(): ns.set(k_, L.enumerators[v_] if isinstance(v_, str) else v_)
        M = sum(ns.particle(i).get('m') for i in range(3))
        com0 = sum(ns.particle(i).get('m') * ns.particle(i).get('x') for i in range(3)) / M
        worst = 0.0
        for k in range(400):
            ns.call('reb_simulation_step')
            if deferred and k % 7 != 6: continue              # deferred synchronisation: several steps between synchronisations
            ns.call('reb_simulation_synchronize')
            com = sum(ns.particle(i).get('m') * ns.particle(i).get('x') for i in range(3)) / M
            worst = max(worst, abs(com - (com0 + vcom * ns.get('t'))))
        return worst > 1e-9, "native %s, 400 steps of a drifting (v_com=0.5) star + two counter-rotating planets with close encounters: centre of mass leaves its straight line by %.3g" % (integ, worst)
    finally:
        ns.free()

def worker(u):
    return {'kick': run_kick, 'leapfrog': run_leapfrog, 'diag': run_diag, 'merge': run_merge, 'comframe': run_comframe, 'jerk': run_jerk}[u['what']](u)

def replay(data):
    if data.get('kind') == 'unit': return native_unit(data['unit'], data['vals'])
    if data.get('kind') == 'comframe': return native_comframe(data['integ'], data.get('unit'))
    if data.get('kind') == 'jerk': return native_jerk(data['unit'], data['vals'])
    return native_kick(data['unit'], data['vals'])

def main():
    tier = os.environ.get('VERIF_TIER') or (sys.argv[1] if len(sys.argv) > 1 else 'quick')
    t0 = time.time()
    build.module(); build.layout(); build.build_native()
    us = []
    for N in ((2, 3) if tier == 'quick' else (2, 3, 4, 5)):
        for grav in ('BASIC', 'COMPENSATED'):
            us.append(dict(what='kick', gravity=grav, N=N, na=N, tpt=0))
            if N >= 3: us.append(dict(what='kick', gravity=grav, N=N, na=N - 1, tpt=1))
        for na in range(0, N + 1):
            for tpt in (0, 1): us.append(dict(what='diag', N=N, na=na, tpt=tpt))
    for N in ((2,) if tier == 'quick' else (2, 3)): us.append(dict(what='leapfrog', N=N, ext=True))
    for N in ((2, 3) if tier == 'quick' else (2, 3, 4)):
        us.append(dict(what='jerk', N=N, na=N, tpt=0))
        if N >= 3: us.append(dict(what='jerk', N=N, na=N - 1, tpt=1))
    us.append(dict(what='jerk', N=2, na=2, tpt=0, true_acc=True, ext=True))
    if tier == 'thorough': us.append(dict(what='jerk', N=3, na=3, tpt=0, true_acc=True, ext=True))
    for N in ((3,) if tier == 'quick' else (2, 3, 4)):
        us.append(dict(what='comframe', integ='TRACE', N=N)); us.append(dict(what='comframe', integ='TRACE', N=N, peri=True)); us.append(dict(what='comframe', integ='MERCURIUS', N=N))
        us.append(dict(what='comframe', integ='WHFAST', N=N, steps=2)); us.append(dict(what='comframe', integ='WHFAST', N=N, steps=2, set={'ri_whfast.corrector': 3}))
        for ty in ('REB_SABA_1', 'REB_SABA_2', 'REB_SABA_10_6_4', 'REB_SABA_CM_1'): us.append(dict(what='comframe', integ='SABA', N=N, steps=2, set={'ri_saba.type': ty}))
    for tr in (0,):
        for pair in ((0, 1), (1, 0), (1, 2), (2, 0)): us.append(dict(what='merge', track=tr, pair=pair, ext=(tier == 'thorough')))
    rep = run_units(us, worker)
    code = finish(PID, tier, rep, t0,
        bounds=dict(N_max=max(u.get('N', 3) for u in us), units=len(us)),
        assumptions=['real arithmetic; masses >= 0, G > 0; no coincident particles (denominators non-zero)', 'sqrt/inv/cbrt as atoms with instantiated axioms'],
        outside=['energy error bounded / non-drifting over many steps, machine-precision energy of IAS15 — long-run floating-point statements', 'Wisdom-Holman drift / jump / synchronisation steps with the real Kepler solver (the TRACE / MERCURIUS units replace the sub-steps by havoc stubs; WHFast/SABA centre-of-mass bookkeeping is C09/C12)', 'track_energy_offset bookkeeping of the merge', 'rounding error magnitude'],
        domain_note='REAL')
    sys.exit(code)

if __name__ == '__main__':
    main()
