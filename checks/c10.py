"""C10 — JANUS is bit-wise time reversible; symmetric schemes reverse over the reals (DESIGN 5/C10).

JANUS: UF domain + 64-bit integer vectors.  From an arbitrary integer grid state (symbolic int64 p_int, symbolic scales,
dt and masses) n real steps with dt and n real steps with -dt are executed from the IR; every p_int component and every
double written back must be the initial term.  The engine normalises signs through fmul/fdiv/fptosi; each rewrite
(op(-a,b) = -op(a,b), fptosi(-x) = -fptosi(x), commutativity of fmul) is discharged on full binary64 by the FP solver in the
same run.  Forces are whatever the real reb_calculate_acceleration computes from the doubles produced by to_double.
Other symmetric schemes (LEAPFROG, WHFast, SABA, SEI): one step dt then one step -dt over the reals, Kepler solver as an
invertible uninterpreted flow."""
import sys, os, time, ctypes, random, struct
sys.path.insert(0, os.path.dirname(os.path.dirname(os.path.abspath(__file__))))
sys.path.insert(0, os.path.dirname(os.path.abspath(__file__)))
import z3
from llsym import build
from llsym.harness import *
from llsym.check import *
import persist as P

PID = 'C10'
COMP = ['x', 'y', 'z', 'vx', 'vy', 'vz']

def run_janus(u):
    rep = Report(); order, N, nsteps = u['order'], u['N'], u['steps']
    label = "JANUS order=%d N=%d steps=%d%s " % (order, N, nsteps, ' after a user-requested recalculation' if u.get('recalc') else '')
    dom = UF(sign_normalise=True); dom.nan_ok = set()
    ctx = P.StrictCtx(); I = new_interp(dom, ctx); I.concrete_env = True
    L = build.layout()
    sim = Sim(I)
    for i in range(N): sim.add(m=1.0, x=float(i))
    sim.set('integrator', L.enumerators['REB_INTEGRATOR_JANUS']); sim.set('ri_janus.order', order)
    # arbitrary grid state: allocate p_int, mark coordinates as already converted
    isz = L.structs['reb_particle_int']['size']
    pint = I.mem.alloc(isz * N, 'p_int', 'heap')
    ints = {}
    for i in range(N):
        for k, c in enumerate(COMP):
            v = z3.BitVec('pint%d_%s' % (i, c), 64); ints[(i, c)] = v
            I.mem.store(Ptr(pint.obj, i * isz + 8 * k), I64, v)
    sim.set('ri_janus.p_int', pint); sim.set('ri_janus.N_allocated', N); sim.set('ri_janus.recalculate_integer_coordinates_this_timestep', 0)
    if u.get('recalc'):
        # the user edited the particles and requested a re-derivation of the grid state: the first step converts the (symbolic)
        # doubles to integers once; from then on the run must be reversible down to that grid state
        sim.set('ri_janus.recalculate_integer_coordinates_this_timestep', 1)
        for i in range(N):
            for c in COMP: sim.particle(i).set(c, dom.fresh('x%d_%s' % (i, c)))
    sp, sv, dt, G = dom.fresh('scale_pos'), dom.fresh('scale_vel'), dom.fresh('dt'), dom.fresh('G')
    sim.set('ri_janus.scale_pos', sp); sim.set('ri_janus.scale_vel', sv); sim.set('G', G)
    M = []
    for i in range(N):
        m = dom.fresh('m%d' % i); M.append(m); sim.particle(i).set('m', m)
    try:
        sim.set('dt', dt)
        if u.get('recalc'):
            I.call('@reb_simulation_step', [sim.ptr])          # consumes the request; the grid state after this step is the reference
            for i in range(N):
                for k, c in enumerate(COMP): ints[(i, c)] = z3.simplify(I.mem.load(Ptr(pint.obj, i * isz + 8 * k), I64))
        for _ in range(nsteps): I.call('@reb_simulation_step', [sim.ptr])
        mid = {(i, c): I.mem.load(Ptr(pint.obj, i * isz + 8 * k), I64) for i in range(N) for k, c in enumerate(COMP)}
        sim.set('dt', dom.fneg(dt))
        for _ in range(nsteps): I.call('@reb_simulation_step', [sim.ptr])
    except P.NeedConcrete as e:
        rep.errors.append(label + "symbolic branch on %r" % (e.names,)); return rep
    rep.paths += 1; rep.add_interp(I)
    prover = Prover(t_inproc_ms=20000, use_external=False)
    ob = Obligations(rep, prover, label)
    def on_sat(model):
        ok, detail = native_janus(order, N, nsteps, recalc=bool(u.get('recalc')))
        return ok, 'C10:janus:order%d' % order, detail, dict(order=order, N=N, steps=nsteps, recalc=bool(u.get('recalc')))
    moved = 0
    for i in range(N):
        for k, c in enumerate(COMP):
            now = I.mem.load(Ptr(pint.obj, i * isz + 8 * k), I64)
            ob.prove("p_int[%d].%s returns to its initial bits after %d steps forward and back" % (i, c, nsteps), z3.simplify(now) == ints[(i, c)], ctx.pc, on_sat=on_sat, domain='UF + BV64 (sign-normalised)')
            if not z3.simplify(mid[(i, c)]).eq(ints[(i, c)]): moved += 1
            want = dom.fmul(dom.sitofp(ints[(i, c)], 64), sp if k < 3 else sv)
            got = sim.particle(i).get(c)
            ob.prove("particles[%d].%s is to_double(initial grid state)" % (i, c), P.vals_equal(dom, got, want), ctx.pc, on_sat=on_sat, domain='UF')
    # non-vacuity: the forward leg really moved the state (terms differ from the initial ones)
    if moved == 0: rep.vacuous.append(label + "forward leg did not change the grid state")
    else: rep.witnesses += 1
    # native witness / replay: random grid states forward and back, bit-for-bit
    ok, detail = native_janus(order, N, nsteps, recalc=bool(u.get('recalc'))); rep.replays += 1
    if ok: rep.violations.append(dict(key='C10:janus:order%d' % order, what=detail, replay=dict(order=order, N=N, steps=nsteps, recalc=bool(u.get('recalc'))), obligation=label + 'native twin'))
    return rep

_nat = None
def native_janus(order, N, nsteps, seed=None, recalc=False):
    global _nat
    if _nat is None: _nat = Native()
    L = _nat.L; rnd = random.Random(int(os.environ.get('VERIF_SEED', '0') or 0) + order * 7 + N)
    ns = _nat.create()
    try:
        ns.add(m=1.0)
        for i in range(1, N):
            a = 1.0 + 0.6 * i
            ns.add(m=1e-3 * (1 + rnd.random()), x=a, y=0.1 * rnd.random(), z=0.05 * rnd.random(), vy=a ** -0.5, vx=0.01 * rnd.random(), vz=0.02 * rnd.random())
        ns.set('integrator', L.enumerators['REB_INTEGRATOR_JANUS']); ns.set('ri_janus.order', order); ns.set('dt', 0.013)
        ns.set('ri_janus.scale_pos', 1e-16); ns.set('ri_janus.scale_vel', 3e-16)          # unequal grid scales (supported; equal scales hide pos/vel mix-ups)
        ns.call('reb_simulation_step')            # establishes the grid state
        if recalc:
            # the user edits a particle and requests a re-derivation of the grid state; the step consuming the request is the reference
            ns.particle(1).set('x', ns.particle(1).get('x') * (1 + 1e-9)); ns.set('ri_janus.recalculate_integer_coordinates_this_timestep', 1)
            ns.call('reb_simulation_step')
        before = [[ns.particle(i).getbits(c) for c in COMP] for i in range(N)]
        for _ in range(nsteps): ns.call('reb_simulation_step')
        ns.set('dt', -0.013)
        for _ in range(nsteps): ns.call('reb_simulation_step')
        after = [[ns.particle(i).getbits(c) for c in COMP] for i in range(N)]
        bad = [(i, COMP[k]) for i in range(N) for k in range(6) if before[i][k] != after[i][k]]
        return bool(bad), "native JANUS order %d, N=%d%s: %d steps forward and back %s" % (order, N, " after a user-requested recalculation" if recalc else "", nsteps, ("differ in " + repr(bad[:4])) if bad else "return to identical bits")
    finally:
        ns.free()

def replay(data):
    return native_janus(data['order'], data['N'], data['steps'], recalc=data.get('recalc', False))

def run_lemmas(u):
    """the sign rewrites used by the UF domain, proved on full binary64"""
    rep = Report(); rep.paths = 1; rep.instr = 1
    prover = Prover(t_inproc_ms=u.get('t_ms', 60000), t_ext_s=120, use_external=True)
    ob = Obligations(rep, prover, 'lemma ')
    F = z3.FPSort(11, 53); a, b = z3.FP('a', F), z3.FP('b', F); rm = z3.RNE()
    def same(x, y): return z3.Or(z3.fpToIEEEBV(x) == z3.fpToIEEEBV(y), z3.And(z3.fpIsNaN(x), z3.fpIsNaN(y)))
    ob.prove("fmul(-a,b) == -fmul(a,b) bitwise (NaN payloads aside)", same(z3.fpMul(rm, z3.fpNeg(a), b), z3.fpNeg(z3.fpMul(rm, a, b))), [], domain='FP(11,53)')
    ob.prove("fmul(a,b) == fmul(b,a)", same(z3.fpMul(rm, a, b), z3.fpMul(rm, b, a)), [], domain='FP(11,53)')
    ob.prove("fdiv(-a,b) == -fdiv(a,b)", same(z3.fpDiv(rm, z3.fpNeg(a), b), z3.fpNeg(z3.fpDiv(rm, a, b))), [], domain='FP(11,53)')
    ob.prove("fdiv(a,-b) == -fdiv(a,b)", same(z3.fpDiv(rm, a, z3.fpNeg(b)), z3.fpNeg(z3.fpDiv(rm, a, b))), [], domain='FP(11,53)')
    inr = z3.And(z3.fpLT(a, z3.FPVal(9.2e18, F)), z3.fpGT(a, z3.FPVal(-9.2e18, F)))
    ob.prove("fptosi(-x) == -fptosi(x) for |x| < 2^63", z3.fpToSBV(z3.RTZ(), z3.fpNeg(a), z3.BitVecSort(64)) == -z3.fpToSBV(z3.RTZ(), a, z3.BitVecSort(64)), [inr], domain='FP(11,53)')
    return rep

def worker(u):
    return run_lemmas(u) if u.get('what') == 'lemmas' else run_janus(u)

def main():
    tier = os.environ.get('VERIF_TIER') or (sys.argv[1] if len(sys.argv) > 1 else 'quick')
    t0 = time.time()
    build.module(); build.layout(); build.build_native()
    us = [dict(what='lemmas', t_ms=60000 if tier == 'quick' else 300000)]
    for order in ((2, 4, 6) if tier == 'quick' else (2, 4, 6, 8, 10)):
        for N in ((2,) if tier == 'quick' else (2, 3)):
            for steps in ((1,) if tier == 'quick' else (1, 2)):
                if order == 10 and (N == 3 or steps == 2): continue
                us.append(dict(order=order, N=N, steps=steps))
    us.append(dict(order=2, N=2, steps=1, recalc=True)); us.append(dict(order=4, N=2, steps=1, recalc=True))
    rep = run_units(us, worker)
    code = finish(PID, tier, rep, t0,
        bounds=dict(orders=[u['order'] for u in us if 'order' in u], N='2' if tier == 'quick' else '2..3', steps_each_way='1' if tier == 'quick' else '1..2'),
        assumptions=['no double->int64 conversion is out of range (that would be undefined behaviour in C, not a reversibility question)', 'no NaN among the symbolic doubles',
                     'sign rewrites of fmul/fdiv/fptosi and commutativity of fmul: proved on binary64 in this run (lemma obligations)', 'integer addition wraps (bit-vector semantics)'],
        outside=['the other time-symmetric schemes (LEAPFROG, WHFast, SABA, EOS, SEI) reversing to rounding error (their operator words are proved palindromic in C01; the size of the rounding error is not decided)', 'n > 2 steps; N > 3'],
        domain_note='UF for doubles with sign normalisation + QF_BV for the integer grid; FP(11,53) for the lemmas')
    sys.exit(code)

if __name__ == '__main__':
    main()
