"""C05 — a saved simulation restores bit-for-bit and continues bit-for-bit (DESIGN 5/C05).

UF/BITS domain.  R1: a reachable state (built by the real API, k real steps) has every persisted scalar — every entry of
the library's own descriptor table, every array element behind it, plus every documented user option — replaced by a
fresh symbolic bit-vector; the real reb_simulation_save_to_file and reb_simulation_create_from_file run on the model
file system; every location of the restored simulation must hold the same term.  R2: saving the restored simulation again
yields the same bytes.  R3: one further real step of original and restored (symbolic doubles, Kepler solver as an
uninterpreted function) produces identical terms for the fixed-step integrators."""
import sys, os, time, tempfile
sys.path.insert(0, os.path.dirname(os.path.dirname(os.path.abspath(__file__))))
sys.path.insert(0, os.path.dirname(os.path.abspath(__file__)))
import z3
from llsym import build
from llsym.harness import *
from llsym.check import *
from llsym.solve import model_value
from llsym import stubs as ST
import persist as P

PID = 'C05'

def attempt(cfgname, n, keep):
    cfg = P.CONFIGS[cfgname]
    dom = UF(); ctx = P.StrictCtx()
    I = new_interp(dom, ctx); I.concrete_env = True
    sim = P.build_engine_state(I, cfg, n)
    I.concrete_env = False
    tab = P.read_table(I); opts = P.documented_options()
    locs = P.locations(I, sim, tab, opts)
    sy = P.symbolise(I, sim, locs, keep)
    P.save(I, sim, 'a.bin')
    sim2 = P.load(I, 'a.bin', 0)
    return I, sim, sim2, tab, opts, locs, sy

def run_unit(u):
    rep = Report()
    cfgname, n = u['cfg'], u['n']
    label = "%s N=%d " % (cfgname, n)
    keep = set(); tries = 0
    while True:
        tries += 1
        try:
            I, sim, sim2, tab, opts, locs, sy = attempt(cfgname, n, keep)
            break
        except P.NeedConcrete as e:
            new = set(nm[2:] for nm in e.names if nm.startswith('S!'))
            if not new or tries > 60:
                rep.errors.append(label + "symbolic branch on non-field symbols %r" % (e.names,)); return rep
            keep |= new
    rep.paths += 1
    ob = Obligations(rep, Prover(t_inproc_ms=10000, use_external=False), label)
    if sim2 is None:
        rep.errors.append(label + "restore returned NULL on an intact file"); rep.add_interp(I); return rep
    dom = I.dom
    locs2 = P.locations(I, sim2, tab, opts)
    by_label = {lc.label: lc for lc in locs2}
    nsym = 0
    def on_sat_factory(lc):
        def on_sat(model):
            v = sy[lc.label][0]
            val = model.eval(v, model_completion=True).as_long() if z3.is_expr(v) else (f2bits(v) if isinstance(v, float) else v)
            ok, detail = native_roundtrip(cfgname, n, lc, val)
            key = "C05:not-restored:%s" % lc.field
            return ok, key, "persisted quantity %s is not restored bit-for-bit: %s" % (lc.label, detail), dict(cfg=cfgname, n=n, label=lc.label, field=lc.field, recipe=list(lc.recipe), bits=lc.ty.size() * 8, kind=lc.ty.kind, value=val)
        return on_sat
    # the save may shrink an array to the part the integrator uses (IAS15 after the particle number dropped): only what is still a
    # persisted location of the ORIGINAL after the save is compared
    live = {lc_.label for lc_ in P.locations(I, sim, tab, opts)}
    for lc in locs:
        if lc.label not in sy or lc.label not in live: continue
        _, orig, is_sym = sy[lc.label]
        p1 = lc.ptr(I, sim)
        # reference = the original simulation *after* the save (saving refreshes derived caches such as ri_sei.sindt in
        # the original as well; the statement compares the restored simulation with the original)
        want = I.mem.load(p1, lc.ty) if p1 is not None else sy[lc.label][0]
        nsym += is_sym
        lc2 = by_label.get(lc.label)
        p2 = lc2.ptr(I, sim2) if lc2 is not None else None
        if p2 is None:
            ob.prove("restored %s exists" % lc.label, False, [], on_sat=on_sat_factory(lc), domain='UF/BITS'); continue
        got = I.mem.load(p2, lc.ty)
        ob.prove("restored %s == saved" % lc.label, P.vals_equal(dom, got, want), [], on_sat=on_sat_factory(lc), domain='UF/BITS',
                 sample=dict(field=lc.label, symbolic=bool(is_sym)))
    # locations that exist only in the restored simulation (array grew on load)
    for lc2 in locs2:
        if lc2.label not in sy and lc2.ptr(I, sim2) is not None:
            ob.prove("restored simulation has no extra persisted location %s" % lc2.label, False, [], domain='UF/BITS')
    # R2: idempotence save(load(save(s))) == save(s)
    P.save(I, sim2, 'b.bin')
    la, lb, diff, conds = P.files_diff(I, 'a.bin', 'b.bin')
    ob.prove("R2: second save has the same length", la == lb, [], domain='BITS')
    ob.prove("R2: second save has the same concrete bytes", not diff, [], domain='BITS', sample=dict(first_diff=diff[:4]))
    for k, e in conds:
        ob.prove("R2: bytes at offset %d equal" % k, e, [], domain='UF/BITS')
    rep.add_interp(I)
    rep.notes.append(label + "%d locations, %d symbolic; kept concrete because save/load branch on them: %s" % (len(locs), nsym, sorted(keep)))
    # witness/translator validation: the concrete pre-state round-trips natively and agrees with the engine on every location
    try:
        bad = native_validate(cfgname, n, I, sim, locs, sy)
        rep.replays += 1; rep.witnesses += 1
        if bad: rep.errors.append(label + "engine and native disagree on pre-state locations: %r" % (bad[:5],))
    except Exception as e:
        rep.errors.append(label + "native validation raised %r" % (e,))
    return rep

def _covered(cells, k):
    for q in range(k - 7, k + 1):
        c = cells.get(q)
        if c is not None and q + c[0] > k: return True
    return False

_nat = None
def nat():
    global _nat
    if _nat is None: _nat = Native()
    return _nat

def native_state(cfgname, n):
    cfg = P.CONFIGS[cfgname]
    ns = P.build_native_state(nat(), cfg, n)
    if cfg.get('var'): pass
    return ns

def native_validate(cfgname, n, I, sim, locs, sy):
    """same API history natively: every location's concrete original value must equal what the engine computed"""
    ns = native_state(cfgname, n)
    bad = []
    try:
        for lc in locs:
            if lc.label not in sy: continue
            orig = sy[lc.label][1]
            if lc.field in ('rand_seed', 'output_timing_last', 'save_messages') or lc.field.startswith('walltime'): continue
            a = lc.naddr(ns)
            if a is None: bad.append((lc.label, 'missing natively')); continue
            if lc.ty.kind == 'fp':
                got = ctypes.c_uint64.from_address(a).value
                o = f2bits(orig) if isinstance(orig, float) else orig
            else:
                got = (ctypes.c_uint32 if lc.ty.bits == 32 else ctypes.c_uint64).from_address(a).value; o = orig
            if isinstance(o, int) and got != o: bad.append((lc.label, got, o))
    finally:
        ns.free()
    return bad

def native_roundtrip(cfgname, n, lc, val):
    """poke `val` into the location natively, save to a real file, load, read back"""
    ns = native_state(cfgname, n)
    d = tempfile.mkdtemp(prefix='llsym_c05_')
    fn = os.path.join(d, 'x.bin').encode()
    try:
        a = lc.naddr(ns)
        if a is None: return False, "location does not exist natively"
        CT = ctypes.c_uint64 if lc.ty.size() == 8 else ctypes.c_uint32
        CT.from_address(a).value = val
        f = nat().lib.reb_simulation_save_to_file; f.argtypes = [ctypes.c_void_p, ctypes.c_char_p]; f.restype = None
        f(ns.addr, fn)
        g = nat().lib.reb_simulation_create_from_file; g.argtypes = [ctypes.c_char_p, ctypes.c_int64]; g.restype = ctypes.c_void_p
        r2 = g(fn, 0)
        if not r2: return True, "native restore failed"
        ns2 = NSim(nat(), r2)
        try:
            b = lc.naddr(ns2)
            if b is None: return True, "location missing after native restore"
            got = CT.from_address(b).value
            ref = CT.from_address(lc.naddr(ns)).value       # the original after the save
            return got != ref, "original holds bits %#x (set to %#x before saving), restored bits %#x" % (ref, val, got)
        finally:
            ns2.free()
    finally:
        ns.free()
        import shutil; shutil.rmtree(d, ignore_errors=True)

def replay(data):
    if data.get('kind') == 'copy_tree':
        import c17
        return c17.native_copy_tree(data['gravity'], data['collision'], data['N'], via=data.get('via'))
    lc = P.Loc(data['label'], (F64 if data['kind'] == 'fp' else intT(data['bits'])), data['field'], tuple(data['recipe']))
    return native_roundtrip(data['cfg'], data['n'], lc, int(data['value']))

# ------------------------------------------------------------------------------------------ R3: continuation
def kepler_uf_stub(dom):
    """reb_whfast_kepler_solver(r, p_j, M, i, dt) as an uninterpreted pure function of (p_j[i].{x..vz}, M, dt)"""
    L = build.layout(); psize = L.structs['reb_particle']['size']
    offs = {m['name']: m['offset'] for m in L.structs['reb_particle']['members']}
    def stub(I, r, pj, M, i, dt):
        base = Ptr(pj.obj, pj.off + i * psize)
        ins = [I.mem.load(Ptr(base.obj, base.off + offs[f]), F64) for f in ('x', 'y', 'z', 'vx', 'vy', 'vz')] + [M, dt]
        for k, f in enumerate(('x', 'y', 'z', 'vx', 'vy', 'vz')):
            fn = dom.fn('kepler_' + f, 8)
            I.mem.store(Ptr(base.obj, base.off + offs[f]), F64, fn(*[dom.z(a) for a in ins]))
        return None
    return stub

R3_EXTRA = ['eos', 'janus', 'whfast_var']        # continuation only (C17 uses R3_CFGS for its own stepping twin)
R3_CFGS = ['leapfrog', 'whfast', 'whfast_unsync', 'whfast_dh_kernel', 'saba', 'none', 'sei']

def run_r3(u):
    """twin step: symbolic particle data and double-valued settings; integer settings concrete (as set by the configuration)"""
    rep = Report(); cfgname, n = u['cfg'], u['n']
    label = "R3 %s N=%d " % (cfgname, n)
    cfg = P.CONFIGS[cfgname]
    dom = UF(); ctx = P.StrictCtx()
    I = new_interp(dom, ctx); I.concrete_env = True
    I.stubs['@reb_whfast_kepler_solver'] = kepler_uf_stub(dom)
    sim = P.build_engine_state(I, cfg, n)
    tab = P.read_table(I); opts = P.documented_options()
    locs = P.locations(I, sim, tab, opts)
    # symbolic: all double-valued locations except those the step branches on (found by retry)
    keep = set(u.get('keep', []))
    for lc in locs:
        if lc.ty.kind != 'fp': keep.add(lc.label)
    ob = Obligations(rep, Prover(t_inproc_ms=10000, use_external=False), label)
    tries = 0
    while True:
        tries += 1
        try:
            I = new_interp(dom, P.StrictCtx()); I.concrete_env = True
            I.stubs['@reb_whfast_kepler_solver'] = kepler_uf_stub(dom)
            sim = P.build_engine_state(I, cfg, n)
            locs = P.locations(I, sim, tab, opts)
            sy = P.symbolise(I, sim, locs, keep)
            P.save(I, sim, 'a.bin'); sim2 = P.load(I, 'a.bin', 0)
            for s_ in range(u.get('steps', 1)):
                I.call('@reb_simulation_step', [sim.ptr]); I.call('@reb_simulation_step', [sim2.ptr])
            break
        except P.NeedConcrete as e:
            new = set(nm[2:] for nm in e.names if nm.startswith('S!'))
            if not new or tries > 80:
                rep.errors.append(label + "symbolic branch on %r" % (e.names,)); return rep
            keep |= new
    rep.paths += 1
    l1 = P.locations(I, sim, tab, opts); l2 = {lc.label: lc for lc in P.locations(I, sim2, tab, opts)}
    nsym = sum(1 for v in sy.values() if v[2])
    for lc in l1:
        if lc.field.startswith('walltime'): continue
        p1 = lc.ptr(I, sim); lc2 = l2.get(lc.label); p2 = lc2.ptr(I, sim2) if lc2 else None
        if p1 is None and p2 is None: continue
        if p1 is None or p2 is None:
            ob.prove("after step: %s exists in both" % lc.label, False, [], domain='UF'); continue
        a = I.mem.load(p1, lc.ty); b = I.mem.load(p2, lc.ty)
        ob.prove("after step: %s equal in original and restored" % lc.label, P.vals_equal(dom, a, b), [], domain='UF', on_sat=None)
    rep.add_interp(I)
    rep.notes.append(label + "%d symbolic doubles; kept concrete: %s" % (nsym, sorted(k for k in keep if k in sy and sy[k][0] is sy[k][1] and not isinstance(sy[k][0], int))[:12]))
    return rep

def concrete_twin(u):
    """auxiliary (not solver-decided): native save / restore / continue for every configuration incl. adaptive integrators;
    a reproduced bit difference is a violation like any other (it *is* the real code)"""
    rep = Report(); cfgname, n = u['cfg'], u['n']
    cfg = P.CONFIGS[cfgname]
    ns = P.build_native_state(nat(), cfg, n)
    d = tempfile.mkdtemp(prefix='llsym_c05_'); fn = os.path.join(d, 'x.bin').encode()
    try:
        f = nat().lib.reb_simulation_save_to_file; f.argtypes = [ctypes.c_void_p, ctypes.c_char_p]; f.restype = None
        f(ns.addr, fn)
        g = nat().lib.reb_simulation_create_from_file; g.argtypes = [ctypes.c_char_p, ctypes.c_int64]; g.restype = ctypes.c_void_p
        ns2 = NSim(nat(), g(fn, 0))
        if cfg.get('twin_add'):
            # the same particle is added to the original and to the restored simulation before they continue
            for s_ in (ns, ns2): s_.add(m=2e-4, x=3.1, y=0.2, z=0.01, vy=0.55, r=0.001)
        for _ in range(u.get('steps', 3)):
            ns.call('reb_simulation_step'); ns2.call('reb_simulation_step')
        a = ns.pvals(('x', 'y', 'z', 'vx', 'vy', 'vz', 'm')); b = ns2.pvals(('x', 'y', 'z', 'vx', 'vy', 'vz', 'm'))
        rep.replays += 1; rep.obligations += 1
        same = all(same_bits(x, y) for r_, q in zip(a, b) for x, y in zip(r_, q)) and same_bits(ns.get('t'), ns2.get('t'))
        if same: rep.discharged += 1
        else:
            rep.violations.append(dict(key="C05:continuation:%s" % cfgname, what="native continuation after restore differs bitwise (%s, N=%d)" % (cfgname, n), replay=dict(cfg=cfgname, n=n, kind='twin'), obligation='auxiliary concrete twin'))
        ns2.free()
    finally:
        ns.free(); import shutil; shutil.rmtree(d, ignore_errors=True)
    return rep

def worker(u):
    if u.get('mode') == 'tree':
        import c17
        rep = c17.run_copy_tree(dict(u, via='file'))
        for v in rep.violations: v['key'] = v['key'].replace('C17:copy:tree', 'C05:restore:tree')
        return rep
    if u.get('mode') == 'r3': return run_r3(u)
    if u.get('mode') == 'twin': return concrete_twin(u)
    return run_unit(u)

def main():
    tier = os.environ.get('VERIF_TIER') or (sys.argv[1] if len(sys.argv) > 1 else 'quick')
    t0 = time.time()
    build.module(); build.layout(); build.build_native()
    cfgs = [c for c in P.CONFIGS if not P.CONFIGS[c].get('var')]
    us = [dict(cfg=c, n=2) for c in cfgs]
    if tier == 'thorough': us += [dict(cfg=c, n=3) for c in cfgs]
    us += [dict(cfg=c, n=2, mode='r3', steps=1) for c in R3_CFGS + R3_EXTRA]
    if tier == 'thorough': us += [dict(cfg=c, n=3, mode='r3', steps=2) for c in R3_CFGS]
    us += [dict(cfg=c, n=3, mode='twin') for c in cfgs]
    # derived state that is not persisted: a restored simulation that needs the tree must come back with one (unit shared with C17)
    for g_, c_ in (('BASIC', 'LINETREE'), ('BASIC', 'TREE'), ('TREE', 'NONE')): us.append(dict(mode='tree', gravity=g_, collision=c_, N=2))
    rep = run_units(us, worker)
    code = finish(PID, tier, rep, t0,
        bounds=dict(configurations=len(us), particles='2' if tier == 'quick' else '2..3', pre_steps='0..2 real steps', continuation_steps='1' if tier == 'quick' else '1..2'),
        assumptions=['malloc never fails; model file system (bytes reach the file in program order)', 'callbacks are not persisted (documented as the user\'s job)',
                     'fields that save/load branch on (counts, module selectors) keep their concrete reachable value; they are listed in notes',
                     'R3 twin: Kepler solver is an uninterpreted pure function of (state, mass, dt); integer settings concrete',
                     'documented options = struct members before the "Internal use" marker in rebound.h and variables listed in docs/simulationvariables.md'],
        outside=['continuation over more than 2 steps', 'adaptive/hybrid integrators in the symbolic twin (only the auxiliary native twin run covers them)', 'WHFast512 (not compiled)', 'variational configurations (see C17)', 'Python pickling wrappers'],
        domain_note='UF/BITS: every persisted value is an unconstrained bit-vector; equality is equality of terms')
    sys.exit(code)

if __name__ == '__main__':
    main()
