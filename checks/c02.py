"""C02 — every force routine computes the specified pairwise Newtonian sum (DESIGN 5/C02).

REAL domain, P-diff: reb_calculate_acceleration is executed from the IR on symbolic positions/masses/G/softening/box,
for every concrete (routine, N, N_active, testparticle_type, gravity_ignore_terms, ghost) configuration in the bound; each
output component is compared by the solver with an independent pairwise sum."""
import sys, os, time, itertools
sys.path.insert(0, os.path.dirname(os.path.dirname(os.path.abspath(__file__))))
import z3
from fractions import Fraction
from llsym import build
from llsym.harness import *
from llsym.check import *
from llsym.solve import model_value

PID = 'C02'

def included(i, j, na, tpt, git):
    """documented rule: does particle j contribute to the acceleration of particle i?"""
    if i == j: return False
    ai = i < na; aj = j < na
    if not ai and not aj: return False
    if ai and not aj and not tpt: return False
    if git == 1 and {i, j} == {0, 1}: return False
    if git == 2 and (i == 0 or j == 0): return False
    return True

def setup(dom, ctx, u, vals=None):
    """build the simulation in engine memory; vals=None -> symbolic, else dict name->python float (concrete replay in the engine)"""
    I = new_interp(dom, ctx)
    sim = Sim(I)
    N = u['N']
    for i in range(N): sim.add(m=1.0)
    def v(name, positive=False):
        if vals is not None: return dom.const(vals[name])
        return dom.fresh(name)
    X = [[v('x%d_%d' % (i, k)) for k in range(3)] for i in range(N)]
    M = [v('m%d' % i) for i in range(N)]
    G = v('G'); soft = v('soft')
    for i in range(N):
        p = sim.particle(i)
        for k, nm in enumerate('xyz'): p.set(nm, X[i][k])
        p.set('m', M[i])
    sim.set('G', G); sim.set('softening', soft)
    sim.set('N_active', u['na'] if u['na'] != N or u.get('na_explicit') else -1 & 0xffffffff)
    sim.set('testparticle_type', u['tpt']); sim.set('gravity_ignore_terms', u['git'])
    sim.set('gravity', sim.enum('REB_GRAVITY_' + u['gravity']))
    box = None
    if u['ghost']:
        box = [v('box_%d' % k) for k in range(3)]
        sim.set('boundary', sim.enum('REB_BOUNDARY_PERIODIC'))
        for k, nm in enumerate('xyz'):
            sim.set('boxsize.' + nm, box[k])
            sim.set('N_ghost_' + nm, 1 if u['ghost'][k] else 0)
    return I, sim, X, M, G, soft, box

def oracle(dom, u, X, M, G, soft, box, i, k, lterm=None):
    N = u['N']
    tot = 0
    if u['gravity'] == 'NONE': return 0
    gr = [(-1, 0, 1) if (u['ghost'] and u['ghost'][q]) else (0,) for q in range(3)]
    for gb in itertools.product(*gr):
        for j in range(N):
            if not included(i, j, u['na'], u['tpt'], u['git']): continue
            d = [X[i][q] + (gb[q] * box[q] if gb[q] else 0) - X[j][q] for q in range(3)]
            r = dom.libm('sqrt', [d[0] * d[0] + d[1] * d[1] + d[2] * d[2] + soft * soft])
            tot = tot - dom.fdiv(G * M[j] * d[k], r * r * r)
    return tot

def run_unit(u):
    rep = Report()
    dom = Real()
    ctx = PathCtx()
    I, sim, X, M, G, soft, box = setup(dom, ctx, u)
    N = u['N']
    grav = u['gravity']
    label = "%s N=%d Nact=%d tpt=%d git=%d ghost=%s " % (grav, N, u['na'], u['tpt'], u['git'], u['ghost'])
    ob = Obligations(rep, Prover(t_inproc_ms=u.get('t_ms', 10000), t_ext_s=u.get('t_ext', 30), use_external=u.get('ext', False)), label)
    assum = [M[i] >= 0 for i in range(N)] + [G > 0, soft >= 0]
    if box: assum += [b > 0 for b in box]
    nat = [None]
    def replay_factory(i, k, got, want):
        def on_sat(model):
            vals = {}
            for t in [x for row in X for x in row] + M + [G, soft] + (box or []):
                vals[str(t)] = float(model_value(model, t))
            ok, detail = native_check(u, vals, i, k)
            return ok, "C02:%s:ignore%d:tpt%d" % (grav, u['git'], u['tpt']), "acceleration component differs from the pairwise sum: " + detail, dict(unit=u, inputs=vals, particle=i, axis=k)
        return on_sat
    if grav in ('MERCURIUS', 'TRACE'):
        accs = run_split(I, sim, u, dom)
    else:
        I.call('@reb_calculate_acceleration', [sim.ptr])
        accs = [[sim.particle(i).get(a) for a in ('ax', 'ay', 'az')] for i in range(N)]
    rep.paths += 1
    rep.add_interp(I)
    if ctx.decisions:
        rep.errors.append(label + "unexpected symbolic branch in force routine")
    wants = [[(oracle_helio(dom, u, X, M, G, soft, i, k) if grav in ('MERCURIUS', 'TRACE') else oracle(dom, u, X, M, G, soft, box, i, k)) for k in range(3)] for i in range(N)]
    assum = assum + [b != 0 for b in dom.divs]      # no coincident particles: every denominator is non-zero
    for n_, sc in enumerate(dom.side):
        ob.prove("side condition %d (sqrt argument >= 0)" % n_, sc, [], domain='REAL')
    for i in range(N):
        for k in range(3):
            want = wants[i][k]
            got = accs[i][k]
            goal = dom.z(got) == dom.z(want)
            ob.prove("a[%d].%s == pairwise sum" % (i, 'xyz'[k]), goal, assum, axioms=dom.axioms, on_sat=replay_factory(i, k, got, want), domain='REAL (sqrt uninterpreted, axioms on demand)')
    if u['na'] == N and u['git'] == 0 and grav in ('BASIC', 'COMPENSATED'):
        for k in range(3):
            tot = sum((dom.z(M[i]) * dom.z(accs[i][k]) for i in range(N)), z3.RealVal(0))
            ob.prove("sum m a_%s == 0" % 'xyz'[k], tot == 0, assum, domain='REAL')
    if grav == 'COMPENSATED':
        cs = sim.get('gravity_cs')
        for i in range(N):
            for k in range(3):
                c = I.mem.load(Ptr(cs.obj, cs.off + 24 * i + 8 * k), F64)
                ob.prove("cs[%d].%s == 0 over the reals" % (i, 'xyz'[k]), dom.z(c) == 0, assum, domain='REAL')
    # reachability twin + translator validation on a concrete vector
    def wit(model):
        vals = {}
        for t in [x for row in X for x in row] + M + [G, soft] + (box or []):
            vals[str(t)] = float(model_value(model, t))
        ok, detail = native_check(u, vals, None, None)
        if ok: raise RuntimeError("engine(CONC) and native disagree on witness: " + detail)
    dist = [z3.Or(*[X[i][q] != X[j][q] for q in range(3)]) for i in range(N) for j in range(i)]
    ob.witness("inputs", assum + dist + [M[i] > 0 for i in range(N)], replay=wit)
    return rep

def dcrit_val(u, i):
    """distinct concrete switching radii; 'dec' makes the lower-indexed particle the larger one"""
    return float(1 + i) if u.get('dcrit', 'inc') == 'inc' else float(1 + u['N'] - i)

def run_split(I, sim, u, dom):
    """MERCURIUS / TRACE: run both parts of the splitting with every particle in the encounter set; return the sum."""
    N = u['N']
    if u['gravity'] == 'MERCURIUS':
        sub = 'ri_mercurius'
        sim.set('integrator', sim.enum('REB_INTEGRATOR_MERCURIUS'))
        dcrit = I.mem.alloc(8 * N, 'dcrit', 'heap')
        for i in range(N): I.mem.store(Ptr(dcrit.obj, 8 * i), F64, dom.const(dcrit_val(u, i)))
        sim.set(sub + '.dcrit', dcrit)
        Lf = dom.fn('L', 2)
        def Lstub(I_, r, d, dc):
            t = Lf(dom.z(d), dom.z(dc))
            return t
        I.stubs['@verif_L'] = Lstub
        sim.set(sub + '.L', I.global_ptr('@verif_L'))
    else:
        sub = 'ri_trace'
        sim.set('integrator', sim.enum('REB_INTEGRATOR_TRACE'))
        ks = I.mem.alloc(4 * N * N, 'current_Ks', 'heap', zero=True)
        for a, b in u['Ks']:
            I.mem.store(Ptr(ks.obj, 4 * (a * N + b)), I32, 1)
        sim.set(sub + '.current_Ks', ks)
    em = u.get('emap') or list(range(N))
    emap = I.mem.alloc(4 * N, 'encounter_map', 'heap')
    for i, v_ in enumerate(em): I.mem.store(Ptr(emap.obj, 4 * i), I32, v_)
    sim.set(sub + '.encounter_map', emap)
    sim.set(sub + '.encounter_N', len(em)); sim.set(sub + '.encounter_N_active', sum(1 for v_ in em if v_ < u['na']))
    out = []
    for mode in (0, 1):
        sim.set(sub + '.mode', mode)
        for i in range(N):
            for a in ('ax', 'ay', 'az'): sim.particle(i).set(a, 0.0)
        I.call('@reb_calculate_acceleration', [sim.ptr])
        out.append([[sim.particle(i).get(a) for a in ('ax', 'ay', 'az')] for i in range(N)])
    return [[dom.z(out[0][i][k]) + dom.z(out[1][i][k]) for k in range(3)] for i in range(N)]

def oracle_helio(dom, u, X, M, G, soft, i, k):
    """heliocentric splitting: interaction part + encounter part = star term (for encounter particles) + planet-planet terms,
    where a pair that is not (both) in the encounter set only carries the weight L of the interaction part; the star gets nothing"""
    if i == 0: return 0
    N = u['N']; tot = 0
    E = set(u.get('emap') or range(N))
    for j in range(N):
        if j == i: continue
        w = None
        if j == 0:
            if i not in E: continue
            d = X[i]
        else:
            if not included(i, j, u['na'], u['tpt'], 0): continue
            d = [X[i][q] - X[j][q] for q in range(3)]
        r = dom.libm('sqrt', [d[0] * d[0] + d[1] * d[1] + d[2] * d[2] + soft * soft])
        term = dom.fdiv(G * M[j] * d[k], r * r * r)
        if j != 0 and not (i in E and j in E):
            if u['gravity'] != 'MERCURIUS': raise ValueError("partial encounter sets are only modelled for MERCURIUS")
            term = dom.fn('L', 2)(dom.z(r), dom.z(dom.const(max(dcrit_val(u, i), dcrit_val(u, j))))) * term
        tot = tot - term
    return tot

def native_split(ns, u, vals, i, k):
    """both parts of the MERCURIUS / TRACE splitting on the native library (real L_mercury switching function), summed"""
    import ctypes, decimal
    N = u['N']; L = _native.L
    keep = []
    if u['gravity'] == 'MERCURIUS':
        sub = 'ri_mercurius'
        ns.set('integrator', L.enumerators['REB_INTEGRATOR_MERCURIUS'])
        dcrit = (ctypes.c_double * N)(*[dcrit_val(u, n) for n in range(N)]); keep.append(dcrit)
        ns.set(sub + '.dcrit', ctypes.addressof(dcrit))
        ns.set(sub + '.L', ctypes.cast(_native.lib.reb_integrator_mercurius_L_mercury, ctypes.c_void_p).value)
    else:
        sub = 'ri_trace'
        ns.set('integrator', L.enumerators['REB_INTEGRATOR_TRACE'])
        ks = (ctypes.c_int * (N * N))(); keep.append(ks)
        for a, b in u['Ks']: ks[a * N + b] = 1
        ns.set(sub + '.current_Ks', ctypes.addressof(ks))
    em = u.get('emap') or list(range(N))
    emap = (ctypes.c_int * N)(*em); keep.append(emap)
    ns.set(sub + '.encounter_map', ctypes.addressof(emap))
    ns.set(sub + '.encounter_N', len(em)); ns.set(sub + '.encounter_N_active', sum(1 for v_ in em if v_ < u['na']))
    tot = [[0.0] * 3 for _ in range(N)]
    for mode in (0, 1):
        ns.set(sub + '.mode', mode)
        for n in range(N):
            for a in ('ax', 'ay', 'az'): ns.particle(n).set(a, 0.0)
        ns.call('reb_calculate_acceleration')
        for n in range(N):
            for q, a in enumerate(('ax', 'ay', 'az')): tot[n][q] += ns.particle(n).get(a)
    for nm in ('dcrit', 'current_Ks', 'encounter_map'):
        try: ns.set(sub + '.' + nm, 0)
        except KeyError: pass
    if i is None: return False, ''
    decimal.getcontext().prec = 60
    D = decimal.Decimal
    want = D(0); scale = D(0)
    E = set(em)
    lmerc = lib_L = _native.lib.reb_integrator_mercurius_L_mercury; lib_L.restype = ctypes.c_double; lib_L.argtypes = [ctypes.c_void_p, ctypes.c_double, ctypes.c_double]
    if i > 0:
        for j in range(N):
            if j == i: continue
            if j == 0:
                if i not in E: continue
                d = [D(vals['x%d_%d' % (i, q)]) for q in range(3)]
            else:
                if not included(i, j, u['na'], u['tpt'], 0): continue
                d = [D(vals['x%d_%d' % (i, q)]) - D(vals['x%d_%d' % (j, q)]) for q in range(3)]
            r2 = d[0] * d[0] + d[1] * d[1] + d[2] * d[2] + D(vals['soft']) ** 2
            if r2 == 0: return False, "degenerate model (coincident particles)"
            term = D(vals['G']) * D(vals['m%d' % j]) * d[k] / (r2 * r2.sqrt())
            if j != 0 and not (i in E and j in E):
                term = term * D(lib_L(ns.addr, float(r2.sqrt()), max(dcrit_val(u, i), dcrit_val(u, j))))
            want -= term; scale += abs(term)
    got = D(tot[i][k])
    if got != got: return False, "native NaN"
    err = abs(got - want); tol = D(1e-9) * (scale + abs(want)) + D(1e-300)
    return err > tol, "native sum of both parts a[%d].%s=%r, heliocentric pairwise sum=%s (|diff|=%.3e, tol=%.3e)" % (i, 'xyz'[k], tot[i][k], float(want), float(err), float(tol))

_native = None
def native_check(u, vals, i, k):
    """concrete run in the engine (CONC domain = IEEE binary64) against the native library AND against the oracle in floats.
    returns (discrepancy_reproduced, detail).  With i None: only engine-vs-native translator validation (True means mismatch)."""
    global _native
    if _native is None: _native = Native()
    import math
    N = u['N']
    # native
    ns = _native.create()
    try:
        for n in range(N): ns.add(m=1.0)
        for n in range(N):
            p = ns.particle(n)
            for q, nm in enumerate('xyz'): p.set(nm, vals['x%d_%d' % (n, q)])
            p.set('m', vals['m%d' % n])
        ns.set('G', vals['G']); ns.set('softening', vals['soft'])
        L = _native.L
        ns.set('N_active', u['na'] if u['na'] != N else -1)
        ns.set('testparticle_type', u['tpt']); ns.set('gravity_ignore_terms', u['git'])
        ns.set('gravity', L.enumerators['REB_GRAVITY_' + u['gravity']])
        if u['ghost']:
            ns.set('boundary', L.enumerators['REB_BOUNDARY_PERIODIC'])
            for q, nm in enumerate('xyz'):
                ns.set('boxsize.' + nm, vals['box_%d' % q]); ns.set('N_ghost_' + nm, 1 if u['ghost'][q] else 0)
        if u['gravity'] in ('MERCURIUS', 'TRACE'):
            return native_split(ns, u, vals, i, k)
        ns.call('reb_calculate_acceleration')
        nacc = [[ns.particle(n).get(a) for a in ('ax', 'ay', 'az')] for n in range(N)]
    finally:
        ns.free()
    # engine, concrete
    dom = Conc()
    I, sim, X, M, G, soft, box = setup(dom, PathCtx(), u, vals)
    I.call('@reb_calculate_acceleration', [sim.ptr])
    eacc = [[sim.particle(n).get(a) for a in ('ax', 'ay', 'az')] for n in range(N)]
    mism = [(n, q) for n in range(N) for q in range(3) if not same_bits(eacc[n][q], nacc[n][q])]
    if i is None:
        return bool(mism), "engine/native mismatch at %r" % (mism,)
    # oracle in exact rationals from the float inputs, sqrt via high-precision
    from fractions import Fraction as Fr
    import decimal
    decimal.getcontext().prec = 60
    def D(x): return decimal.Decimal(x)
    tot = D(0); scale = D(0)
    if u['gravity'] == 'NONE': N = 0
    gr = [(-1, 0, 1) if (u['ghost'] and u['ghost'][q]) else (0,) for q in range(3)]
    for gb in itertools.product(*gr):
        for j in range(N):
            if not included(i, j, u['na'], u['tpt'], u['git']): continue
            d = [D(vals['x%d_%d' % (i, q)]) + (gb[q] * D(vals['box_%d' % q]) if gb[q] else 0) - D(vals['x%d_%d' % (j, q)]) for q in range(3)]
            r2 = d[0] * d[0] + d[1] * d[1] + d[2] * d[2] + D(vals['soft']) ** 2
            if r2 == 0: return False, "degenerate model (coincident particles)"
            term = D(vals['G']) * D(vals['m%d' % j]) * d[k] / (r2 * r2.sqrt())
            tot -= term; scale += abs(term)
    got = D(nacc[i][k])
    if got != got: return False, "native NaN"
    err = abs(got - tot)
    tol = D(1e-9) * (scale + abs(tot)) + D(1e-300)
    return err > tol, "native a[%d].%s=%r, pairwise sum=%s (|diff|=%.3e, tol=%.3e)" % (i, 'xyz'[k], nacc[i][k], float(tot), float(err), float(tol))

def units(tier):
    us = []
    Ns = (1, 2, 3) if tier == 'quick' else (0, 1, 2, 3, 4, 5)
    for grav in ('BASIC', 'COMPENSATED'):
        for N in Ns:
            nas = sorted(set([N, max(0, N - 1), 1 if N >= 1 else 0, 0]))
            if tier == 'thorough': nas = list(range(0, N + 1))
            for na in nas:
                if na > N: continue
                for tpt in (0, 1):
                    if na == N and tpt == 1 and tier == 'quick': continue
                    for git in (0, 1, 2):
                        us.append(dict(gravity=grav, N=N, na=na, tpt=tpt, git=git, ghost=None))
        # explicit N_active == N (not the -1 default)
        us.append(dict(gravity=grav, N=3, na=3, tpt=0, git=0, ghost=None, na_explicit=True))
    # ghost boxes (BASIC only supports them)
    ghosts = [(1, 0, 0)] if tier == 'quick' else [(1, 0, 0), (0, 1, 0), (0, 0, 1), (1, 1, 0)]
    for gh in ghosts:
        for N, na, tpt in ((2, 2, 0), (2, 1, 1)) if tier == 'quick' else ((2, 2, 0), (2, 1, 1), (3, 2, 1), (3, 3, 0)):
            us.append(dict(gravity='BASIC', N=N, na=na, tpt=tpt, git=0, ghost=gh))
    us.append(dict(gravity='NONE', N=2, na=2, tpt=0, git=0, ghost=None))
    for N in ((3, 4) if tier == 'quick' else (2, 3, 4, 5)):
        for na in range(1, N + 1):
            for tpt in (0, 1):
                if na == N and tpt: continue
                us.append(dict(gravity='MERCURIUS', N=N, na=na, tpt=tpt, git=0, ghost=None))
                us.append(dict(gravity='MERCURIUS', N=N, na=na, tpt=tpt, git=0, ghost=None, dcrit='dec'))
                if N >= 4:
                    # partial encounter sets (sub-permutations of the particle indices: active ones first, star always first)
                    for em in ([0, 2, 3], [0, 1, 3], [0, 3], [0, 2], [0, 3, 2] if na <= 2 else [0, 2, 1]):
                        act = [v_ for v_ in em if v_ < na]; tp = [v_ for v_ in em if v_ >= na]
                        if em != act + tp or max(em) >= N: continue
                        for dc in ('inc', 'dec'):
                            us.append(dict(gravity='MERCURIUS', N=N, na=na, tpt=tpt, git=0, ghost=None, emap=em, dcrit=dc))
                pairs = [(a, b) for b in range(1, N) for a in range(1, b)]
                kss = [[]] + [[p] for p in pairs] + ([list(pairs)] if len(pairs) > 1 else [])
                if tier == 'thorough' and len(pairs) <= 6:
                    kss = [[p for p, bit in zip(pairs, bits) if bit] for bits in itertools.product((0, 1), repeat=len(pairs))]
                for ks in kss:
                    us.append(dict(gravity='TRACE', N=N, na=na, tpt=tpt, git=0, ghost=None, Ks=ks))
    return us

def run_any(u):
    if u.get('what') == 'tree':
        sys.path.insert(0, os.path.dirname(os.path.abspath(__file__)))
        import c15
        rep = c15.run_tree(u)
        for v in rep.violations: v['key'] = v['key'].replace('C15:tree', 'C02:tree')
        return rep
    return run_unit(u)

def main():
    tier = os.environ.get('VERIF_TIER') or (sys.argv[1] if len(sys.argv) > 1 else 'quick')
    t0 = time.time()
    build.module(); build.layout(); build.build_native()
    us = units(tier)
    # the tree routine: units shared with C15 (checks/c15.py run_tree): opening angle 0 == pairwise sum, finite opening angle + softening == Barnes-Hut definition
    tree_us = [dict(what='tree', N=2, sep=2, axes=('x', 'y')), dict(what='tree', N=3, sep=2, axes=('x',)), dict(what='tree', N=2, sep=2, axes=('x',), theta=True), dict(what='tree', N=2, sep=2, axes=('z',), move=True), dict(what='tree', N=2, sep=2, axes=('y',), move=True)]
    if tier == 'thorough': tree_us.append(dict(what='tree', N=3, sep=2, axes=('x',), theta=True, t_ms=30000))
    rep = run_units(us + tree_us, run_any)
    Nmax = max(u['N'] for u in us)
    code = finish(PID, tier, rep, t0,
        bounds=dict(N_max=Nmax, configurations=len(us), routines=['NONE', 'BASIC', 'COMPENSATED', 'MERCURIUS mode0+mode1', 'TRACE interaction+kepler', 'TREE (N<=3, one root box, opening angle 0 and symbolic finite opening angle with softening)'], ghost_boxes='N_ghost in {0,1} per axis, PERIODIC', loop_unwinding='concrete (N is concrete per configuration)'),
        assumptions=['masses >= 0, G > 0, softening >= 0, box > 0', 'malloc never fails', 'sqrt uninterpreted (first pass) / s>=0 & s*s=t (axioms)', 'MERCURIUS switching function L: arbitrary function of (d,dcrit) (stub)', 'TRACE current_Ks: enumerated 0/1 matrices; encounter map = identity over all particles', 'self-images in ghost boxes excluded (as in both compiled variants of the loop)'],
        outside=['rounding error magnitude', 'N > %d' % Nmax, 'tree code beyond N = 3 / one root box / no ghost boxes; multipole ERROR BOUNDS of the finite-opening-angle tree force (only its definition is decided); quadrupole variant (not compiled)', 'JACOBI routine (covered with the WHFast interaction step in C01/C12)', 'OPENMP/MPI/AVX512 variants (not compiled)'],
        domain_note='REAL: exact real arithmetic, sqrt as uninterpreted function with instantiated axioms; rounding error magnitude is outside the claim')
    sys.exit(code)


def replay(data):
    if data.get('kind') == 'tree':
        sys.path.insert(0, os.path.dirname(os.path.abspath(__file__)))
        import c15
        return c15.native_tree(data['unit'], data['vals'])
    u = data['unit']
    if u.get('ghost'): u['ghost'] = tuple(u['ghost'])
    if 'Ks' in u: u['Ks'] = [tuple(p) for p in u['Ks']]
    return native_check(u, data['inputs'], data['particle'], data['axis'])

if __name__ == '__main__':
    main()
