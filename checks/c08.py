"""C08 — integrate() honours its time, step-size and status contract (DESIGN 5/C08).

Layer 1 (REAL, linear arithmetic): the real reb_simulation_integrate (reb_simulation_integrate_raw, reb_check_exit,
reb_run_heartbeat, reb_simulation_step and the real fixed-step integrators' time updates) is executed from LLVM IR with
symbolic t0, dt, tmax, both directions of time and both values of exact_finish_time, under the assumption that the target
lies within K user steps (K = 3 quick / 5 thorough); every path through the loop is explored and the contract is proved on
each: final time, monotone time, restored dt, no-op when tmax == t, implied number of steps, N == 0 exit.
Layer 2 (UF, twin): for concrete schedules, one call to tmax2 versus two calls (tmax1 then tmax2) without exact finishing
give identical terms for arbitrary particle data (fixed-step integrators)."""
import sys, os, time, ctypes
sys.path.insert(0, os.path.dirname(os.path.dirname(os.path.abspath(__file__))))
sys.path.insert(0, os.path.dirname(os.path.abspath(__file__)))
import z3
from fractions import Fraction
from llsym import build
from llsym.harness import *
from llsym.check import *
from llsym.solve import model_value
import persist as P

PID = 'C08'

def run_contract(u):
    rep = Report(); integ, K, eft, direction, case = u['integ'], u['K'], u['eft'], u['dir'], u.get('case', 'generic')
    label = "%s K=%d exact_finish_time=%d dir=%+d %s " % (integ, K, eft, direction, case)
    prover = Prover(t_inproc_ms=10000, use_external=False)
    L = build.layout()
    def run(ctx):
        dom = Real(); I = new_interp(dom, ctx)
        I.loop_bound = 4 * K + 40; I.concrete_env = True
        sim = Sim(I)
        if case != 'noparticles': sim.add(m=1.0)
        sim.set('integrator', L.enumerators['REB_INTEGRATOR_' + integ]); sim.set('gravity', L.enumerators['REB_GRAVITY_NONE'])
        t0, dt, tmax = dom.fresh('t0'), dom.fresh('dt'), dom.fresh('tmax')
        sim.set('t', t0); sim.set('dt', dt); sim.set('exact_finish_time', eft)
        sim.set('dt_last_done', dom.fresh('dt_last_done_before'))      # arbitrary leftover of an earlier integrate() call
        ctx.assume(dt != 0)
        if case == 'noop': ctx.assume(tmax == t0)
        else:
            ctx.assume((tmax > t0) if direction > 0 else (tmax < t0))
            absdt = z3.If(dt >= 0, dt, -dt)
            ctx.assume(z3.If(tmax >= t0, tmax - t0, t0 - tmax) <= K * absdt)          # target within K user steps
        trace = []
        def hb(I_, r):
            trace.append(I_.mem.load(Ptr(r.obj, r.off + L.off('reb_simulation', 't')), F64)); return None
        I.stubs['@verif_heartbeat'] = hb
        sim.set('heartbeat', I.global_ptr('@verif_heartbeat'))
        ret = I.call('@reb_simulation_integrate', [sim.ptr, tmax])
        return I, dom, sim, (t0, dt, tmax), trace, ret
    ex = Explorer(run, max_paths=4000, timeout_ms=3000)
    try: ex.explore()
    except BoundExceeded as e: rep.bound_exceeded.append(label + str(e))
    rep.queries += ex.nqueries; rep.solver_time += ex.qtime
    for ctx, (I, dom, sim, (t0, dt, tmax), trace, ret) in ex.results:
        rep.paths += 1; rep.add_interp(I)
        ob = Obligations(rep, prover, label + "path%d " % rep.paths)
        pc = list(ctx.pc)
        def on_sat(model):
            vals = {k: model_value(model, v) for k, v in (('t0', t0), ('dt', dt), ('tmax', tmax), ('dt_last_done', z3.Real('dt_last_done_before')))}
            ok, detail = native_contract(integ, eft, case, {k: float(v) for k, v in vals.items()})
            return ok, 'C08:contract:%s:eft%d' % (integ, eft), detail, dict(integ=integ, eft=eft, case=case, vals={k: float(v) for k, v in vals.items()})
        tf = dom.z(sim.get('t')); dtf = dom.z(sim.get('dt')); steps = sim.get('steps_done'); status = ret
        sgn = 1 if direction > 0 else -1
        absdt = z3.If(dt >= 0, dt, -dt)
        D = dict(domain='REAL (linear arithmetic)')
        if case == 'noop':
            ob.prove("tmax == t: time unchanged", tf == t0, pc, on_sat=on_sat, **D)
            ob.prove("tmax == t: dt unchanged", dtf == dt, pc, on_sat=on_sat, **D)
            ob.prove("tmax == t: no step taken", steps == 0, pc, on_sat=on_sat, **D)
            ob.prove("tmax == t: status SUCCESS", status == 0 if isinstance(status, int) else status == 0, pc, on_sat=on_sat, **D)
            continue
        if case == 'noparticles':
            ob.prove("N == 0: status NO_PARTICLES", status == L.enumerators['REB_STATUS_NO_PARTICLES'], pc, on_sat=on_sat, **D)
            ob.prove("N == 0: time unchanged", tf == t0, pc, on_sat=on_sat, **D)
            continue
        ob.prove("status SUCCESS", status == 0, pc, on_sat=on_sat, **D)
        if eft == 1:
            ob.prove("exact finish: t == tmax", tf == tmax, pc, on_sat=on_sat, **D)
        else:
            ob.prove("t at or past tmax", sgn * (tf - tmax) >= 0, pc, on_sat=on_sat, **D)
            ob.prove("... by less than one step", sgn * (tf - tmax) < absdt, pc, on_sat=on_sat, **D)
        ob.prove("dt on return is the user's step with the direction's sign", dtf == sgn * absdt, pc, on_sat=on_sat, **D)
        ts = [dom.z(x) for x in trace]
        for a, b in zip(ts, ts[1:]):
            ob.prove("time never moves against the direction of integration", sgn * (b - a) >= 0, pc, on_sat=on_sat, **D)
        n = steps
        if isinstance(n, int):
            delta = sgn * (tmax - t0)
            ob.prove("number of steps is the one implied by dt: (n-1)|dt| < |tmax-t0| <= n|dt|  (n=%d)" % n, z3.And((n - 1) * absdt < delta, delta <= n * absdt), pc, on_sat=on_sat, **D)
            ob.prove("heartbeat called once per step boundary", len(trace) == n + 1, pc, on_sat=on_sat, **D)
        def wit(model):
            vals = {k: float(model_value(model, v)) for k, v in (('t0', t0), ('dt', dt), ('tmax', tmax), ('dt_last_done', z3.Real('dt_last_done_before')))}
            bad, detail = native_contract(integ, eft, case, vals)
            if bad: raise RuntimeError("native run violates the contract on a path whose obligations were discharged: " + detail)
        ob.witness("path condition", pc, replay=wit)
    return rep

_nat = None
def nat():
    global _nat
    if _nat is None: _nat = Native()
    return _nat

def native_contract(integ, eft, case, v):
    N = nat(); L = N.L; ns = N.create()
    try:
        if case != 'noparticles': ns.add(m=1.0)
        ns.set('integrator', L.enumerators['REB_INTEGRATOR_' + integ]); ns.set('gravity', L.enumerators['REB_GRAVITY_NONE'])
        ns.set('t', v['t0']); ns.set('dt', v['dt']); ns.set('exact_finish_time', eft); ns.set('dt_last_done', v.get('dt_last_done', 0.0))
        f = N.lib.reb_simulation_integrate; f.argtypes = [ctypes.c_void_p, ctypes.c_double]; f.restype = ctypes.c_int
        st = f(ns.addr, v['tmax'])
        tf, dtf, n = ns.get('t'), ns.get('dt'), ns.get('steps_done')
        sgn = 1.0 if v['tmax'] >= v['t0'] else -1.0
        bad = []
        if case == 'noop':
            if tf != v['t0'] or dtf != v['dt'] or n != 0: bad.append("no-op violated")
        elif case == 'noparticles':
            if st != L.enumerators['REB_STATUS_NO_PARTICLES'] or tf != v['t0']: bad.append("N==0 exit violated (status %d)" % st)
        else:
            tol = max(1e-12 * abs(v['tmax']), 1e-200)
            if eft == 1 and abs(tf - v['tmax']) > max(tol, 1e-12): bad.append("t=%r not within 1e-12 relative of tmax=%r" % (tf, v['tmax']))
            if eft == 0 and (sgn * (tf - v['tmax']) < -1e-9 * abs(v['dt']) or sgn * (tf - v['tmax']) >= abs(v['dt']) * (1 + 1e-9)): bad.append("t=%r not in [tmax, tmax+|dt|)" % tf)
            if abs(dtf - sgn * abs(v['dt'])) > 1e-12 * abs(v['dt']): bad.append("dt on return %r, expected %r" % (dtf, sgn * abs(v['dt'])))
            if st != 0: bad.append("status %d" % st)
        return bool(bad), "native integrate(t0=%r, dt=%r, tmax=%r, exact_finish_time=%d, %s): %s" % (v['t0'], v['dt'], v['tmax'], eft, integ, '; '.join(bad) or 'contract holds')
    finally:
        ns.free()

def replay(data):
    if data.get('kind') == 'exit_step': return native_exit_step(data['vals'])
    if data.get('kind') == 'split': return native_split(data)
    return native_contract(data['integ'], data['eft'], data['case'], data['vals'])

def run_split(u):
    """one call vs two calls, exact_finish_time=0, concrete schedule, symbolic particle data (UF)"""
    rep = Report(); cfgname = u['cfg']
    label = "split %s t1=%s t2=%s " % (cfgname, u['t1'], u['t2'])
    import c05
    def one(calls):
        dom = UF(); ctx = P.StrictCtx(); I = new_interp(dom, ctx); I.concrete_env = True
        I.stubs['@reb_whfast_kepler_solver'] = c05.kepler_uf_stub(dom)
        cfg = dict(P.CONFIGS[cfgname]); cfg['steps'] = 0; cfg['set'] = {'dt': 0.01}        # default (safe) mode of the integrator
        sim = P.build_engine_state(I, cfg, 2)
        sim.set('exact_finish_time', 0)
        for i in range(2):
            for c in ('x', 'y', 'z', 'vx', 'vy', 'vz', 'm'):
                sim.particle(i).set(c, dom.fresh('p%d_%s' % (i, c)))
        for tm in calls: I.call('@reb_simulation_integrate', [sim.ptr, dom.const(float(tm))])
        return I, dom, sim
    try:
        I1, d1, s1 = one([u['t2']]); I2, d2, s2 = one([u['t1'], u['t2']])
    except P.NeedConcrete as e:
        rep.errors.append(label + "symbolic branch on %r" % (e.names,)); return rep
    rep.paths += 2; rep.add_interp(I1); rep.add_interp(I2)
    ob = Obligations(rep, Prover(t_inproc_ms=10000, use_external=False), label)
    def on_sat(model):
        ok, detail = native_split(dict(cfg=cfgname, t1=u['t1'], t2=u['t2']))
        return ok, 'C08:split:' + cfgname, detail, dict(kind='split', cfg=cfgname, t1=u['t1'], t2=u['t2'])
    for i in range(2):
        for c in ('x', 'y', 'z', 'vx', 'vy', 'vz'):
            a = s1.particle(i).get(c); b = s2.particle(i).get(c)
            ob.prove("particles[%d].%s identical for one call and for two calls" % (i, c), P.vals_equal(d1, a, b), [], on_sat=on_sat, domain='UF')
    ob.prove("t identical", P.vals_equal(d1, s1.get('t'), s2.get('t')), [], on_sat=on_sat, domain='UF')
    ob.prove("steps_done identical", s1.get('steps_done') == s2.get('steps_done'), [], on_sat=on_sat, domain='UF')
    ok, detail = native_split(dict(cfg=cfgname, t1=u['t1'], t2=u['t2'])); rep.replays += 1; rep.witnesses += 1
    if ok: rep.violations.append(dict(key='C08:split:' + cfgname, what=detail, replay=dict(kind='split', cfg=cfgname, t1=u['t1'], t2=u['t2']), obligation=label))
    return rep

def native_split(d):
    N = nat(); f = N.lib.reb_simulation_integrate; f.argtypes = [ctypes.c_void_p, ctypes.c_double]; f.restype = ctypes.c_int
    out = []
    for calls in ([d['t2']], [d['t1'], d['t2']]):
        cfg = dict(P.CONFIGS[d['cfg']]); cfg['steps'] = 0; cfg['set'] = {'dt': 0.01}
        ns = P.build_native_state(N, cfg, 3); ns.set('exact_finish_time', 0)
        for tm in calls: f(ns.addr, float(tm))
        out.append([ns.particle(i).getbits(c) for i in range(3) for c in ('x', 'y', 'z', 'vx', 'vy', 'vz')] + [ns.getbits('t')]); ns.free()
    return out[0] != out[1], "native %s: integrate(%s) vs integrate(%s); integrate(%s): %s" % (d['cfg'], d['t2'], d['t1'], d['t2'], 'bits differ' if out[0] != out[1] else 'bit-identical')

def run_exit_step(u):
    """one call of the real reb_check_exit from an ARBITRARY state in the middle of the last-step protocol (status LAST_STEP, exact
    finishing): arbitrary t, dt, tmax with the next step overshooting.  If it declares SUCCESS the time must be within the relative
    tolerance 1e-12 |tmax| of the target (absolute 1e-12 only for |tmax| < 1e-188, the documented failsafe for tmax == 0); otherwise it
    must schedule exactly the remaining interval."""
    rep = Report(); direction = u['dir']; label = "reb_check_exit in LAST_STEP state dir=%+d " % direction
    L = build.layout(); prover = Prover(t_inproc_ms=10000, use_external=False)
    def run(ctx):
        dom = Real(); I = new_interp(dom, ctx); I.concrete_env = True
        sim = Sim(I); sim.add(m=1.0)
        sim.set('integrator', L.enumerators['REB_INTEGRATOR_LEAPFROG']); sim.set('gravity', L.enumerators['REB_GRAVITY_NONE'])
        t, dt, tmax = dom.fresh('t'), dom.fresh('dt'), dom.fresh('tmax')
        sim.set('t', t); sim.set('dt', dt); sim.set('exact_finish_time', 1); sim.set('status', L.enumerators['REB_STATUS_LAST_STEP'] & 0xffffffff)
        ctx.assume(dt > 0 if direction > 0 else dt < 0)
        ctx.assume(t != tmax)
        ctx.assume((t + dt >= tmax) if direction > 0 else (t + dt <= tmax))       # the next step would overshoot
        lfd = I.mem.alloc(8, 'last_full_dt', 'harness', zero=True)
        ret = I.call('@reb_check_exit', [sim.ptr, tmax, lfd])
        return I, dom, sim, t, dt, tmax, ret
    ex = Explorer(run, max_paths=64, timeout_ms=3000)
    try: ex.explore()
    except BoundExceeded as e: rep.bound_exceeded.append(label + str(e))
    rep.queries += ex.nqueries; rep.solver_time += ex.qtime
    for ctx, (I, dom, sim, t, dt, tmax, ret) in ex.results:
        rep.paths += 1; rep.add_interp(I)
        ob = Obligations(rep, prover, label + "path%d " % rep.paths)
        pc = list(ctx.pc)
        st = sim.get('status'); st = st - (1 << 32) if isinstance(st, int) and st >= (1 << 31) else st
        def on_sat(model):
            vals = {k: float(model_value(model, v)) for k, v in (('t', t), ('dt', dt), ('tmax', tmax))}
            ok, detail = native_exit_step(vals)
            return ok, 'C08:check_exit:last-step-tolerance', detail, dict(kind='exit_step', vals=vals)
        ab = lambda x: z3.If(x >= 0, x, -x)
        tiny = z3.RealVal('1.0001e-188')       # (the code's constants are binary64 roundings of 1e-12 and 1e-200: 1e-4 slack)
        if st == L.enumerators['REB_STATUS_SUCCESS']:
            ob.prove("SUCCESS is only declared within the relative tolerance of the target: |t - tmax| < 1e-12 |tmax| (absolute 1e-12 only if |tmax| < 1e-188)",
                     z3.Or(ab(t - tmax) <= z3.RealVal('1.0001e-12') * ab(tmax), z3.And(ab(tmax) <= tiny, ab(t - tmax) <= z3.RealVal('1.0001e-12'))), pc, on_sat=on_sat, domain='REAL (linear arithmetic)')
        else:
            ob.prove("otherwise the remaining interval is scheduled: dt == tmax - t and the run continues", z3.And(dom.z(sim.get('dt')) == tmax - t, z3.BoolVal(isinstance(ret, int) and ret >= (1 << 31))), pc, on_sat=on_sat, domain='REAL (linear arithmetic)')
        ob.witness("path", pc)
    return rep

def native_exit_step(vals):
    N_ = nat(); L = N_.L; ns = N_.create()
    try:
        ns.add(m=1.0); ns.set('integrator', L.enumerators['REB_INTEGRATOR_LEAPFROG']); ns.set('gravity', L.enumerators['REB_GRAVITY_NONE'])
        ns.set('t', vals['t']); ns.set('dt', vals['dt']); ns.set('exact_finish_time', 1); ns.set('status', L.enumerators['REB_STATUS_LAST_STEP'])
        f = N_.lib.reb_check_exit; f.restype = ctypes.c_int; f.argtypes = [ctypes.c_void_p, ctypes.c_double, ctypes.POINTER(ctypes.c_double)]
        lfd = ctypes.c_double(0.0)
        f(ns.addr, vals['tmax'], ctypes.byref(lfd))
        st = ns.get('status')
        if st == L.enumerators['REB_STATUS_SUCCESS']:
            d = abs(ns.get('t') - vals['tmax']); bad = not (d < 1.0001e-12 * abs(vals['tmax']) or (abs(vals['tmax']) < 1e-188 and d < 1e-12))
            return bad, "native reb_check_exit(t=%r, dt=%r, tmax=%r) in LAST_STEP state declares SUCCESS with |t - tmax| = %.3e (relative %.3e)" % (vals['t'], vals['dt'], vals['tmax'], d, d / abs(vals['tmax']) if vals['tmax'] else float('inf'))
        bad = ns.get('dt') != vals['tmax'] - vals['t']
        return bad, "native reb_check_exit(t=%r, dt=%r, tmax=%r): status %d, dt set to %r" % (vals['t'], vals['dt'], vals['tmax'], st, ns.get('dt'))
    finally:
        ns.free()

def worker(u):
    if u.get('what') == 'exit_step': return run_exit_step(u)
    return run_split(u) if u.get('what') == 'split' else run_contract(u)

def main():
    tier = os.environ.get('VERIF_TIER') or (sys.argv[1] if len(sys.argv) > 1 else 'quick')
    t0 = time.time()
    build.module(); build.layout(); build.build_native()
    K = 3 if tier == 'quick' else 5
    us = []
    for integ in (('NONE', 'LEAPFROG') if tier == 'quick' else ('NONE', 'LEAPFROG', 'WHFAST', 'JANUS', 'SEI', 'SABA', 'EOS')):
        for eft in (0, 1):
            for d in (1, -1):
                us.append(dict(integ=integ, K=K, eft=eft, dir=d))
        us.append(dict(integ=integ, K=K, eft=1, dir=1, case='noop')); us.append(dict(integ=integ, K=K, eft=0, dir=1, case='noop'))
    us.append(dict(integ='LEAPFROG', K=K, eft=1, dir=1, case='noparticles'))
    us.append(dict(what='exit_step', dir=1)); us.append(dict(what='exit_step', dir=-1))
    for cfg in ('leapfrog', 'whfast', 'saba'):
        us.append(dict(what='split', cfg=cfg, t1=0.025, t2=0.05))
        if tier == 'thorough': us.append(dict(what='split', cfg=cfg, t1=0.031, t2=0.1))
    rep = run_units(us, worker)
    code = finish(PID, tier, rep, t0,
        bounds=dict(K_user_steps=K, integrators=sorted({u['integ'] for u in us if 'integ' in u}), directions='both', exact_finish_time='0 and 1'),
        assumptions=['real arithmetic: the 1e-12 tolerance of the exit test is not needed over the reals and t == tmax is demanded exactly', 'dt != 0; the target lies within K user steps',
                     'gravity NONE, one particle (the time/step bookkeeping does not depend on the particle data)', 'split twin: concrete schedule, arbitrary particle data, Kepler solver uninterpreted'],
        outside=['floating-point termination/tolerance of the last-step correction (chain of roundings: not provable with the installed FP solvers, see DESIGN 2.2)', 'adaptive integrators (their step-size control is outside; contract assumed)',
                 'exit conditions other than N == 0 (escape, encounter, collision, user stop)', 'splitting with safe_mode=0 (integrate() synchronises at the end of each call, which is not bit-transparent)', 'K > %d' % K],
        domain_note='REAL (QF_LRA after path splitting); UF for the split twin')
    sys.exit(code)

if __name__ == '__main__':
    main()
