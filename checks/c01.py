"""C01 — integrators converge at their advertised order (the decidable one-step algebra; DESIGN 5/C01).

The statement itself (agreement with the exact solution over a horizon, and the rate) is numerical analysis over whole runs and
is not decided.  Decided here, from the real step code:
 (a) operator words.  The primitive maps of each composition scheme (Kepler / centre-of-mass / interaction / jump steps of
     WHFast and SABA, the shell drifts and interactions of EOS, JANUS' integer drift and kick) are replaced by recording stubs
     and the *real* part1 / part2 / synchronize control code is executed from LLVM IR with a symbolic step dt.  The step becomes
     a word A(a1 dt) B(b1 dt) A(a2 dt) ...  z3 proves (i) every coefficient is linear in dt, sum of drift coefficients = dt and
     sum of kick coefficients = dt, (ii) the word is a palindrome where the scheme is time-symmetric, (iii) the jump step appears
     exactly in democratic-heliocentric / WHDS coordinates with halves summing to dt, and (iv) the advertised (generalised)
     order BY ITS DEFINITION: the product of exponentials is expanded in the free associative algebra on two generators with the
     exact rational values of the code's coefficients and compared, word by word up to the advertised grading, with exp(dt(A+eps B)).
 (b) LEAPFROG (inline loops, no primitives to stub): one real step with a constant symbolic acceleration reproduces
     x + v dt + g dt^2/2, v + g dt exactly.
 (c) MERCURIUS change-over functions L_mercury, L_C4, L_C5: 0 below 0.1 dcrit, 1 above dcrit, within [0,1], non-decreasing."""
import sys, os, time, math, itertools, ctypes
sys.path.insert(0, os.path.dirname(os.path.dirname(os.path.abspath(__file__))))
sys.path.insert(0, os.path.dirname(os.path.abspath(__file__)))
import z3
from fractions import Fraction
from llsym import build
from llsym.harness import *
from llsym.check import *
from llsym.solve import model_value

PID = 'C01'

# advertised orders (docs/integrators.md): generalised order (p1, p2, ...) = error O(eps tau^p1 + eps^2 tau^p2 + ...)
SABA_ORDERS = {'REB_SABA_1': (2, 2), 'REB_SABA_2': (4, 2), 'REB_SABA_3': (6, 2), 'REB_SABA_4': (8, 2), 'REB_SABA_10_4': (10, 4), 'REB_SABA_8_6_4': (8, 6, 4), 'REB_SABA_10_6_4': (10, 6, 4),
               'REB_SABA_H_8_4_4': (8, 4, 4), 'REB_SABA_H_8_6_4': (8, 6, 4), 'REB_SABA_H_10_6_4': (10, 6, 4)}
EOS_ORDERS = {'REB_EOS_LF': (2,), 'REB_EOS_LF4': (4,), 'REB_EOS_LF6': (6,), 'REB_EOS_LF8': (8,), 'REB_EOS_LF4_2': (4, 2), 'REB_EOS_LF8_6_4': (8, 6, 4)}
JANUS_ORDERS = {2: (2,), 4: (4,), 6: (6,), 8: (8,), 10: (10,)}

def keep_fn(order):
    """classical order p = (p,): all words up to length p.  generalised (p1,p2,..): words with k letters B up to length p_k (k>=1); pure-A words always"""
    if len(order) == 1:
        p = order[0]
        return lambda w: len(w) <= p
    def keep(w):
        k = sum(w)
        if k == 0: return len(w) <= order[0] + 1
        if k > len(order): return False
        return len(w) <= order[k - 1]
    return keep

def expand(word, keep):
    """product of exp(c X) over the word [(letter, c)] in the free algebra, truncated by keep (monotone under extension)"""
    P = {(): Fraction(1)}
    for letter, c in word:
        if c == 0: continue
        Q = {}
        for w, coef in P.items():
            m = 0; cur = w; term = coef
            while True:
                Q[cur] = Q.get(cur, 0) + term
                m += 1; cur = cur + (letter,)
                if not keep(cur): break
                term = term * c / m
        P = Q
    return P

def order_obligations(ob, word, order, label, scale=Fraction(1)):
    keep = keep_fn(order)
    P = expand([(l, c / scale) for l, c in word], keep)
    # conditioning: the same expansion with |c| bounds the sensitivity of each word coefficient to a relative perturbation of the
    # tabulated doubles (first order: n * delta * Pabs[w]); the tables carry binary64 roundings (delta = 2^-53), allow 16 of them
    Pabs = expand([(l, abs(c / scale)) for l, c in word], keep)
    worst = 0.0; worst_rel = 0.0; nwords = 0
    for n in range(1, max(order) + 2):
        for w in itertools.product((0, 1), repeat=n):
            if not keep(w): continue
            if len(order) > 1 and sum(w) == 0: continue
            nwords += 1
            want = Fraction(1, math.factorial(n)); got = P.get(w, Fraction(0))
            tol = max(Fraction(1, 10 ** 13) * want, Fraction(16, 2 ** 53) * n * Pabs.get(w, Fraction(0)))
            worst = max(worst, float(abs(got - want) / tol)); worst_rel = max(worst_rel, float(abs(got - want) * math.factorial(n)))
    ob.prove("%s: order conditions %s — %d words of the free algebra agree with exp(tau(A+B)) within the rounding of the tabulated coefficients (worst deviation / tolerance %.3g, worst relative deviation %.2e)" % (label, order, nwords, worst, worst_rel),
             z3.RealVal(repr(worst)) <= 1, [], domain='exact rational expansion of the code\'s coefficients; ground arithmetic')
    return worst

def near(s_, tol='1e-14'):
    return z3.And(z3.RealVal(s_) - 1 <= z3.RealVal(tol), 1 - z3.RealVal(s_) <= z3.RealVal(tol))

def pal(w, tol=Fraction(1, 10 ** 14)):
    """palindrome up to the rounding of the tabulated coefficients"""
    return len(w) == len(w[::-1]) and all(a[0] == b[0] and abs(a[1] - b[1]) <= tol for a, b in zip(w, w[::-1]))

def truth(goal):
    return bool(goal) if isinstance(goal, (bool, int)) else z3.is_true(z3.simplify(goal))

_TWIN = {}
def twin(u):
    """the concrete twin of a unit: the same harness run by the CONCRETE IEEE interpreter (dt = 1.0) on the same IR; returns the
    truth values of the ground conditions in order"""
    k = repr(sorted(u.items(), key=repr))
    if k not in _TWIN: _TWIN[k] = worker(u, conc=True)
    return _TWIN[k]

class Ground:
    """Ground obligations are statements without free variables about the code's own constants and control flow (coefficient
    budgets, palindromes, order conditions).  In the symbolic run each is handed to the prover; a refuted one is replayed by
    re-extracting the word with the concrete interpreter (validated bit-for-bit against the native library on whole steps) and
    re-evaluating the same condition on what that run recorded."""
    def __init__(s, ob, u, conc): s.ob = ob; s.u = u; s.conc = conc; s.n = 0; s.results = []
    def prove(s, name, goal, pc=(), **kw):
        ground = kw.get('domain', '').startswith(('ground', 'exact', 'control'))
        if s.conc:
            if ground: s.results.append((name, truth(goal)))
            return None
        if not ground: return s.ob.prove(name, goal, pc, **kw)
        idx = s.n; s.n += 1
        def on_sat(model, idx=idx, name=name):
            tw = twin(s.u)
            stem = name.split(' (worst')[0].split('worst')[0][:60]
            if idx < len(tw) and tw[idx][0].startswith(stem[:40]) and not tw[idx][1]:
                return True, 'C01:%s:%s' % (s.ob.label.strip(), stem[:60]), "concrete re-execution (dt=1.0) confirms: %s%s does not hold" % (s.ob.label, tw[idx][0]), dict(unit=s.u, index=idx)
            return False, '', 'concrete twin does not show it', None
        return s.ob.prove(name, goal, pc, on_sat=on_sat, **kw)

def is_zero(v):
    return (isinstance(v, (Fraction, float, int)) and v == 0)

class Recorder:
    def __init__(s, dom, dt): s.dom = dom; s.dt = dt; s.word = []; s.extra = []
    def rec(s, letter, arg, extra=None):
        s.word.append((letter, arg))
        if extra is not None: s.extra.append(extra)

def coeffs(ob, rec, dtv, label):
    """prove linearity of every recorded coefficient in dt and return exact rational coefficients (concrete twin: dt = 1.0, the
    recorded doubles are the coefficients)"""
    out = []
    for k, (letter, arg) in enumerate(rec.word):
        if isinstance(arg, (float, int)) and not isinstance(arg, bool): c = Fraction(arg) / (Fraction(dtv) if isinstance(dtv, float) else 1)
        elif isinstance(arg, Fraction): c = arg
        else:
            c1 = z3.simplify(z3.substitute(arg, (dtv, z3.RealVal(1))))
            if not z3.is_rational_value(c1):
                ob.prove("%s: coefficient %d is a constant multiple of dt" % (label, k), False, [], domain='REAL'); return None
            c = Fraction(c1.numerator_as_long(), c1.denominator_as_long())
            ob.prove("%s: coefficient %d of %s is linear in dt (== %s * dt for all dt)" % (label, k, letter, float(c)), arg == z3.RealVal(c) * dtv, [], domain='REAL (linear)')
        out.append((letter, c))
    return out

def merged(word, tol=Fraction(1, 10 ** 15)):
    """adjacent equal letters combine (exp(aX)exp(bX) = exp((a+b)X)); combined coefficients that cancel (to 1e-15, the rounding of
    the tables) drop out, which may bring further equal letters together"""
    out = []
    for l, c in word:
        if c == 0: continue
        if out and out[-1][0] == l:
            out[-1] = (l, out[-1][1] + c)
            if abs(out[-1][1]) <= tol: out.pop()
        else: out.append((l, c))
    return out

def same_word(w1, w2, tol=Fraction(1, 10 ** 13)):
    return len(w1) == len(w2) and all(a[0] == b[0] and abs(a[1] - b[1]) <= tol for a, b in zip(w1, w2))

def base_sim(dom, ctx, integ, sets, N=2, conc=False):
    I = new_interp(dom, ctx); I.concrete_env = True
    L = build.layout(); sim = Sim(I)
    for p in particle_data(N): sim.add(**p)
    sim.set('integrator', L.enumerators['REB_INTEGRATOR_' + integ])
    for k, v in sets.items(): sim.set(k, L.enumerators[v] if isinstance(v, str) else v)
    dt = 1.0 if conc else dom.fresh('dt'); sim.set('dt', dt)
    return I, sim, dt

def particle_data(n):
    ps = [dict(m=1.0)]
    for i in range(1, n): ps.append(dict(m=1e-3, x=1.0 + i, vy=1.0 / (1.0 + i) ** 0.5))
    return ps

NOOP = lambda I, *a: None

def run_wh(u, conc=False):
    """WHFast / SABA: primitives kepler(A), com(C, rides with A), interaction(B), jump(J)"""
    rep = Report(); integ = u['integ']; sets = dict(u['set'])
    if u.get('unsync'): sets['ri_%s.safe_mode' % integ.lower()] = 0
    label = "%s%s %s " % (integ, ' deferred synchronisation' if u.get('unsync') else '', {k.split('.')[-1]: (v.replace('REB_WHFAST_', '').replace('REB_', '') if isinstance(v, str) else v) for k, v in sets.items()})
    dom = Conc() if conc else Real(); ctx = PathCtx()
    I, sim, dt = base_sim(dom, ctx, integ, sets, conc=conc)
    rec = Recorder(dom, dt)
    I.stubs['@reb_whfast_kepler_step'] = lambda I_, r, a: rec.rec('A', a)
    I.stubs['@reb_whfast_com_step'] = lambda I_, r, a: rec.rec('C', a)
    I.stubs['@reb_whfast_interaction_step'] = lambda I_, r, a: rec.rec('B', a)
    JUMPC = {build.layout().enumerators['REB_WHFAST_COORDINATES_DEMOCRATICHELIOCENTRIC'], build.layout().enumerators['REB_WHFAST_COORDINATES_WHDS']}
    def jump(I_, r, a):
        # the real function is a no-op outside democratic-heliocentric / WHDS coordinates (its switch has no other case)
        if sim.get('ri_whfast.coordinates') in JUMPC: rec.rec('J', a)
        return None
    I.stubs['@reb_whfast_jump_step'] = jump
    I.stubs['@reb_simulation_update_acceleration'] = NOOP; I.stubs['@reb_calculate_acceleration'] = NOOP
    I.stubs['@reb_whfast_calculate_jerk'] = lambda I_, r: rec.rec('X', Fraction(0), 'jerk')
    for f in list(I.mod.funcs):
        if f.startswith('@reb_particles_transform_'): I.stubs[f] = NOOP
    try:
        for _ in range(2 if u.get('unsync') else 1): I.call('@reb_simulation_step', [sim.ptr])
        I.call('@reb_simulation_synchronize', [sim.ptr])
    except Exception as e:
        if conc: raise
        rep.errors.append(label + "step raised %r" % (e,)); return rep
    rep.paths += 1; rep.add_interp(I)
    msgs = [m for m in getattr(I, 'messages', []) if m[0] == 'e']
    ob = Ground(Obligations(rep, Prover(t_inproc_ms=10000, use_external=False), label), u, conc)
    if ctx.decisions: rep.errors.append(label + "unexpected symbolic branch")
    if u.get('expect_error'):
        ob.prove("rejected option combination ends in the error path", bool(msgs), [], domain='control'); return ob.results if conc else rep
    ob.prove("accepted option combination raises no error", not msgs, [], domain='control', sample=dict(messages=msgs[:2]))
    cw = coeffs(ob, rec, dt, label)
    if u.get('_word_only'): return cw
    if cw is None: return ob.results if conc else rep
    if u.get('unsync'):
        safe = run_wh(dict(u, unsync=False, _word_only=True), conc)
        keep = lambda w: merged([(l, c) for l, c in w if l in ('A', 'B', 'J')])
        ob.prove("two unsynchronised steps + synchronize apply the same operator word as two synchronised steps", safe is not None and same_word(keep(cw), keep(safe + safe)), [], domain='ground',
                 sample=dict(unsynchronised=[(l, float(c)) for l, c in keep(cw)][:30], synchronised_twice=[(l, float(c)) for l, c in keep(safe + safe)][:30] if safe else None))
        ob.prove("centre-of-mass drift over the two steps == 2 dt", near(sum(c for l, c in cw if l == 'C') / 2), [], domain='ground')
        return ob.results if conc else rep
    A = [c for l, c in cw if l == 'A']; C = [c for l, c in cw if l == 'C']; B = [c for l, c in cw if l == 'B']; J = [c for l, c in cw if l == 'J']
    near1 = lambda s_: z3.And(z3.RealVal(s_) - 1 <= z3.RealVal('1e-14'), 1 - z3.RealVal(s_) <= z3.RealVal('1e-14'))
    ob.prove("sum of Kepler-drift coefficients == dt (to 1e-14)", near1(sum(A)), [], domain='ground', sample=dict(word=[(l, float(c)) for l, c in cw][:40]))
    ob.prove("centre-of-mass drift coefficients sum to dt and each follows a Kepler drift of the same length", z3.And(near1(sum(C)), z3.BoolVal(all(k > 0 and cw[k - 1] == ('A', c_) for k, (l_, c_) in enumerate(cw) if l_ == 'C'))), [], domain='ground')
    pure = 'jerk' not in rec.extra
    if pure: ob.prove("sum of interaction (kick) coefficients == dt (to 1e-14)", near1(sum(B)), [], domain='ground')
    coords = sets.get('ri_whfast.coordinates', 'REB_WHFAST_COORDINATES_JACOBI')
    needs_jump = coords in ('REB_WHFAST_COORDINATES_DEMOCRATICHELIOCENTRIC', 'REB_WHFAST_COORDINATES_WHDS') and integ == 'WHFAST'
    ob.prove("jump step present exactly in democratic-heliocentric / WHDS coordinates" , bool(J) == needs_jump, [], domain='ground')
    if J: ob.prove("jump halves sum to dt", near1(sum(J)), [], domain='ground')
    w = merged([(l, c) for l, c in cw if l in ('A', 'B', 'J')])
    if u.get('symmetric', True) and not sets.get('ri_whfast.corrector') and not str(sets.get('ri_whfast.kernel', '')).endswith('COMPOSITION'):
        ob.prove("the step (after synchronisation) is a palindrome", pal(w), [], domain='ground', sample=dict(merged=[(l, float(c)) for l, c in w][:30]))
    if u.get('order') and pure and not J:
        order_obligations(ob, [(0 if l == 'A' else 1, c) for l, c in w if l in ('A', 'B')], u['order'], label)
    return ob.results if conc else rep

def run_eos(u, conc=False):
    rep = Report(); phi0, phi1, n = u['phi0'], u['phi1'], u['n']
    label = "EOS%s phi0=%s phi1=%s n=%d " % (' deferred synchronisation' if u.get('unsync') else '', phi0.replace('REB_EOS_', ''), phi1.replace('REB_EOS_', ''), n)
    dom = Conc() if conc else Real(); ctx = PathCtx()
    sets0 = {'ri_eos.phi0': phi0, 'ri_eos.phi1': phi1, 'ri_eos.n': n}
    if u.get('unsync'): sets0['ri_eos.safe_mode'] = 0
    I, sim, dt = base_sim(dom, ctx, 'EOS', sets0, conc=conc)
    ob = Ground(Obligations(rep, Prover(t_inproc_ms=10000, use_external=False), label), u, conc)
    # outer word: drift_shell0 / interaction_shell0 stubbed
    rec = Recorder(dom, dt)
    I.stubs['@reb_integrator_eos_drift_shell0'] = lambda I_, r, a: rec.rec('A', a)
    I.stubs['@reb_integrator_eos_interaction_shell0'] = lambda I_, r, y, v: rec.rec('B', y, None if is_zero(v) else 'modified')
    I.stubs['@reb_simulation_update_acceleration'] = NOOP; I.stubs['@reb_calculate_acceleration'] = NOOP
    for _ in range(2 if u.get('unsync') else 1): I.call('@reb_simulation_step', [sim.ptr])
    I.call('@reb_simulation_synchronize', [sim.ptr])
    rep.paths += 1; rep.add_interp(I)
    cw = coeffs(ob, rec, dt, label + "outer")
    if u.get('_word_only'): return cw
    if u.get('unsync'):
        safe = run_eos(dict(u, unsync=False, _word_only=True), conc)
        ob.prove("two unsynchronised steps + synchronize apply the same operator word as two synchronised steps", cw is not None and safe is not None and same_word(merged(cw), merged(safe + safe)), [], domain='ground',
                 sample=dict(unsynchronised=[(l, float(c)) for l, c in merged(cw or [])][:30], synchronised_twice=[(l, float(c)) for l, c in merged((safe or []) * 2)][:30]))
        return ob.results if conc else rep
    if cw is not None:
        processed = phi0 in ('REB_EOS_PLF7_6_4', 'REB_EOS_PMLF4', 'REB_EOS_PMLF6')
        w = merged(cw)
        if not processed:
            ob.prove("outer: sum of drift coefficients == dt", near(sum(c for l, c in cw if l == 'A')), [], domain='ground', sample=dict(word=[(l, float(c)) for l, c in w][:40]))
            ob.prove("outer: sum of interaction coefficients == dt", near(sum(c for l, c in cw if l == 'B')), [], domain='ground')
            ob.prove("outer: palindrome", pal(w), [], domain='ground')
            if phi0 in EOS_ORDERS and 'modified' not in rec.extra:
                order_obligations(ob, [(0 if l == 'A' else 1, c) for l, c in w], EOS_ORDERS[phi0], label + "outer")
        else:
            # processed schemes: pre/post-processors cancel in the drift/kick budgets (net advance dt)
            ob.prove("outer (processed): net drift == dt and net kick == dt", z3.And(near(sum(c for l, c in cw if l == 'A')), near(sum(c for l, c in cw if l == 'B'))), [], domain='ground')
    # inner word: the real drift_shell0 with drift_shell1 / interaction_shell1 stubbed
    dom2 = Conc() if conc else Real(); ctx2 = PathCtx()
    I2, sim2, dt2 = base_sim(dom2, ctx2, 'EOS', {'ri_eos.phi0': phi0, 'ri_eos.phi1': phi1, 'ri_eos.n': n}, conc=conc)
    rec2 = Recorder(dom2, dt2)
    I2.stubs['@reb_integrator_eos_drift_shell1'] = lambda I_, r, a: rec2.rec('A', a)
    I2.stubs['@reb_integrator_eos_interaction_shell1'] = lambda I_, r, y, v: rec2.rec('B', y, None if is_zero(v) else 'modified')
    I2.call('@reb_integrator_eos_drift_shell0', [sim2.ptr, dt2])
    rep.paths += 1; rep.add_interp(I2)
    cw2 = coeffs(ob, rec2, dt2, label + "inner")
    if cw2 is not None and phi1 not in ('REB_EOS_PLF7_6_4', 'REB_EOS_PMLF4', 'REB_EOS_PMLF6'):
        w2 = merged(cw2)
        ob.prove("inner: %d substeps advance the inner drift by dt" % n, near(sum(c for l, c in cw2 if l == 'A')), [], domain='ground', sample=dict(word=[(l, float(c)) for l, c in w2][:40]))
        ob.prove("inner: interaction coefficients sum to dt", near(sum(c for l, c in cw2 if l == 'B')), [], domain='ground')
        ob.prove("inner: palindrome", pal(w2), [], domain='ground')
        if phi1 in EOS_ORDERS and 'modified' not in rec2.extra and n == 1:
            order_obligations(ob, [(0 if l == 'A' else 1, c) for l, c in w2], EOS_ORDERS[phi1], label + "inner")
    elif cw2 is not None:
        # processed inner schemes: pre- and post-processor cancel in the budgets, the n substeps still advance the inner flow by dt
        ob.prove("inner (processed): %d substeps give net drift == dt and net kick == dt" % n, z3.And(near(sum(c for l, c in cw2 if l == 'A')), near(sum(c for l, c in cw2 if l == 'B'))), [], domain='ground')
    return ob.results if conc else rep

def run_janus(u, conc=False):
    rep = Report(); order = u['order']
    label = "JANUS order %d " % order
    dom = Conc() if conc else Real(); ctx = PathCtx()
    I, sim, dt = base_sim(dom, ctx, 'JANUS', {'ri_janus.order': order}, conc=conc)
    rec = Recorder(dom, dt)
    I.stubs['@drift'] = lambda I_, r, a, sp, sv: rec.rec('A', a)
    I.stubs['@kick'] = lambda I_, r, a, sv: rec.rec('B', a)
    I.stubs['@to_int'] = NOOP; I.stubs['@to_double'] = NOOP; I.stubs['@reb_simulation_update_acceleration'] = NOOP; I.stubs['@reb_calculate_acceleration'] = NOOP
    I.call('@reb_simulation_step', [sim.ptr])
    rep.paths += 1; rep.add_interp(I)
    ob = Ground(Obligations(rep, Prover(t_inproc_ms=10000, use_external=False), label), u, conc)
    cw = coeffs(ob, rec, dt, label)
    if cw is None: return ob.results if conc else rep
    w = merged(cw)
    ob.prove("sum of drift coefficients == dt", near(sum(c for l, c in cw if l == 'A')), [], domain='ground', sample=dict(word=[(l, float(c)) for l, c in w][:70]))
    ob.prove("sum of kick coefficients == dt", near(sum(c for l, c in cw if l == 'B')), [], domain='ground')
    ob.prove("palindrome (time-symmetric)", pal(w), [], domain='ground')
    order_obligations(ob, [(0 if l == 'A' else 1, c) for l, c in w], JANUS_ORDERS[order], label)
    return ob.results if conc else rep

_nat = None
def nat():
    global _nat
    if _nat is None: _nat = Native()
    return _nat

def native_leapfrog(x, v, g, dt):
    """one native LEAPFROG step of a single particle under a constant acceleration (additional_forces callback, gravity none)"""
    N_ = nat(); L = N_.L; ns = N_.create()
    try:
        ns.add(m=1.0, x=x[0], y=x[1], z=x[2], vx=v[0], vy=v[1], vz=v[2])
        ns.set('integrator', L.enumerators['REB_INTEGRATOR_LEAPFROG']); ns.set('gravity', L.enumerators['REB_GRAVITY_NONE']); ns.set('dt', dt)
        def force(r):
            p = NSim(N_, r).particle(0)
            for a, gv in zip(('ax', 'ay', 'az'), g): p.set(a, p.get(a) + gv)
        cb = ctypes.CFUNCTYPE(None, ctypes.c_void_p)(force)
        ns.set('additional_forces', ctypes.cast(cb, ctypes.c_void_p).value)
        ns.call('reb_simulation_step')
        bad = []
        for k, c in enumerate('xyz'):
            wx = Fraction(x[k]) + Fraction(v[k]) * Fraction(dt) + Fraction(g[k]) * Fraction(dt) ** 2 / 2; wv = Fraction(v[k]) + Fraction(g[k]) * Fraction(dt)
            sx = abs(Fraction(x[k])) + abs(Fraction(v[k]) * Fraction(dt)) + abs(Fraction(g[k]) * Fraction(dt) ** 2); sv = abs(Fraction(v[k])) + abs(Fraction(g[k]) * Fraction(dt))
            gx, gv_ = ns.particle(0).get(c), ns.particle(0).get('v' + c)
            if abs(Fraction(gx) - wx) > Fraction(1, 10 ** 13) * sx + Fraction(1, 10 ** 300): bad.append((c, gx, float(wx)))
            if abs(Fraction(gv_) - wv) > Fraction(1, 10 ** 13) * sv + Fraction(1, 10 ** 300): bad.append(('v' + c, gv_, float(wv)))
        if abs(ns.get('t') - dt) > 1e-15 * abs(dt): bad.append(('t', ns.get('t'), dt))
        return bool(bad), "native LEAPFROG step x=%r v=%r g=%r dt=%r: %s" % (x, v, g, dt, ("differs from x+v dt+g dt^2/2, v+g dt: %r" % bad) if bad else "matches the second-order update")
    finally:
        ns.free()

def native_changeover(fn, d, dc, claim):
    f = nat().fn(fn, ctypes.c_double, [ctypes.c_void_p, ctypes.c_double, ctypes.c_double])
    Lv = f(None, d, dc)
    if claim == 'range': bad = not (0.0 <= Lv <= 1.0)
    elif claim == 'low': bad = d <= dc / 10 and Lv > 1e-12
    elif claim == 'high': bad = d >= dc and Lv < 1 - 1e-12
    else:
        h = 1e-4 * dc; bad = f(None, d + h, dc) < Lv - 1e-14 or Lv < f(None, max(d - h, 0.0), dc) - 1e-14
    return bad, "native %s(d=%r, dcrit=%r) = %r: claim '%s' %s" % (fn, d, dc, Lv, claim, 'violated' if bad else 'holds')

def fl(model, t):
    v = model_value(model, t)
    return float(v) if v is not None else 0.0

def run_leapfrog(u):
    rep = Report(); rep.paths = 1
    dom = Real(); ctx = PathCtx()
    I, sim, dt = base_sim(dom, ctx, 'LEAPFROG', {}, N=1)
    g = [dom.fresh('g' + a) for a in 'xyz']
    def acc(I_, r):
        p = sim.particle(0)
        for a, v in zip(('ax', 'ay', 'az'), g): p.set(a, v)
        return None
    I.stubs['@reb_simulation_update_acceleration'] = acc; I.stubs['@reb_calculate_acceleration'] = acc
    X = [dom.fresh(c) for c in ('x', 'y', 'z')]; V = [dom.fresh(c) for c in ('vx', 'vy', 'vz')]
    for c, v in zip(('x', 'y', 'z', 'vx', 'vy', 'vz'), X + V): sim.particle(0).set(c, v)
    I.call('@reb_simulation_step', [sim.ptr]); rep.add_interp(I)
    ob = Obligations(rep, Prover(t_inproc_ms=10000, use_external=False), 'LEAPFROG ')
    def on_sat(model):
        x = [fl(model, t) for t in X]; v = [fl(model, t) for t in V]; gg = [fl(model, t) for t in g]; dtv = fl(model, dt) or 0.5
        # the model only has to make one polynomial identity fail; unconstrained symbols default to 0 — use generic values for those
        x = [a or 0.3 + 0.1 * k for k, a in enumerate(x)]; v = [a or 0.7 - 0.2 * k for k, a in enumerate(v)]; gg = [a or 1.3 + 0.4 * k for k, a in enumerate(gg)]
        ok, detail = native_leapfrog(x, v, gg, dtv)
        return ok, 'C01:leapfrog', detail, dict(kind='leapfrog', x=x, v=v, g=gg, dt=dtv)
    for k, c in enumerate(('x', 'y', 'z')):
        ob.prove("x_%s(dt) == x + v dt + g dt^2/2 (exact for constant acceleration: second order, drift-kick-drift with halves)" % c, dom.z(sim.particle(0).get(c)) == X[k] + V[k] * dt + g[k] * dt * dt / 2, [], on_sat=on_sat, domain='REAL')
        ob.prove("v_%s(dt) == v + g dt" % c, dom.z(sim.particle(0).get('v' + c)) == V[k] + g[k] * dt, [], on_sat=on_sat, domain='REAL')
    ob.prove("t advances by dt", dom.z(sim.get('t')) == dt, [], on_sat=on_sat, domain='REAL')
    # reachability / agreement witness: the native library on generic values
    bad, detail = native_leapfrog([0.3, -0.2, 0.9], [0.5, 0.1, -0.7], [1.5, -2.0, 0.25], 0.37); rep.replays += 1
    if bad: rep.violations.append(dict(key='C01:leapfrog', what=detail, replay=dict(kind='leapfrog', x=[0.3, -0.2, 0.9], v=[0.5, 0.1, -0.7], g=[1.5, -2.0, 0.25], dt=0.37), obligation='LEAPFROG native twin'))
    else: rep.witnesses += 1
    return rep

def run_jerk_homogeneity(u):
    """the analytic jerk of the modified-kick kernel is linear in G (dimensional analysis: every term is G x mass x acceleration /
    length^3): for arbitrary positions, masses and accelerations, jerk(G = g) == g * jerk(G = 1).  A term that loses or gains a
    factor G makes the scheme depend on the unit system and destroys the cancellation the modified kick exists for."""
    rep = Report(); N = u['N']; label = "whfast jerk homogeneity in G N=%d " % N
    L = build.layout(); psz = L.structs['reb_particle']['size']
    dom = Real(); ctx = PathCtx(); I = new_interp(dom, ctx); I.concrete_env = True
    sim = Sim(I)
    for i in range(N): sim.add(m=1.0)
    V = {}
    for i in range(N):
        for c in ('x', 'y', 'z', 'ax', 'ay', 'az', 'm'):
            V[(i, c)] = dom.fresh('%s%d' % (c, i)); sim.particle(i).set(c, V[(i, c)])
        ctx.assume(V[(i, 'm')] > 0)
    g = dom.fresh('G'); ctx.assume(g > 0)
    pj = I.mem.alloc(psz * N, 'p_jh', 'heap', zero=True); sim.set('ri_whfast.p_jh', pj); sim.set('ri_whfast.N_allocated', N)
    def jerk(Gv):
        sim.set('G', Gv)
        I.call('@reb_whfast_calculate_jerk', [sim.ptr])
        return [[dom.z(SimView(I, Ptr(pj.obj, pj.off + i * psz), 'reb_particle').get(a)) for a in ('ax', 'ay', 'az')] for i in range(N)]
    Jg = jerk(g); J1 = jerk(Fraction(1))
    rep.paths += 1; rep.add_interp(I)
    ob = Obligations(rep, Prover(t_inproc_ms=20000, use_external=True, t_ext_s=60), label)
    assum = list(ctx.pc) + [b != 0 for b in dom.divs]
    def on_sat(model):
        vals = {"%s%d" % (c, i): fl(model, t) for (i, c), t in V.items()}; vals['G'] = fl(model, g) or 3.0
        ok, detail = native_jerk_homogeneity(N, vals)
        return ok, 'C01:jerk:homogeneity', detail, dict(kind='jerk_homogeneity', N=N, vals=vals)
    for i in range(N):
        for k, a in enumerate('xyz'):
            ob.prove("jerk[%d].%s(G) == G * jerk[%d].%s(1)" % (i, a, i, a), Jg[i][k] == g * J1[i][k], assum, axioms=dom.axioms, on_sat=on_sat, domain='REAL')
    ob.witness("inputs", assum, axioms=dom.axioms)
    bad, detail = native_jerk_homogeneity(N, None); rep.replays += 1
    if bad: rep.violations.append(dict(key='C01:jerk:homogeneity', what=detail, replay=dict(kind='jerk_homogeneity', N=N, vals=None), obligation=label + 'native twin'))
    return rep

def native_jerk_homogeneity(N, vals):
    import random
    N_ = nat(); L = N_.L; rnd = random.Random(9)
    if not vals or any(abs(v) > 1e6 or v != v for v in vals.values()):
        vals = {"%s%d" % (c, i): rnd.uniform(-1, 1) + (3.0 * i if c == 'x' else 0.0) for i in range(N) for c in ('x', 'y', 'z', 'ax', 'ay', 'az')}
        for i in range(N): vals['m%d' % i] = rnd.uniform(0.2, 2.0)
        vals['G'] = 39.47
    ns = N_.create()
    try:
        for i in range(N): ns.add(m=vals['m%d' % i], x=3.0 * i + 1, vy=0.3)
        ns.set('integrator', L.enumerators['REB_INTEGRATOR_WHFAST']); ns.set('ri_whfast.kernel', L.enumerators['REB_WHFAST_KERNEL_MODIFIEDKICK']); ns.set('dt', 1e-3)
        ns.call('reb_simulation_step')                     # allocates the Jacobi buffer the jerk is written to
        out = []
        for Gv in (vals['G'], 1.0):
            for i in range(N):
                for c in ('x', 'y', 'z', 'ax', 'ay', 'az'): ns.particle(i).set(c, vals['%s%d' % (c, i)])
            ns.set('G', Gv); ns.call('reb_whfast_calculate_jerk')
            pj = ns.get('ri_whfast.p_jh')
            out.append([[NView(N_, pj + i * N_.psize, 'reb_particle').get(a) for a in ('ax', 'ay', 'az')] for i in range(N)])
        sc = max(abs(x) for r_ in out[0] for x in r_) + 1e-300
        worst = max(abs(a - vals['G'] * b) for ra, rb in zip(out[0], out[1]) for a, b in zip(ra, rb)) / sc
        return worst > 1e-9, "native reb_whfast_calculate_jerk: jerk(G=%r) vs G * jerk(G=1): relative difference %.2e" % (vals['G'], worst)
    finally:
        ns.free()

def run_changeover(u):
    rep = Report(); fn = u['fn']
    label = "%s " % fn
    prover = Prover(t_inproc_ms=15000, use_external=True, t_ext_s=30)
    def run(ctx):
        dom = Real(); I = new_interp(dom, ctx)
        d, dc = dom.fresh('d'), dom.fresh('dcrit'); ctx.assume(dc > 0); ctx.assume(d >= 0)
        r = I.call('@' + fn, [NULL, d, dc])
        return I, dom, d, dc, dom.z(r)
    ex = Explorer(run, max_paths=16, timeout_ms=3000); ex.explore()
    from c16 import Deriv
    for ctx, (I, dom, d, dc, L_) in ex.results:
        rep.paths += 1; rep.add_interp(I)
        ob = Obligations(rep, prover, label + "path%d " % rep.paths)
        pc = list(ctx.pc) + [b != 0 for b in dom.divs]
        def mk(claim, d=d, dc=dc):
            def on_sat(model):
                dv, dcv = fl(model, d), fl(model, dc)
                ok, detail = native_changeover(fn, dv, dcv, claim)
                return ok, 'C01:%s:%s' % (fn, claim), detail, dict(kind='changeover', fn=fn, d=dv, dcrit=dcv, claim=claim)
            return on_sat
        ob.prove("0 <= L <= 1", z3.And(L_ >= 0, L_ <= 1), pc, axioms=dom.axioms, on_sat=mk('range'), domain='REAL')
        # 0.1 and 0.9 are the code's doubles (their sum is not exactly 1): the plateaus are reached to 1e-12, not exactly
        ob.prove("L <= 1e-12 for d <= 0.1 dcrit", z3.Implies(d <= dc / 10, L_ <= z3.RealVal('1e-12')), pc, axioms=dom.axioms, on_sat=mk('low'), domain='REAL')
        ob.prove("L >= 1 - 1e-12 for d >= dcrit", z3.Implies(d >= dc, L_ >= 1 - z3.RealVal('1e-12')), pc, axioms=dom.axioms, on_sat=mk('high'), domain='REAL')
        # non-decreasing on every branch: dL/dd >= 0 (differentiated term of the code's own polynomial); together with the plateau
        # obligations above and L in [0,1] this gives monotonicity across the branch boundaries to 1e-12
        dL = Deriv(dom, [(d, z3.RealVal(1))]).d(L_) if z3.is_expr(L_) else z3.RealVal(0)
        ob.prove("dL/dd >= 0 on this branch", dL >= 0, pc, axioms=dom.axioms, on_sat=mk('slope'), domain='REAL')
        def wit(model, d=d, dc=dc):
            nat().fn(fn, ctypes.c_double, [ctypes.c_void_p, ctypes.c_double, ctypes.c_double])(None, fl(model, d), fl(model, dc))
        ob.witness("path", pc, axioms=dom.axioms, replay=wit)
    # monotone: two evaluations
    def run2(ctx):
        dom = Real(); I = new_interp(dom, ctx)
        d1, d2, dc = dom.fresh('d1'), dom.fresh('d2'), dom.fresh('dcrit'); ctx.assume(dc > 0); ctx.assume(z3.And(d1 >= 0, d2 >= d1))
        return I, dom, dom.z(I.call('@' + fn, [NULL, d1, dc])), dom.z(I.call('@' + fn, [NULL, d2, dc]))
    ex2 = Explorer(run2, max_paths=64, timeout_ms=3000)
    if u.get('two_point'): ex2.explore()
    for ctx, (I, dom, L1, L2) in ex2.results:
        rep.paths += 1; rep.add_interp(I)
        ob = Obligations(rep, prover, label + "monotone path%d " % rep.paths)
        ob.prove("d1 <= d2 => L(d1) <= L(d2)", L1 <= L2, list(ctx.pc) + [b != 0 for b in dom.divs], axioms=dom.axioms, domain='REAL')
    return rep

def worker(u, conc=False):
    if conc: return {'wh': run_wh, 'eos': run_eos, 'janus': run_janus}[u['what']](u, conc=True)
    return {'wh': run_wh, 'eos': run_eos, 'janus': run_janus, 'leapfrog': run_leapfrog, 'changeover': run_changeover, 'jerk_homogeneity': run_jerk_homogeneity}[u['what']](u)

def replay(data):
    """replay of a ground obligation: the concrete twin of the unit"""
    if 'unit' in data:
        tw = twin(data['unit']); i = data['index']
        bad = i < len(tw) and not tw[i][1]
        return bad, "concrete re-execution: %s %s" % (tw[i][0] if i < len(tw) else '?', 'does not hold' if bad else 'holds')
    if data.get('kind') == 'jerk_homogeneity': return native_jerk_homogeneity(data['N'], data['vals'])
    if data.get('kind') == 'leapfrog': return native_leapfrog(data['x'], data['v'], data['g'], data['dt'])
    if data.get('kind') == 'changeover': return native_changeover(data['fn'], data['d'], data['dcrit'], data['claim'])
    raise ValueError(data)

def main():
    tier = os.environ.get('VERIF_TIER') or (sys.argv[1] if len(sys.argv) > 1 else 'quick')
    t0 = time.time()
    build.module(); build.layout(); build.build_native()
    us = [dict(what='leapfrog')]
    coords = ['JACOBI', 'DEMOCRATICHELIOCENTRIC', 'WHDS', 'BARYCENTRIC']
    kernels = ['DEFAULT', 'MODIFIEDKICK', 'COMPOSITION', 'LAZY']
    correctors = [0, 3, 5, 7, 11, 17]
    for co in coords:
        for ke in kernels:
            for cor in (correctors if tier == 'thorough' or (ke == 'DEFAULT' and co == 'JACOBI') else ([0, 11] if (ke == 'DEFAULT' and co == 'BARYCENTRIC') else [0])):
                sets = {'ri_whfast.coordinates': 'REB_WHFAST_COORDINATES_' + co, 'ri_whfast.kernel': 'REB_WHFAST_KERNEL_' + ke, 'ri_whfast.corrector': cor}
                # documented restrictions: non-default kernels and correctors need Jacobi coordinates
                # documented restrictions (reb_integrator_whfast_init): non-default kernels need Jacobi coordinates, correctors Jacobi or barycentric
                bad = (co != 'JACOBI' and ke != 'DEFAULT') or (cor != 0 and co not in ('JACOBI', 'BARYCENTRIC'))
                order = None
                if co in ('JACOBI', 'BARYCENTRIC') and ke == 'DEFAULT': order = (cor if cor else 2, 2)
                if co == 'JACOBI' and ke == 'COMPOSITION' and cor == 0: order = None
                us.append(dict(what='wh', integ='WHFAST', set=sets, expect_error=bad, order=order))
    for ty, order in SABA_ORDERS.items():
        us.append(dict(what='wh', integ='SABA', set={'ri_saba.type': ty}, order=order))
    for ty in ('REB_SABA_CM_1', 'REB_SABA_CM_2', 'REB_SABA_CL_1', 'REB_SABA_CL_4'):
        us.append(dict(what='wh', integ='SABA', set={'ri_saba.type': ty}, order=None))
    eos_types = ['REB_EOS_LF', 'REB_EOS_LF4', 'REB_EOS_LF6', 'REB_EOS_LF8', 'REB_EOS_LF4_2', 'REB_EOS_LF8_6_4', 'REB_EOS_PLF7_6_4', 'REB_EOS_PMLF4', 'REB_EOS_PMLF6']
    for p0 in eos_types:
        for p1 in (eos_types if tier == 'thorough' else ['REB_EOS_LF', 'REB_EOS_LF4']):
            for n in ((1, 2) if tier == 'quick' else (1, 2, 3)):
                if tier == 'quick' and n == 2 and p1 != 'REB_EOS_LF': continue
                us.append(dict(what='eos', phi0=p0, phi1=p1, n=n))
    if tier == 'quick':
        for p1 in ('REB_EOS_PLF7_6_4', 'REB_EOS_PMLF4', 'REB_EOS_PMLF6', 'REB_EOS_LF8_6_4', 'REB_EOS_LF4_2'): us.append(dict(what='eos', phi0='REB_EOS_LF', phi1=p1, n=2))
    # deferred synchronisation (safe_mode = 0): two steps + synchronize must be the same word as two synchronised steps
    for co in coords:
        us.append(dict(what='wh', integ='WHFAST', set={'ri_whfast.coordinates': 'REB_WHFAST_COORDINATES_' + co}, unsync=True))
    for ke in kernels[1:]: us.append(dict(what='wh', integ='WHFAST', set={'ri_whfast.kernel': 'REB_WHFAST_KERNEL_' + ke}, unsync=True))
    for cor in ((11,) if tier == 'quick' else correctors[1:]): us.append(dict(what='wh', integ='WHFAST', set={'ri_whfast.corrector': cor}, unsync=True))
    for ty in list(SABA_ORDERS) + ['REB_SABA_CM_1', 'REB_SABA_CL_4']: us.append(dict(what='wh', integ='SABA', set={'ri_saba.type': ty}, unsync=True))
    for p0 in eos_types: us.append(dict(what='eos', phi0=p0, phi1='REB_EOS_LF', n=1, unsync=True))
    us.append(dict(what='jerk_homogeneity', N=3))
    if tier == 'thorough': us.append(dict(what='jerk_homogeneity', N=4))
    for o in (2, 4, 6, 8, 10): us.append(dict(what='janus', order=o))
    for fn in ('reb_integrator_mercurius_L_mercury', 'reb_integrator_mercurius_L_C4', 'reb_integrator_mercurius_L_C5'): us.append(dict(what='changeover', fn=fn, two_point=(fn != 'reb_integrator_mercurius_L_C5')))
    rep = run_units(us, worker)
    code = finish(PID, tier, rep, t0,
        bounds=dict(units=len(us), whfast='4 coordinate systems x 4 kernels x correctors {0,3,5,7,11,17} (accepted combinations; rejected ones must hit the error path)', saba='%d types' % (len(SABA_ORDERS) + 4), eos='phi0 x phi1 x n', janus='orders 2..10'),
        assumptions=['advertised orders are those of docs/integrators.md, as a table in the harness', 'one step with symbolic dt; the primitive maps are recording stubs (their own correctness is C03/C02/C12)',
                     'tolerance on each expansion coefficient: max(1e-13 relative, 16 ulp * word length * conditioning of that coefficient) — the tables are binary64 roundings of the published constants', 'generalised order (p1,p2,...): words with k letters B agree up to length p_k'],
        outside=['THE HEADLINE CLAIM: convergence to the true N-body solution over a horizon and the rate at which the error shrinks — numerical analysis over whole runs, not decided',
                 'modified-kick / lazy kernels, SABA CM/CL correctors and processed EOS schemes are not words in two generators: only coefficient budgets and symmetry are checked for them',
                 'IAS15, BS (adaptive, extrapolation), MERCURIUS/TRACE switching logic beyond the change-over functions, SEI, WHFast512, user-defined ODEs'],
        domain_note='REAL for word extraction (linear in dt); exact rational free-algebra expansion for the order conditions')
    sys.exit(code)

if __name__ == '__main__':
    main()
