"""C13 — collisions are detected completely and resolved conservatively (DESIGN 5/C13).

REAL domain with path forking, real code from LLVM IR.
 (A) detection == specification: reb_collision_search (DIRECT, LINE) with a recording resolve stub, symbolic positions,
     velocities, radii >= 0 (very unequal allowed), dt_last_done: on every path the set of pairs handed to the resolver is
     exactly the set the statement defines (overlapping while approaching; for LINE: the straight-line paths over the last
     step came within the sum of the radii — proved in both directions, the 'not reported' direction with a universally
     quantified time parameter).
 (B) resolution in any order: with the built-in merge resolver and rand_r an arbitrary draw (the shuffle is decided by the
     solver), chains and clusters of simultaneous overlaps among 3 particles: on every path total mass and momentum are
     preserved as identities in independent symbolic masses/velocities (no particle lost, duplicated or merged twice), N drops
     by the number of mergers, and the memory model sees no out-of-bounds access."""
import sys, os, time, ctypes, itertools, math
sys.path.insert(0, os.path.dirname(os.path.dirname(os.path.abspath(__file__))))
import z3
from llsym import build
from llsym.harness import *
from llsym.check import *
from llsym.solve import model_value

PID = 'C13'
C6 = ['x', 'y', 'z', 'vx', 'vy', 'vz']

def setup(ctx, N, mode, symbolic=True, concrete_rand=True, sep=None, xfixed=None, rfixed=None, rorder=None):
    dom = Real(); I = new_interp(dom, ctx); I.concrete_env = concrete_rand
    L = build.layout(); sim = Sim(I)
    for i in range(N): sim.add(m=1.0)
    sim.set('collision', L.enumerators['REB_COLLISION_' + mode])
    V = {}
    for i in range(N):
        for c in C6 + ['r', 'm']:
            V[(i, c)] = dom.fresh('%s%d' % (c, i)); sim.particle(i).set(c, V[(i, c)])
        ctx.assume(V[(i, 'r')] >= 0); ctx.assume(V[(i, 'm')] > 0)
    if mode == 'TREE' and rfixed is not None:
        from fractions import Fraction as _F2
        for i in range(N): V[(i, 'r')] = z3.RealVal(_F2(rfixed[i])); sim.particle(i).set('r', _F2(rfixed[i]))
    if mode == 'TREE':
        # one root box of size 8; y and z concrete (distinct, off the cell boundaries), x symbolic inside the box with a minimum
        # separation that bounds the depth of the tree
        from fractions import Fraction as _F
        I.loop_bound = 64
        I.call('@reb_simulation_configure_box', [sim.ptr, _F(8), 1, 1, 1])
        I.stubs['@reb_get_rootbox_for_particle'] = lambda I_, r, p: 0
        for i in range(N):
            for c, v in (('y', _F(1, 7) + _F(i, 16)), ('z', _F(1, 5))):
                V[(i, c)] = z3.RealVal(v); sim.particle(i).set(c, v)
            if xfixed is not None:
                V[(i, 'x')] = z3.RealVal(_F(xfixed[i])); sim.particle(i).set('x', _F(xfixed[i]))          # concrete tree structure, symbolic radii and velocities
                continue
            ctx.assume(z3.And(V[(i, 'x')] > -4, V[(i, 'x')] < 4))
            for j in range(i):
                d_ = V[(i, 'x')] - V[(j, 'x')]; ctx.assume(z3.Or(d_ >= sep, -d_ >= sep))
        for i in range(N): I.call('@reb_tree_add_particle_to_tree', [sim.ptr, i])
        # reb_simulation_add maintains the largest and second largest radius (used by the tree search to prune): same update rule here
        order = rorder if rorder is not None else list(range(N))
        if rfixed is None and symbolic:
            # radii ordered as given (one unit per ordering): r[order[0]] >= r[order[1]] >= ...  -> largest and second largest are plain symbols
            for a_, b_ in zip(order, order[1:]): ctx.assume(V[(a_, 'r')] >= V[(b_, 'r')])
            m0 = V[(order[0], 'r')]; m1 = V[(order[1], 'r')] if N > 1 else z3.RealVal(0)
        else:
            rs_ = sorted([V[(i, 'r')] for i in range(N)], key=lambda t: -float(t.as_fraction())) if rfixed is not None else [z3.RealVal(0)] * 2
            m0 = rs_[0]; m1 = rs_[1] if N > 1 else z3.RealVal(0)
        sim.set('max_radius0', z3.simplify(m0)); sim.set('max_radius1', z3.simplify(m1))
    rec = []
    def resolve(I_, r, c):
        cv = SimView(I_, c, 'reb_collision'); rec.append((cv.get('p1'), cv.get('p2'))); return 0
    I.stubs['@verif_resolve'] = resolve
    sim.set('collision_resolve', I.global_ptr('@verif_resolve'))
    return I, dom, sim, V, rec

def run_detect(u):
    rep = Report(); N, mode = u['N'], u['mode']
    label = "detect %s N=%d%s " % (mode, N, (' x=%s r=%s' % (u['xfixed'], u.get('rfixed'))) if u.get('xfixed') else ((' radii ordered %s' % u['rorder']) if u.get('rorder') else ''))
    prover = Prover(t_inproc_ms=8000, use_external=(mode == 'LINE'), t_ext_s=u.get('t_ext', 12))
    def run(ctx):
        I, dom, sim, V, rec = setup(ctx, N, mode, sep=u.get('sep'), xfixed=u.get('xfixed'), rfixed=u.get('rfixed'), rorder=u.get('rorder'))
        dtl = None
        if mode == 'LINE':
            dtl = dom.fresh('dt_last_done'); sim.set('dt_last_done', dtl); ctx.assume(dtl != 0)
            # the last particle sits at rest at the origin (a restriction of the inputs that keeps the NRA queries within reach;
            # the criterion only involves relative coordinates)
            for c in C6:
                V[(N - 1, c)] = z3.RealVal(0); sim.particle(N - 1).set(c, dom.const(0.0))
            for i in range(N):
                for j in range(i):
                    ctx.assume(z3.Or(*[V[(i, c)] != V[(j, c)] for c in ('vx', 'vy', 'vz')]))      # relative velocity non-zero (the code divides by |dv|^2)
        I.call('@reb_collision_search', [sim.ptr])
        return I, dom, sim, V, list(rec), dtl
    ex = Explorer(run, max_paths=5000, timeout_ms=3000) if mode != 'TREE' else LinExplorer(run, max_paths=u.get('max_paths', 20000))
    try: ex.explore()
    except BoundExceeded as e: rep.bound_exceeded.append(label + str(e))
    rep.queries += ex.nqueries; rep.solver_time += ex.qtime
    for ctx, (I, dom, sim, V, rec, dtl) in ex.results:
        rep.paths += 1; rep.add_interp(I)
        ob = Obligations(rep, prover, label + "path%d " % rep.paths)
        pc = list(ctx.pc) + [b != 0 for b in dom.divs]
        def on_sat(model):
            vals = {'%s%d' % (c_, i_): float(model_value(model, t)) for (i_, c_), t in V.items()}
            if dtl is not None: vals['dt_last_done'] = float(model_value(model, dtl))
            ok, detail = native_detect(u, vals)
            if not ok and mode in ('DIRECT', 'TREE'):
                # solver models sit on the boundary 'approaching' (dx.dv == 0), which the native comparison treats as undecided: nudge the
                # velocities slightly towards the centroid (turns == 0 into < 0, leaves clear-cut signs alone)
                v2 = dict(vals)
                for c_, w_ in (('x', 'vx'), ('y', 'vy'), ('z', 'vz')):
                    cen = sum(vals['%s%d' % (c_, i_)] for i_ in range(N)) / N
                    for i_ in range(N): v2['%s%d' % (w_, i_)] = vals['%s%d' % (w_, i_)] - 1e-3 * (vals['%s%d' % (c_, i_)] - cen)
                ok2, detail2 = native_detect(u, v2)
                if ok2: return True, 'C13:detect:%s' % mode, detail2, dict(unit=u, vals=v2)
            return ok, 'C13:detect:%s' % mode, detail, dict(unit=u, vals=vals)
        def d(i, j, c): return V[(i, c)] - V[(j, c)]
        pairs = [(i, j) for i in range(N) for j in range(N) if i != j] if mode in ('DIRECT', 'TREE') else [(i, j) for i in range(N) for j in range(i + 1, N)]
        for (i, j) in pairs:
            rs = V[(i, 'r')] + V[(j, 'r')]
            dx = [d(i, j, c) for c in ('x', 'y', 'z')]; dv = [d(i, j, c) for c in ('vx', 'vy', 'vz')]
            got = (i, j) in rec
            if mode in ('DIRECT', 'TREE'):
                spec = z3.And(sum(a * a for a in dx) <= rs * rs, sum(a * b for a, b in zip(dx, dv)) <= 0)
                # the branch conditions of the code and the specification are polynomial inequalities in the same monomials: after expanding both
                # (sum-of-monomials form) and abstracting each monomial by a fresh constant the obligation is linear; the full non-linear query
                # is only tried when the abstraction does not settle it
                lin_ = Lineariser(som=True)
                g_ = spec if got else z3.Not(spec)
                r_ = prover.check([lin_(c_) for c_ in pc] + [z3.Not(lin_(g_))]); rep.queries += 1
                if r_.status == 'unsat':
                    rep.obligations += 1; rep.discharged += 1
                    if len(rep.samples) < 6: rep.sample(obligation=label + "pair (%d,%d) <=> overlapping and approaching" % (i, j), domain='LRA after monomial abstraction', verdict='unsat')
                else:
                    ob.prove("pair (%d,%d) %s <=> overlapping and approaching" % (i, j, 'reported' if got else 'not reported'), g_, pc, axioms=dom.axioms, on_sat=on_sat, domain='REAL')
            else:
                tau = z3.Real('tau')
                dist2 = sum((a - tau * dtl * b) * (a - tau * dtl * b) for a, b in zip(dx, dv))
                if got:
                    # some instant of the last step has distance <= r_i + r_j: end, beginning or the closest approach inside the step
                    s = sum(a * b for a, b in zip(dx, dv)) * dom.z(dom.inv(dom.canon(sum(b * b for b in dv) * dtl)))
                    e3 = [a - s * dtl * b for a, b in zip(dx, dv)]
                    spec = z3.Or(sum(a * a for a in dx) <= rs * rs, sum((a - dtl * b) ** 2 for a, b in zip(dx, dv)) <= rs * rs, z3.And(s >= 0, s <= 1, sum(a * a for a in e3) <= rs * rs))
                    ob.prove("pair (%d,%d) reported => the straight paths came within r_i + r_j during the last step" % (i, j), spec, pc + [b != 0 for b in dom.divs], axioms=dom.axioms, on_sat=on_sat, domain='REAL')
                else:
                    ob.prove("pair (%d,%d) not reported => for all instants of the last step the distance exceeds r_i + r_j" % (i, j), z3.Not(z3.And(tau >= 0, tau <= 1, dist2 <= rs * rs)), pc, axioms=dom.axioms, on_sat=on_sat, domain='REAL (universally quantified time)')
        n_rec = len(rec)
        ob.prove("no pair is reported twice per ordering", len(set(rec)) == n_rec, pc, domain='REAL')
        if rep.paths % 7 == 1 and mode != 'TREE':
            def wit(model):
                vals = {'%s%d' % (c_, i_): float(model_value(model, t)) for (i_, c_), t in V.items()}
                if dtl is not None: vals['dt_last_done'] = float(model_value(model, dtl))
                bad, detail = native_detect(u, vals)
                if bad: raise RuntimeError(detail)
            ob.witness("path", pc, axioms=dom.axioms, replay=wit)
    return rep

_nat = None
def nat():
    global _nat
    if _nat is None: _nat = Native()
    return _nat

RES = ctypes.CFUNCTYPE(ctypes.c_int, ctypes.c_void_p, ctypes.c_char * 64)
def native_detect(u, vals):
    N_ = nat(); L = N_.L; ns = N_.create(); N = u['N']
    got = []
    csz = L.structs['reb_collision']['size']
    class Col(ctypes.Structure): _fields_ = [('b', ctypes.c_ubyte * csz)]
    cb_t = ctypes.CFUNCTYPE(ctypes.c_int, ctypes.c_void_p, Col)
    def cb(r, c):
        raw = bytes(bytearray(c.b)); got.append((int.from_bytes(raw[0:4], 'little', signed=True), int.from_bytes(raw[4:8], 'little', signed=True))); return 0
    cbf = cb_t(cb)
    try:
        if u['mode'] == 'TREE':
            f = N_.lib.reb_simulation_configure_box; f.argtypes = [ctypes.c_void_p, ctypes.c_double, ctypes.c_int, ctypes.c_int, ctypes.c_int]; f.restype = None
            f(ns.addr, 8.0, 1, 1, 1)
            ns.set('collision', L.enumerators['REB_COLLISION_TREE'])
            for i in range(N): ns.add(**{c: vals['%s%d' % (c, i)] for c in C6 + ['r', 'm']})       # real add: inserts into the tree in index order
        else:
            for i in range(N): ns.add(m=1.0)
            for i in range(N):
                for c in C6 + ['r', 'm']: ns.particle(i).set(c, vals['%s%d' % (c, i)])
        ns.set('collision', L.enumerators['REB_COLLISION_' + u['mode']])
        if 'dt_last_done' in vals: ns.set('dt_last_done', vals['dt_last_done'])
        ns.set('collision_resolve', ctypes.cast(cbf, ctypes.c_void_p).value)
        ns.call('reb_collision_search')
        # reference in floats with a margin: only clear-cut cases count as reproduced
        want = set(); unsure = set()
        for i in range(N):
            for j in range(N):
                if i == j or (u['mode'] == 'LINE' and j < i): continue
                dx = [vals['%s%d' % (c, i)] - vals['%s%d' % (c, j)] for c in ('x', 'y', 'z')]; dv = [vals['%s%d' % (c, i)] - vals['%s%d' % (c, j)] for c in ('vx', 'vy', 'vz')]
                rs = vals['r%d' % i] + vals['r%d' % j]
                if u['mode'] in ('DIRECT', 'TREE'):
                    a = sum(x * x for x in dx) - rs * rs; b = sum(x * y for x, y in zip(dx, dv))
                    sc = sum(x * x for x in dx) + rs * rs + 1e-300
                    if abs(a) < 1e-9 * sc or abs(b) < 1e-9 * (abs(b) + 1e-300): unsure.add((i, j))
                    if a <= 0 and b <= 0: want.add((i, j))
                else:
                    dtl = vals['dt_last_done']; best = None
                    for tau in [0.0, 1.0] + ([min(1.0, max(0.0, sum(x * y for x, y in zip(dx, dv)) / (sum(y * y for y in dv) * dtl)))] if sum(y * y for y in dv) > 0 else []):
                        v = sum((x - tau * dtl * y) ** 2 for x, y in zip(dx, dv)); best = v if best is None else min(best, v)
                    if abs(best - rs * rs) < 1e-9 * (best + rs * rs + 1e-300): unsure.add((i, j))
                    if best <= rs * rs: want.add((i, j))
        g = set(got)
        bad = {p for p in (g ^ want) if p not in unsure}
        return bool(bad), "native %s search reported %r, specification %r" % (u['mode'], sorted(g), sorted(want))
    finally:
        ns.free()

def run_resolve(u):
    rep = Report(); ks = u['keep_sorted']; pattern = u['pattern']; N = 4 if pattern == 'interleaved' else 3
    label = "merge resolution %s keep_sorted=%d " % (pattern, ks)
    prover = Prover(t_inproc_ms=10000, use_external=False)
    L = build.layout()
    # concrete geometry that produces the overlap pattern; masses and velocities' magnitudes symbolic
    geo = {'chain': [(0.0, 0.0, 0.0, 1.0), (1.5, 0.0, 0.0, 1.0), (3.0, 0.0, 0.0, 1.0)],      # 0-1 and 1-2 overlap, 0-2 do not (x, y, z, r)
           'cluster': [(0.0, 0.0, 0.0, 1.0), (0.5, 0.0, 0.0, 1.0), (0.0, 0.5, 0.0, 1.0)],
           'pair+bystander': [(0.0, 0.0, 0.0, 1.0), (10.0, 0.0, 0.0, 1.0), (0.5, 0.0, 0.0, 1.0)],
           'interleaved': [(0.0, 0.0, 0.0, 1.0), (20.0, 0.0, 0.0, 1.0), (20.5, 0.0, 0.0, 1.0), (0.5, 0.0, 0.0, 1.0)]}[pattern]      # pairs (0,3) and (1,2): interleaved indices
    def run(ctx):
        dom = Real(); I = new_interp(dom, ctx); I.concrete_env = False
        sim = Sim(I)
        for i in range(N): sim.add(m=1.0)
        sim.set('collision', L.enumerators['REB_COLLISION_DIRECT']); sim.set('collision_resolve_keep_sorted', ks)
        sim.set('collision_resolve', I.global_ptr('@reb_collision_resolve_merge'))
        M = []; U = []
        for i, (x, y, z, rr) in enumerate(geo):
            p = sim.particle(i)
            for c, v in zip(('x', 'y', 'z', 'r'), (x, y, z, rr)): p.set(c, v)
            m = dom.fresh('m%d' % i); M.append(m); p.set('m', m); ctx.assume(m > 0)
            # approaching: velocity = -s_i * position direction from the centroid (concrete directions), symbolic w component for momentum check
            w = dom.fresh('w%d' % i); U.append(w)
            cx = sum(g[0] for g in geo) / N; cy = sum(g[1] for g in geo) / N
            if pattern == 'interleaved': cx = 0.25 if x < 10 else 20.25          # each pair approaches its own midpoint
            p.set('vx', dom.const(-(x - cx))); p.set('vy', dom.const(-(y - cy))); p.set('vz', w)
            p.set('last_collision', dom.const(-1.0))
        sim.set('t', dom.const(1.0))
        I.call('@reb_collision_search', [sim.ptr])
        return I, dom, sim, M, U
    ex = Explorer(run, max_paths=3000, timeout_ms=3000)
    try: ex.explore()
    except BoundExceeded as e: rep.bound_exceeded.append(label + str(e))
    except MemError as e:
        rep.violations.append(dict(key='C13:resolve:memory', what="memory-model violation in the resolution loop: %s" % e, replay=dict(unit=u), obligation=label))
    rep.queries += ex.nqueries; rep.solver_time += ex.qtime
    orders = set()
    for ctx, (I, dom, sim, M, U) in ex.results:
        rep.paths += 1; rep.add_interp(I)
        ob = Obligations(rep, prover, label + "path%d " % rep.paths)
        pc = list(ctx.pc) + [b != 0 for b in dom.divs]
        def on_sat(model, M=M, U=U):
            ms = [float(model_value(model, m)) for m in M]; ws = [float(model_value(model, w)) for w in U]
            ok, detail = native_resolve(u, geo, ms, ws)
            return ok, 'C13:resolve:%s:keep_sorted%d' % (pattern, ks), detail, dict(unit=u, geo=[list(g) for g in geo], masses=ms, ws=ws, kind='resolve')
        n1 = sim.get('N')
        ms = [dom.z(sim.particle(j).get('m')) for j in range(n1)]
        ob.prove("total mass preserved (identity in independent masses: nobody lost, duplicated or merged twice)", sum(ms, z3.RealVal(0)) == sum(M, z3.RealVal(0)), pc, axioms=dom.axioms, on_sat=on_sat, domain='REAL')
        for c, orig in (('vz', U),):
            p1 = sum((ms[j] * dom.z(sim.particle(j).get(c)) for j in range(n1)), z3.RealVal(0))
            ob.prove("total momentum (%s) preserved" % c, p1 == sum((M[i] * orig[i] for i in range(N)), z3.RealVal(0)), pc, axioms=dom.axioms, on_sat=on_sat, domain='REAL')
        expected = {'chain': (1, 2), 'cluster': (1, 1), 'pair+bystander': (2, 2), 'interleaved': (2, 2)}[pattern]
        ob.prove("N after resolution within [%d,%d] and every survivor has positive mass" % expected, z3.And(n1 >= expected[0], n1 <= expected[1], *[m > 0 for m in ms]), pc, axioms=dom.axioms, on_sat=on_sat, domain='REAL')
        orders.add(tuple(str(x) for x in getattr(I, 'rand_draws', [])[:0]))
    rep.notes.append(label + "%d resolution orders (paths over the rand_r draws) explored" % rep.paths)
    return rep

def native_resolve(u, geo, ms, ws):
    """natively: the same overlap pattern with the model's masses; the shuffle is driven by rand_seed, so a range of seeds is
    tried (every seed is a legitimate run of the real code)"""
    N_ = nat(); L = N_.L; N = len(geo)
    for seed in range(400):
        ns = N_.create()
        try:
            for i in range(N): ns.add(m=1.0)
            ns.set('collision', L.enumerators['REB_COLLISION_DIRECT']); ns.set('collision_resolve_keep_sorted', u['keep_sorted'])
            ns.set('collision_resolve', ctypes.cast(N_.lib.reb_collision_resolve_merge, ctypes.c_void_p).value)
            cx = sum(g[0] for g in geo) / N; cy = sum(g[1] for g in geo) / N
            for i, (x, y, z, rr) in enumerate(geo):
                p = ns.particle(i)
                c0 = cx if u['pattern'] != 'interleaved' else (0.25 if x < 10 else 20.25)
                for c_, v_ in (('x', x), ('y', y), ('z', z), ('r', rr), ('m', ms[i]), ('vx', -(x - c0)), ('vy', -(y - cy)), ('vz', ws[i]), ('last_collision', -1.0)): p.set(c_, v_)
            ns.set('t', 1.0); ns.set('rand_seed', seed)
            ns.call('reb_collision_search')
            n1 = ns.get('N')
            mt = sum(ns.particle(j).get('m') for j in range(n1)); pt = sum(ns.particle(j).get('m') * ns.particle(j).get('vz') for j in range(n1))
            m0 = sum(ms); p0 = sum(a * b for a, b in zip(ms, ws))
            if abs(mt - m0) > 1e-9 * abs(m0) or abs(pt - p0) > 1e-9 * (abs(p0) + sum(abs(a * b) for a, b in zip(ms, ws)) + 1e-300):
                return True, "native merge resolution (%s, keep_sorted=%d, rand_seed=%d): total mass %r -> %r, momentum %r -> %r, N %d -> %d" % (u['pattern'], u['keep_sorted'], seed, m0, mt, p0, pt, N, n1)
        finally:
            ns.free()
    return False, "no shuffle among 400 seeds violates conservation natively"

def run_hardsphere(u):
    """reb_collision_resolve_hardsphere on an overlapping, approaching pair with symbolic positions, velocities, masses and radii (restitution 1,
    minimum_collision_velocity 0): momentum conserved, kinetic energy conserved, the pair separates afterwards.  atan2 is an atom with its
    defining relations (h sin = y, h cos = x, h = sqrt(x^2+y^2) > 0); the momentum obligations need none of them."""
    rep = Report(); label = "hard-sphere bounce "
    prover = Prover(t_inproc_ms=u.get('t_ms', 30000), t_ext_s=60, use_external=u.get('ext', True))
    L = build.layout(); C6 = ['x', 'y', 'z', 'vx', 'vy', 'vz']
    def run(ctx):
        dom = Real(); I = new_interp(dom, ctx); I.concrete_env = True
        sim = Sim(I); V = {}
        for i in range(2): sim.add(m=1.0)
        for i in range(2):
            for c in C6 + ['m', 'r']:
                if i == 1 and c in C6 and u.get('origin', True):
                    V[(i, c)] = z3.RealVal(0); sim.particle(i).set(c, dom.const(0.0)); continue          # second particle at rest at the origin (Galilean frame of the pair)
                V[(i, c)] = dom.fresh('%s%d' % (c, i)); sim.particle(i).set(c, V[(i, c)])
            ctx.assume(V[(i, 'm')] > 0); ctx.assume(V[(i, 'r')] > 0)
            sim.particle(i).set('last_collision', dom.const(-1.0))
        sim.set('t', dom.const(1.0)); sim.set('minimum_collision_velocity', dom.const(0.0))
        trig = []
        def atan2_stub(I_, y, x):
            y_, x_ = dom.z(y), dom.z(x)
            th = dom.fresh('theta'); sn, cs = dom.sincos(dom.z(th)); h = dom.fresh('hyp')
            # defining relations of atan2 away from the origin
            dom.axioms.append(z3.Implies(z3.Or(x_ != 0, y_ != 0), z3.And(h > 0, h * h == x_ * x_ + y_ * y_, h * sn == y_, h * cs == x_)))
            dom.axioms.append(z3.Implies(z3.And(x_ == 0, y_ == 0), z3.And(sn == 0, cs == 1)))
            trig.append((th, h)); return th
        I.stubs['@atan2'] = atan2_stub
        col = I.mem.alloc(L.structs['reb_collision']['size'], 'collision', 'harness', zero=True)
        cv = SimView(I, col, 'reb_collision'); cv.set('p1', 0); cv.set('p2', 1)
        ret = I.call('@reb_collision_resolve_hardsphere', [sim.ptr, col])
        return I, dom, sim, V, ret
    ex = Explorer(run, max_paths=64, timeout_ms=4000)
    try: ex.explore()
    except BoundExceeded as e: rep.bound_exceeded.append(label + str(e))
    rep.queries += ex.nqueries; rep.solver_time += ex.qtime
    bounced = 0
    for ctx, (I, dom, sim, V, ret) in ex.results:
        rep.paths += 1; rep.add_interp(I)
        ob = Obligations(rep, prover, label + "path%d " % rep.paths)
        pc = list(ctx.pc) + [b != 0 for b in dom.divs]
        allv = [v for v in V.values() if not z3.is_rational_value(v)]
        def on_sat(model):
            vals = {str(t): float(model_value(model, t)) for t in allv}
            ok, detail = native_hardsphere(vals)
            return ok, 'C13:hardsphere', detail, dict(kind='hardsphere', vals=vals)
        new = {(i, c): dom.z(sim.particle(i).get(c)) for i in range(2) for c in C6}
        for c in ('vx', 'vy', 'vz'):
            ob.prove("momentum %s conserved" % c, V[(0, 'm')] * new[(0, c)] + V[(1, 'm')] * new[(1, c)] == V[(0, 'm')] * V[(0, c)] + V[(1, 'm')] * V[(1, c)], pc, axioms=dom.axioms, on_sat=on_sat, domain='REAL')
        for i in range(2):
            for c in ('x', 'y', 'z'): ob.prove("position %s%d untouched" % (c, i), new[(i, c)] == V[(i, c)], pc, on_sat=on_sat, domain='REAL')
        changed = any(not z3.simplify(new[(0, c)] - V[(0, c)] == 0).eq(z3.BoolVal(True)) for c in ('vx', 'vy', 'vz'))
        if changed:
            bounced += 1
            d = [V[(0, c)] - V[(1, c)] for c in ('x', 'y', 'z')]
            dv0 = [V[(0, c)] - V[(1, c)] for c in ('vx', 'vy', 'vz')]; dv1 = [new[(0, c)] - new[(1, c)] for c in ('vx', 'vy', 'vz')]
            ob.prove("the pair separates afterwards: relative velocity . relative position >= 0", sum(a * b for a, b in zip(d, dv1)) >= 0, pc, axioms=dom.axioms, on_sat=on_sat, domain='REAL (atan2 by its defining relations)')
            ob.prove("restitution 1: the normal relative velocity is reversed (d . dv' == -d . dv)", sum(a * b for a, b in zip(d, dv1)) == -sum(a * b for a, b in zip(d, dv0)), pc, axioms=dom.axioms, on_sat=on_sat, domain='REAL (atan2 by its defining relations)')
            ke = lambda vv: sum(V[(i, 'm')] * vv[(i, c)] * vv[(i, c)] for i in range(2) for c in ('vx', 'vy', 'vz'))
            ob.prove("restitution 1: kinetic energy conserved", ke(new) == ke(V), pc, axioms=dom.axioms, on_sat=on_sat, domain='REAL (atan2 by its defining relations)')
        else:
            # no bounce: only legitimate when the pair does not overlap or is not approaching
            d = [V[(0, c)] - V[(1, c)] for c in ('x', 'y', 'z')]; dv0 = [V[(0, c)] - V[(1, c)] for c in ('vx', 'vy', 'vz')]
            rp = V[(0, 'r')] + V[(1, 'r')]
            ob.prove("left alone only if not overlapping, not approaching, or without a normal velocity component", z3.Or(rp * rp < sum(a * a for a in d), sum(a * b for a, b in zip(d, dv0)) >= 0), pc, axioms=dom.axioms, on_sat=on_sat, domain='REAL')
        ob.witness("path", pc, axioms=dom.axioms)
    if not bounced: rep.vacuous.append(label + "no path performed a bounce")
    return rep

def native_hardsphere(vals):
    N_ = nat(); L = N_.L; ns = N_.create()
    try:
        for i in range(2): ns.add(m=1.0)
        g = lambda k, d=0.0: float(vals.get(k, d))
        for i in range(2):
            for c in ('x', 'y', 'z', 'vx', 'vy', 'vz'): ns.particle(i).set(c, g('%s%d' % (c, i)))
            ns.particle(i).set('m', g('m%d' % i, 1.0)); ns.particle(i).set('r', g('r%d' % i, 1.0)); ns.particle(i).set('last_collision', -1.0)
        ns.set('t', 1.0)
        class Col(ctypes.Structure): _fields_ = [('b', ctypes.c_char * L.structs['reb_collision']['size'])]
        col = Col(); cv = NView(N_, ctypes.addressof(col), 'reb_collision'); cv.set('p1', 0); cv.set('p2', 1)
        f = N_.lib.reb_collision_resolve_hardsphere; f.restype = ctypes.c_int; f.argtypes = [ctypes.c_void_p, Col]
        f(ns.addr, col)
        P = [{c: ns.particle(i).get(c) for c in ('x', 'y', 'z', 'vx', 'vy', 'vz')} for i in range(2)]
        m = [g('m0', 1.0), g('m1', 1.0)]; bad = []
        v0 = [{c: g('%s%d' % (c, i)) for c in ('x', 'y', 'z', 'vx', 'vy', 'vz')} for i in range(2)]
        sc = max([abs(v0[i][c]) for i in range(2) for c in ('vx', 'vy', 'vz')] + [1e-300]); msc = max(m)
        if not (sc < 1e100 and msc < 1e100 and min(m) > 1e-100): return False, "degenerate model"
        for c in ('vx', 'vy', 'vz'):
            a = m[0] * P[0][c] + m[1] * P[1][c]; b = m[0] * v0[0][c] + m[1] * v0[1][c]
            if abs(a - b) > 1e-9 * msc * sc: bad.append("momentum %s %r -> %r" % (c, b, a))
        for i in range(2):
            for c in ('x', 'y', 'z'):
                if P[i][c] != v0[i][c]: bad.append("position %s%d moved" % (c, i))
        d = [v0[0][c] - v0[1][c] for c in ('x', 'y', 'z')]; dv0 = [v0[0][c] - v0[1][c] for c in ('vx', 'vy', 'vz')]; dv1 = [P[0][c] - P[1][c] for c in ('vx', 'vy', 'vz')]
        dd = sum(a * a for a in d); rp = g('r0', 1.0) + g('r1', 1.0); dot0 = sum(a * b for a, b in zip(d, dv0)); dot1 = sum(a * b for a, b in zip(d, dv1))
        lsc = math.sqrt(dd) * sc + 1e-300
        overl = rp * rp >= dd; appr = dot0 <= 0
        moved = any(P[0][c] != v0[0][c] for c in ('vx', 'vy', 'vz'))
        if overl and appr and abs(dot0) > 1e-6 * lsc:
            if dot1 < -1e-9 * lsc: bad.append("pair still approaching after the bounce (d.dv' = %r)" % dot1)
            if abs(dot1 + dot0) > 1e-7 * lsc: bad.append("normal relative velocity %r -> %r (must be reversed)" % (dot0, dot1))
            ke0 = sum(m[i] * v0[i][c] ** 2 for i in range(2) for c in ('vx', 'vy', 'vz')); ke1 = sum(m[i] * P[i][c] ** 2 for i in range(2) for c in ('vx', 'vy', 'vz'))
            if abs(ke1 - ke0) > 1e-7 * (abs(ke0) + msc * sc * sc): bad.append("kinetic energy %r -> %r" % (ke0, ke1))
        if (not overl or dot0 > 1e-6 * lsc) and moved and (rp * rp < dd * (1 - 1e-9) or dot0 > 1e-6 * lsc): bad.append("velocities changed although the pair is %s" % ("not overlapping" if not overl else "separating"))
        return bool(bad), "native reb_collision_resolve_hardsphere: " + ('; '.join(bad[:4]) or 'ok')
    finally:
        ns.free()

def worker(u):
    if u['what'] == 'hardsphere': return run_hardsphere(u)
    return run_detect(u) if u['what'] == 'detect' else run_resolve(u)

def replay(data):
    if data.get('kind') == 'hardsphere': return native_hardsphere(data['vals'])
    if data.get('kind') == 'resolve': return native_resolve(data['unit'], [tuple(g) for g in data['geo']], data['masses'], data['ws'])
    return native_detect(data['unit'], data['vals'])

def main():
    tier = os.environ.get('VERIF_TIER') or (sys.argv[1] if len(sys.argv) > 1 else 'quick')
    t0 = time.time()
    build.module(); build.layout(); build.build_native()
    us = [dict(what='detect', mode='DIRECT', N=2), dict(what='detect', mode='LINE', N=2), dict(what='detect', mode='TREE', N=2, sep=1, rorder=[0, 1]), dict(what='detect', mode='TREE', N=2, sep=1, rorder=[1, 0])]
    # tree search with three particles: concrete tree structure and radii (the largest radius on the LAST index, sharing a deep cell), symbolic velocities
    for xf, rf in ((['1', '-3', '13/10'], ['1/10', '1/20', '2/5']), (['1', '-3', '13/10'], ['2/5', '1/20', '1/10']), (['-1', '5/4', '1'], ['1/20', '1/5', '3/10'])): us.append(dict(what='detect', mode='TREE', N=3, xfixed=xf, rfixed=rf))
    if tier == 'thorough': us += [dict(what='detect', mode='DIRECT', N=3)]
    for pat in ('chain', 'pair+bystander', 'interleaved') + (('cluster',) if tier == 'thorough' else ()):
        for ks in (0, 1): us.append(dict(what='resolve', pattern=pat, keep_sorted=ks))
    us.append(dict(what='hardsphere', t_ms=30000 if tier == 'quick' else 120000, ext=(tier != 'quick')))
    if tier == 'thorough': us.append(dict(what='hardsphere', origin=False, t_ms=120000, ext=True))
    rep = run_units(us, worker)
    code = finish(PID, tier, rep, t0,
        bounds=dict(detection_particles='2' if tier == 'quick' else '2..3', resolution_particles=3, patterns=sorted({u.get('pattern') for u in us if u.get('pattern')}), search_modes=['DIRECT', 'LINE', 'TREE']),
        assumptions=['radii >= 0, masses > 0; LINE: dt_last_done != 0 and non-zero relative velocity', 'resolution units: concrete overlap geometry, symbolic masses and one velocity component; rand_r returns an arbitrary value in [0, RAND_MAX] (every shuffle explored)', 'real arithmetic'],
        outside=['LINETREE search, TREE search beyond 2 particles with symbolic positions / 3 particles with concrete positions and radii, periodic images', 'hard-sphere resolver with a restitution callback, minimum_collision_velocity != 0 or ghost-box offsets (decided: restitution 1, no minimum velocity, no ghost box, one pair)', 'clusters of more than 3 particles', 'MERCURIUS/TRACE encounter maps', 'rounding'],
        domain_note='REAL with path forking; the shuffle order is a solver-chosen rand_r draw')
    sys.exit(code)

if __name__ == '__main__':
    main()
