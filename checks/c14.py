"""C14 — particle bookkeeping under any add/remove/hash history (DESIGN 5/C14).

UF/BITS domain.  Histories of add / remove(index, keep_sorted) / remove_by_hash / set-hash / lookup / remove-all are run
through the real C functions from the IR with *symbolic* payloads (64-bit vectors), hashes (32-bit vectors), indices and
hash arguments; a list-of-records reference model runs in lockstep on the same path context.  Every completed path yields
obligations (post-state == model) discharged under its path condition; the memory model checks every access.
reb_hash (MurmurHash3) is compared with the MurmurHash3_x86_32 specification on symbolic byte strings."""
import sys, os, time, itertools, json
sys.path.insert(0, os.path.dirname(os.path.dirname(os.path.abspath(__file__))))
import z3
from llsym import build
from llsym.harness import *
from llsym.check import *
from llsym.solve import model_value
from llsym import stubs as ST

PID = 'C14'
PAY = ['x', 'y', 'z', 'vx', 'vy', 'vz', 'ax', 'ay', 'az', 'm', 'last_collision']   # 'r' is concrete and distinct per particle (reb_simulation_add branches on it: C13)

def s32(v): return v - (1 << 32) if v >= 1 << 31 else v

class Model:
    """reference: ordered list of records; decisions taken through the shared path context"""
    def __init__(s, ctx):
        s.ctx = ctx; s.ps = []; s.n_active = -1
    def add(s, rec): s.ps.append(rec)
    def remove(s, index, keep_sorted):
        """index: python int or BV32 -> returns (ok, concrete index or None)"""
        N = len(s.ps)
        if isinstance(index, int):
            idx = s32(index); ok = 0 <= idx < N
        else:
            ok = s.ctx.branch(z3.And(index >= 0, index < N))
            idx = s32(s.ctx.concretize(index, 'model remove index')) if ok else None
        if not ok: return False, None
        if N == 1 and s.n_active != -1:
            s.n_active = None      # last particle removed: N_active handling is not documented -> not asserted
            del s.ps[idx]
        elif keep_sorted:
            if s.n_active not in (-1, None) and idx < s.n_active: s.n_active -= 1
            del s.ps[idx]
        else:
            s.ps[idx] = s.ps[-1]; s.ps.pop()
        return True, idx
    def has_hash(s, h):
        if not s.ps: return False
        return s.ctx.branch(z3.Or(*[s.heq(p['hash'], h) for p in s.ps]))
    @staticmethod
    def heq(a, b):
        if isinstance(a, int) and isinstance(b, int): return z3.BoolVal(a == b)
        return (z3.BitVecVal(a, 32) if isinstance(a, int) else a) == (z3.BitVecVal(b, 32) if isinstance(b, int) else b)

def fresh_particle(dom, k, conc=None):
    rec = {}
    for f in PAY:
        rec[f] = dom.fresh('p%d_%s' % (k, f)) if conc is None else conc['p%d_%s' % (k, f)]
    rec['hash'] = z3.BitVec('p%d_hash' % k, 32) if conc is None else conc['p%d_hash' % k]
    rec['r'] = float(k + 1)
    return rec

def run_history(ctx, hist, na_setting, rep, symbolic=True, conc=None, collect=None):
    """hist: list of op tuples.  Returns (I, sim, model, obligations list[(name, goal)], log)"""
    dom = UF() if symbolic else Conc()
    I = new_interp(dom, ctx)
    I.loop_bound = 400
    sim = Sim(I)
    model = Model(ctx)
    obs = []; log = []
    removed = []
    real_remove = I.mod.funcs['@reb_simulation_remove_particle']
    def remove_wrap(I_, r, index, ks):
        removed.append(index if isinstance(index, int) else ('sym', index))
        return I_.run_function(real_remove, [r, index, ks])
    I.stubs['@reb_simulation_remove_particle'] = remove_wrap
    L = build.layout(); psize = sim.psize
    def sval(name, bits=32):
        if conc is not None: return conc[name] & ((1 << bits) - 1)
        return z3.BitVec(name, bits)
    def compare(tag):
        N = sim.get('N')
        obs.append(("%s: N == %d" % (tag, len(model.ps)), N == len(model.ps) if isinstance(N, int) else N == len(model.ps)))
        if not isinstance(N, int) or N != len(model.ps): return
        nall = sim.get('N_allocated')
        obs.append(("%s: N_allocated >= N" % tag, nall >= N if isinstance(nall, int) else z3.UGE(nall, N)))
        for i, rec in enumerate(model.ps):
            pv = sim.particle(i)
            for f in PAY + ['hash', 'r']:
                got = pv.get(f); want = rec[f]
                if isinstance(got, (int, float)) and isinstance(want, (int, float)):
                    eq = (got == want) if isinstance(got, int) else same_bits(got, want)
                else:
                    eq = dom.z(got) == dom.z(want) if f != 'hash' else Model.heq(got, want)
                obs.append(("%s: particle[%d].%s == model" % (tag, i, f), eq))
            obs.append(("%s: particle[%d].sim == r" % (tag, i), pv.get('sim') == sim.ptr))
        if model.n_active is not None:
            na = sim.get('N_active')
            obs.append(("%s: N_active == %d" % (tag, model.n_active), s32(na) == model.n_active if isinstance(na, int) else na == model.n_active))
    def snapshot():
        o = I.mem.objs[sim.ptr.obj]
        return (bytes(o.base), dict(o.cells))
    SKIP = None
    def unchanged(tag, snap):
        nonlocal SKIP
        if SKIP is None:
            SKIP = set()
            for nm in ('particle_lookup_table', 'N_lookup', 'N_allocated_lookup', 'messages'):
                off, size, m = L.member('reb_simulation', nm)
                SKIP |= set(range(off, off + size))
        o = I.mem.objs[sim.ptr.obj]
        b0, c0 = snap
        diff = [k for k in range(len(b0)) if b0[k] != o.base[k] and k not in SKIP and not any(q in o.cells for q in range(k - 7, k + 1))]
        cd = [k for k in set(c0) | set(o.cells) if k not in SKIP and not _same_cell(c0.get(k), o.cells.get(k))]
        obs.append(("%s: failed request leaves every simulation field unchanged" % tag, not diff and not cd))
    kcount = 0
    for opn, op in enumerate(hist):
        kind = op[0]; tag = "op%d:%s" % (opn, kind)
        if kind == 'add':
            rec = fresh_particle(dom, kcount, conc); kcount += 1
            kw = {f: rec[f] for f in PAY}; kw['hash'] = rec['hash']; kw['r'] = rec['r']
            sim.add(**kw); model.add(rec); log.append(('add',))
        elif kind == 'shrink_storage':
            # make the storage exactly full so that the next add crosses the realloc growth path
            N = sim.get('N'); p = sim.get('particles')
            if N > 0:
                q = I.mem.realloc(p, N * psize); sim.set('particles', q); sim.set('N_allocated', N)
            log.append(('shrink_storage',))
        elif kind == 'set_n_active':
            sim.set('N_active', op[1] & 0xffffffff); model.n_active = op[1]; log.append(('set_n_active', op[1]))
        elif kind == 'remove':
            idx = sval('idx%d' % opn); ks = op[1]
            snap = snapshot(); n0 = len(model.ps); pre = [dict(r) for r in model.ps]; na0 = model.n_active
            ret = I.call('@reb_simulation_remove_particle', [sim.ptr, idx, ks])
            ok, ci = model.remove(idx, ks)
            if not ks and ok: model.n_active = None if (na0 != -1) else -1     # N_active after an unsorted removal is not documented: not asserted
            log.append(('remove', ci, ks, ok))
            obs.append(("%s: return value == %d" % (tag, int(ok)), ret == int(ok) if isinstance(ret, int) else ret == int(ok)))
            if not ok: unchanged(tag, snap)
            if model.n_active is None: model.n_active = None
        elif kind == 'remove_hash':
            h = sval('h%d' % opn); ks = op[1]
            snap = snapshot(); na0 = model.n_active
            del removed[:]
            ret = I.call('@reb_simulation_remove_particle_by_hash', [sim.ptr, h, ks])
            exists = model.has_hash(h)
            obs.append(("%s: return value == %d" % (tag, int(exists)), ret == int(exists) if isinstance(ret, int) else ret == int(exists)))
            if exists:
                if len(removed) == 1 and isinstance(removed[0], int):
                    ci = s32(removed[0])
                    if 0 <= ci < len(model.ps):
                        obs.append(("%s: removed particle carries the hash" % tag, Model.heq(model.ps[ci]['hash'], h)))
                        model.remove(ci & 0xffffffff, ks)
                        if not ks: model.n_active = None if (na0 not in (-1,)) else -1
                    else:
                        obs.append(("%s: removed index in range" % tag, False))
                else:
                    obs.append(("%s: exactly one removal was performed for an existing hash" % tag, False))
            else:
                obs.append(("%s: no removal attempted for unknown hash" % tag, len(removed) == 0))
                unchanged(tag, snap)
            log.append(('remove_hash', ks, exists))
        elif kind == 'lookup':
            h = sval('h%d' % opn)
            snap = snapshot()
            p = I.call('@reb_simulation_particle_by_hash', [sim.ptr, h])
            exists = model.has_hash(h)
            if p == NULL:
                obs.append(("%s: lookup returns NULL only if no particle carries the hash" % tag, not exists))
            else:
                base = sim.get('particles')
                inside = p.obj == base.obj and (p.off - base.off) % psize == 0 and 0 <= (p.off - base.off) // psize < len(model.ps)
                obs.append(("%s: lookup result points into the particle array" % tag, inside))
                obs.append(("%s: lookup finds a particle only if one exists" % tag, exists))
                if inside and exists:
                    obs.append(("%s: returned particle carries the hash" % tag, Model.heq(model.ps[(p.off - base.off) // psize]['hash'], h)))
            unchanged(tag, snap)
            log.append(('lookup', exists))
        elif kind == 'sethash':
            i = op[1]
            if i < len(model.ps):
                h = sval('h%d' % opn)
                sim.particle(i).set('hash', h); model.ps[i] = dict(model.ps[i]); model.ps[i]['hash'] = h
            log.append(('sethash', i))
        elif kind == 'remove_all':
            I.call('@reb_simulation_remove_all_particles', [sim.ptr]); model.ps = []; model.n_active = -1
            log.append(('remove_all',))
        else:
            raise ValueError(kind)
        if kind not in ('shrink_storage', 'set_n_active'):
            if model.n_active is None:
                compare(tag); model.n_active = None
            else:
                compare(tag)
    return I, sim, model, obs, log

def _same_cell(a, b):
    if a is None or b is None: return a is b
    if a[0] != b[0]: return False
    x, y = a[1], b[1]
    if isinstance(x, z3.ExprRef) and isinstance(y, z3.ExprRef): return x.eq(y)
    if isinstance(x, z3.ExprRef) or isinstance(y, z3.ExprRef): return False
    return x == y

def sym_names(hist):
    names = []; k = 0
    for opn, op in enumerate(hist):
        if op[0] == 'add':
            names += [('p%d_%s' % (k, f), 64) for f in PAY] + [('p%d_hash' % k, 32)]; k += 1
        elif op[0] == 'remove': names.append(('idx%d' % opn, 32))
        elif op[0] in ('remove_hash', 'lookup', 'sethash'): names.append(('h%d' % opn, 32))
    return names

def run_unit(u):
    rep = Report()
    hist = [tuple(o) for o in u['hist']]
    label = "hist=%s " % (u['hist'],)
    prover = Prover(t_inproc_ms=10000, use_external=False)
    results = []
    def run(ctx):
        try:
            I, sim, model, obs, log = run_history(ctx, hist, None, rep)
        except MemError as e:
            return ('memerror', str(e), None)
        except BoundExceeded as e:
            return ('bound', str(e), None)
        return ('ok', obs, (I, log))
    ex = Explorer(run, max_paths=u.get('max_paths', 4000), timeout_ms=3000)
    try:
        ex.explore()
    except BoundExceeded as e:
        rep.bound_exceeded.append(label + str(e))
    nat = get_native()
    for ctx, (status, payload, extra) in ex.results:
        rep.paths += 1
        ob = Obligations(rep, prover, label + "path%d " % rep.paths)
        def concretise(model_):
            vals = {}
            for nm, bits in sym_names(hist):
                v = model_.eval(z3.BitVec(nm, bits), model_completion=True).as_long()
                vals[nm] = v
            return vals
        def on_sat(model_, what='post-state differs from the list model'):
            vals = concretise(model_)
            ok, detail, key = native_history(hist, vals)
            return ok, key, what + ": " + detail, dict(hist=u['hist'], inputs=vals)
        if status == 'memerror':
            # memory-safety violation on a feasible path: get a witness and replay natively (functional consequence) and in the engine
            r = prover.check(ctx.pc)
            rep.queries += 1; rep.obligations += 1
            if r.status == 'sat':
                vals = concretise(r.model)
                ok, detail, key = native_history(hist, vals)
                rep.replays += 1
                ok2, detail2 = engine_concrete_memerror(hist, vals)
                if ok or ok2:
                    rep.violations.append(dict(key=key or 'C14:memory:' + '-'.join(h[0] for h in hist), what="memory-model violation: %s; native: %s; engine(concrete): %s" % (payload, detail, detail2), replay=dict(hist=u['hist'], inputs=vals), obligation=label))
                else:
                    rep.inconclusive += 1; rep.notes.append(label + "memory error on symbolic path did not reproduce concretely: " + payload)
            else:
                rep.discharged += 1
            continue
        if status == 'bound':
            rep.bound_exceeded.append(label + payload); continue
        I, log = extra
        rep.add_interp(I)
        for name, goal in payload:
            ob.prove(name, goal, ctx.pc, on_sat=on_sat, domain='UF/BITS')
        # reachability witness + translator validation: model of the path condition replayed natively against the list model
        def wit(model_):
            vals = concretise(model_)
            ok, detail, key = native_history(hist, vals)
            if ok: raise RuntimeError("native run disagrees with list model on a path whose obligations were discharged: " + detail)
        if rep.paths <= u.get('witness_paths', 40) and not rep.violations:
            ob.witness("path condition", ctx.pc, replay=wit)
    rep.queries += ex.nqueries; rep.solver_time += ex.qtime
    return rep

_nat = None
def get_native():
    global _nat
    if _nat is None: _nat = Native()
    return _nat

def native_history(hist, vals):
    """run the history on the native library in lockstep with the list model (on concrete values).
    returns (violated, detail, key) ; key identifies the specific failing call pattern for known_findings.json"""
    import ctypes, struct as S_
    nat = get_native(); ns = nat.create()
    lib = nat.lib
    lib.reb_simulation_remove_particle.argtypes = [ctypes.c_void_p, ctypes.c_int, ctypes.c_int]; lib.reb_simulation_remove_particle.restype = ctypes.c_int
    lib.reb_simulation_remove_particle_by_hash.argtypes = [ctypes.c_void_p, ctypes.c_uint32, ctypes.c_int]; lib.reb_simulation_remove_particle_by_hash.restype = ctypes.c_int
    lib.reb_simulation_particle_by_hash.argtypes = [ctypes.c_void_p, ctypes.c_uint32]; lib.reb_simulation_particle_by_hash.restype = ctypes.c_void_p
    lib.reb_simulation_remove_all_particles.argtypes = [ctypes.c_void_p]
    def f64(b): return S_.unpack('<d', S_.pack('<Q', b))[0]
    k = 0; ps = []; na = -1
    try:
        for opn, op in enumerate(hist):
            kind = op[0]
            if kind == 'add':
                rec = {f: vals['p%d_%s' % (k, f)] for f in PAY}; rec['hash'] = vals['p%d_hash' % k]; rec['r'] = f2bits(float(k + 1))
                kw = {f: f64(rec[f]) for f in PAY}; kw['r'] = float(k + 1); kw['hash'] = rec['hash']; k += 1
                ns.add(**kw); ps.append(rec)
            elif kind == 'shrink_storage':
                continue
            elif kind == 'set_n_active':
                ns.set('N_active', op[1]); na = op[1]
            elif kind == 'remove':
                idx = s32(vals['idx%d' % opn]); ks = op[1]; n0 = len(ps)
                ret = lib.reb_simulation_remove_particle(ns.addr, idx, ks)
                ok = 0 <= idx < n0
                if ok:
                    if n0 == 1 and na != -1:
                        na = None; del ps[idx]
                    elif ks:
                        if na not in (-1, None) and idx < na: na -= 1
                        del ps[idx]
                    else:
                        ps[idx] = ps[-1]; ps.pop()
                        if na != -1: na = None
                if ret != int(ok):
                    return True, "op%d remove(index=%d, keep_sorted=%d) with N=%d returned %d, expected %d" % (opn, idx, ks, n0, ret, int(ok)), 'C14:remove:N==%s:%s-index:returns-%d' % ('1' if n0 == 1 else 'k', 'valid' if ok else 'out-of-range', ret)
                if not ok and not _native_equals(ns, ps):
                    return True, "op%d failed remove(index=%d) with N=%d changed the simulation" % (opn, idx, n0), 'C14:remove:N==%s:out-of-range-index:mutates' % ('1' if n0 == 1 else 'k')
            elif kind == 'remove_hash':
                h = vals['h%d' % opn]; ks = op[1]
                cands = [i for i, p in enumerate(ps) if p['hash'] == h]
                ret = lib.reb_simulation_remove_particle_by_hash(ns.addr, h, ks)
                if bool(ret) != bool(cands):
                    return True, "op%d remove_by_hash(%#x) returned %d but %s particle carries the hash" % (opn, h, ret, 'a' if cands else 'no'), 'C14:remove_by_hash:return-value'
                if cands:
                    hit = None
                    for c in cands:
                        q = [dict(p) for p in ps]
                        if ks: del q[c]
                        else:
                            q[c] = q[-1]; q.pop()
                        if _native_equals(ns, q): hit = (c, q); break
                    if hit is None:
                        return True, "op%d remove_by_hash(%#x): post-state matches no removal of a particle carrying the hash" % (opn, h), 'C14:remove_by_hash:post-state'
                    n0 = len(ps) + 0
                    c, ps = hit
                    if n0 == 1 and na != -1: na = None
                    elif ks:
                        if na not in (-1, None) and c < na: na -= 1
                    elif na != -1: na = None
            elif kind == 'lookup':
                h = vals['h%d' % opn]
                cands = [i for i, p in enumerate(ps) if p['hash'] == h]
                ret = lib.reb_simulation_particle_by_hash(ns.addr, h)
                if (not ret) != (not cands):
                    return True, "op%d particle_by_hash(%#x) returned %s but particles carrying the hash are %r" % (opn, h, 'NULL' if not ret else 'a particle', cands), 'C14:lookup:existence'
                if ret:
                    base = ns.get('particles'); idx = (ret - base) // nat.psize
                    if (ret - base) % nat.psize or idx not in cands:
                        return True, "op%d particle_by_hash(%#x) returned particle %r which does not carry the hash" % (opn, h, idx), 'C14:lookup:wrong-particle'
            elif kind == 'sethash':
                if op[1] < len(ps):
                    ns.particle(op[1]).set('hash', vals['h%d' % opn]); ps[op[1]] = dict(ps[op[1]]); ps[op[1]]['hash'] = vals['h%d' % opn]
            elif kind == 'remove_all':
                lib.reb_simulation_remove_all_particles(ns.addr); ps = []; na = -1
            if not _native_equals(ns, ps):
                return True, "after op%d (%s) native particles differ from the list model (native N=%d, model N=%d)" % (opn, kind, ns.get('N'), len(ps)), 'C14:%s:post-state' % kind
            if na is not None and ns.get('N_active') != na:
                return True, "after op%d (%s) N_active=%d, model %d" % (opn, kind, ns.get('N_active'), na), 'C14:%s:N_active' % kind
        return False, "native run matches the list model", ''
    finally:
        ns.free()

def _native_equals(ns, ps):
    import struct as S_
    if ns.get('N') != len(ps): return False
    for i, rec in enumerate(ps):
        pv = ns.particle(i)
        if pv.get('hash') != rec['hash']: return False
        for f in PAY + ['r']:
            if pv.getbits(f) != rec[f]: return False
    return True

def engine_concrete_memerror(hist, vals):
    conc = dict(vals)
    import struct as S_
    for k_, v in list(conc.items()):
        if not k_.endswith('_hash') and k_.startswith('p'): conc[k_] = S_.unpack('<d', S_.pack('<Q', v))[0]
    try:
        run_history(PathCtx(), hist, None, None, symbolic=False, conc=conc)
    except MemError as e:
        return True, str(e)
    except Exception as e:
        return False, "engine error %r" % (e,)
    return False, "no memory error"

def replay(data):
    if data.get('kind') == 'lookup_growth': return native_many_hashes()
    return native_history([tuple(o) for o in data['hist']], {k: int(v) for k, v in data['inputs'].items()})[:2]

# ------------------------------------------------------------------------------------------ reb_hash vs MurmurHash3 spec
def murmur3_spec(bytes_, seed):
    """MurmurHash3_x86_32 (Appleby, public domain) over a list of BV8 terms"""
    def bv(v): return z3.BitVecVal(v, 32)
    def rotl(x, r): return z3.RotateLeft(x, r)
    c1 = bv(0xcc9e2d51); c2 = bv(0x1b873593)
    h = bv(seed); n = len(bytes_)
    for b in range(n // 4):
        k = z3.Concat(bytes_[4 * b + 3], bytes_[4 * b + 2], bytes_[4 * b + 1], bytes_[4 * b])
        k = k * c1; k = rotl(k, 15); k = k * c2
        h = h ^ k; h = rotl(h, 13); h = h * bv(5) + bv(0xe6546b64)
    tail = bytes_[4 * (n // 4):]
    if tail:
        k = bv(0)
        for j in reversed(range(len(tail))):
            k = k ^ (z3.ZeroExt(24, tail[j]) << (8 * j))
        k = k * c1; k = rotl(k, 15); k = k * c2; h = h ^ k
    h = h ^ bv(n)
    h = h ^ z3.LShR(h, 16); h = h * bv(0x85ebca6b); h = h ^ z3.LShR(h, 13); h = h * bv(0xc2b2ae35); h = h ^ z3.LShR(h, 16)
    return h

def run_hash(u):
    rep = Report(); n = u['len']
    ctx = PathCtx(); dom = UF(); I = new_interp(dom, ctx)
    bs = [z3.BitVec('c%d' % j, 8) for j in range(n)]
    for b in bs: ctx.assume(b != 0)
    p = I.mem.alloc(n + 1, 'str', 'harness', zero=True)
    for j, b in enumerate(bs): I.mem.objs[p.obj].cells[j] = (1, b)
    def strlen_sym(I_, q):
        o = I_.mem.obj(q, 1); k = q.off
        while True:
            b = I_.mem.byte_at(o, k)
            if isinstance(b, int):
                if b == 0: return k - q.off
            elif I_.ctx.branch(b == 0): return k - q.off
            k += 1
    I.stubs['@strlen'] = strlen_sym
    got = I.call('@reb_hash', [p])
    rep.paths += 1; rep.add_interp(I)
    ob = Obligations(rep, Prover(t_inproc_ms=u.get('t_ms', 60000), use_external=u.get('ext', False), t_ext_s=120), "reb_hash len=%d " % n)
    want = murmur3_spec(bs, 1983)
    def on_sat(model):
        s_ = bytes(model.eval(b, model_completion=True).as_long() for b in bs)
        import ctypes
        nat = get_native(); nat.lib.reb_hash.restype = ctypes.c_uint32; nat.lib.reb_hash.argtypes = [ctypes.c_char_p]
        g = nat.lib.reb_hash(s_); w = murmur3_py(s_, 1983)
        return g != w, 'C14:reb_hash', "reb_hash(%r)=%#x, MurmurHash3_x86_32=%#x" % (s_, g, w), dict(string=list(s_))
    ob.prove("reb_hash(s) == MurmurHash3_x86_32(s, seed 1983) for all %d-byte strings" % n, (got if not isinstance(got, int) else z3.BitVecVal(got, 32)) == want, ctx.pc, on_sat=on_sat, domain='BV32')
    # translator validation on concrete strings (also validates the hand-written specification against the known vectors)
    import ctypes
    nat = get_native(); nat.lib.reb_hash.restype = ctypes.c_uint32; nat.lib.reb_hash.argtypes = [ctypes.c_char_p]
    for s_ in [b'star', b'planet1', b'a', b'ab', b'abc', b'hello world', b'x' * n][:7]:
        if nat.lib.reb_hash(s_) != murmur3_py(s_, 1983): rep.errors.append("specification murmur3_py disagrees with native reb_hash on %r (spec or library wrong)" % s_)
        rep.replays += 1
    return rep

def murmur3_py(data, seed):
    M = 0xffffffff
    def rotl(x, r): return ((x << r) | (x >> (32 - r))) & M
    h = seed; n = len(data)
    for b in range(n // 4):
        k = int.from_bytes(data[4 * b:4 * b + 4], 'little')
        k = (k * 0xcc9e2d51) & M; k = rotl(k, 15); k = (k * 0x1b873593) & M
        h ^= k; h = rotl(h, 13); h = (h * 5 + 0xe6546b64) & M
    tail = data[4 * (n // 4):]
    if tail:
        k = 0
        for j in reversed(range(len(tail))): k ^= tail[j] << (8 * j)
        k = (k * 0xcc9e2d51) & M; k = rotl(k, 15); k = (k * 0x1b873593) & M; h ^= k
    h ^= n
    h ^= h >> 16; h = (h * 0x85ebca6b) & M; h ^= h >> 13; h = (h * 0xc2b2ae35) & M; h ^= h >> 16
    return h

def histories(tier):
    H = []
    A = ('add',)
    base_ops = [('remove', 0), ('remove', 1), ('remove_hash', 0), ('remove_hash', 1), ('lookup',), ('sethash', 0), ('sethash', 1), ('remove_all',), A]
    # single operations from states with 1..3 particles, with and without N_active, with full storage
    for n in (1, 2, 3):
        for na in ([-1, 1] if tier == 'quick' else [-1] + list(range(0, n + 1))):
            if na > n: continue
            for op in [('remove', 0), ('remove', 1), ('remove_hash', 0), ('remove_hash', 1), ('lookup',)]:
                if tier == 'quick' and n == 3 and op[0] == 'remove_hash' and na != -1: continue
                H.append([A] * n + [('set_n_active', na)] + [op])
        H.append([A] * n + [('shrink_storage',), A, ('lookup',)])
    # stale lookup table: build the table, then mutate, then use it again
    for mut in [('remove', 1), ('remove', 0), ('sethash', 0), ('remove_all',), A, ('remove_hash', 1)]:
        for use in [('lookup',), ('remove_hash', 1)]:
            if tier == 'quick' and use[0] == 'remove_hash' and mut[0] in ('sethash', 'add', 'remove_hash'): continue
            H.append([A, A, ('lookup',), mut, use])
    # emptying a simulation whose active-particle count had been set, then refilling it
    for n in (2, 3):
        H.append([A] * n + [('set_n_active', 1), ('remove_all',)]); H.append([A] * n + [('set_n_active', n), ('remove_all',), A, A, ('remove', 0)])
    if tier != 'quick': H.append([A, A, A, ('lookup',), ('remove', 0), ('lookup',)])
    H.append([('lookup',)]); H.append([('remove', 1)]); H.append([('remove_hash', 1)]); H.append([('remove_all',), A, ('lookup',)])
    if tier == 'thorough':
        for seq in itertools.product(base_ops, repeat=3):
            H.append([A, A] + list(seq))
        for seq in itertools.product(base_ops, repeat=2):
            H.append([A, A, A] + list(seq))
            H.append([A] + list(seq))
    # dedupe
    seen = set(); out = []
    for h in H:
        k = json.dumps(h)
        if k not in seen: seen.add(k); out.append(h)
    return out

def run_lookup_growth(u):
    """the lazy rebuild of the hash -> index table grows the table INSIDE its fill loop.  The growth step is exercised with a small
    allocation (N_allocated_lookup = 1 is not reachable through the API, where the capacity is 128 * 2^k, but the code is uniform in
    the capacity): K particles with symbolic, pairwise different, non-zero hashes; after the rebuild every hash must be found and
    must resolve to its particle.  A violation is replayed through the public API with 129..300 hashed particles."""
    rep = Report(); K = u['K']; label = "lookup table growth K=%d " % K
    L = build.layout()
    def run(ctx):
        dom = UF(); I = new_interp(dom, ctx); I.concrete_env = True; I.loop_bound = 400
        sim = Sim(I)
        H = []
        for i in range(K):
            sim.add(m=1.0, x=float(i))
            h = z3.BitVec('hash%d' % i, 32); ctx.assume(h != 0)
            for g in H: ctx.assume(h != g)
            H.append(h); sim.particle(i).set('hash', h)
        tab = I.mem.alloc(L.structs['reb_hash_pointer_pair']['size'] * 1, 'lookup', 'heap', zero=True)
        sim.set('particle_lookup_table', tab); sim.set('N_allocated_lookup', 1); sim.set('N_lookup', 0)
        found = []
        for i in range(K):
            p = I.call('@reb_simulation_particle_by_hash', [sim.ptr, H[i]])
            found.append(p)
        return I, sim, H, found
    ex = Explorer(run, max_paths=4000, timeout_ms=2000)
    try: ex.explore()
    except BoundExceeded as e: rep.bound_exceeded.append(label + str(e))
    rep.queries += ex.nqueries; rep.solver_time += ex.qtime
    psz = L.structs['reb_particle']['size']
    for ctx, (I, sim, H, found) in ex.results:
        rep.paths += 1; rep.add_interp(I)
        ob = Obligations(rep, Prover(t_inproc_ms=5000, use_external=False), label + "path%d " % rep.paths)
        base = sim.get('particles')
        def on_sat(model):
            ok, detail = native_many_hashes()
            return ok, 'C14:lookup:growth', detail, dict(kind='lookup_growth')
        for i in range(K):
            p = found[i]
            ob.prove("particle_by_hash(hash of particle %d) returns particle %d" % (i, i), isinstance(p, Ptr) and isinstance(base, Ptr) and p.obj == base.obj and p.off == base.off + i * psz, list(ctx.pc), on_sat=on_sat, domain='BV32 hashes',
                     sample=dict(returned=str(p)))
        ob.prove("table capacity covers the entries", sim.get('N_allocated_lookup') >= K and sim.get('N_lookup') == K, [], on_sat=on_sat, domain='structure')
        ob.witness("path", list(ctx.pc))
    bad, detail = native_many_hashes(); rep.replays += 1
    if bad: rep.violations.append(dict(key='C14:lookup:growth', what=detail, replay=dict(kind='lookup_growth'), obligation=label + 'native twin'))
    return rep

def native_many_hashes():
    """public API: N particles with distinct hashes are added without any lookup in between; the FIRST lookup (which builds the
    table and makes it grow 128 -> 256 -> 512 inside the fill loop) asks for an early particle"""
    import ctypes
    N_ = get_native(); bad = []
    f = N_.lib.reb_simulation_particle_by_hash; f.restype = ctypes.c_void_p; f.argtypes = [ctypes.c_void_p, ctypes.c_uint32]
    for Ntot in (129, 200, 257, 300):
        for first in (0, 5, 127):
            ns = N_.create()
            try:
                for i in range(Ntot): ns.add(m=1.0, x=float(i), hash=1000 + 7 * i)
                base = ns.get('particles')
                for j in (first, Ntot - 1, 64):
                    p = f(ns.addr, 1000 + 7 * j)
                    if p != base + j * N_.psize: bad.append((Ntot, j, p))
            finally:
                ns.free()
    return bool(bad), "native: simulations of 129..300 particles with distinct hashes, first lookup asks for an early particle: %s" % (("wrong/missing results (N, index, pointer): %r" % bad[:4]) if bad else "all found")

def worker(u):
    if 'K' in u: return run_lookup_growth(u)
    return run_hash(u) if 'len' in u else run_unit(u)

def main():
    tier = os.environ.get('VERIF_TIER') or (sys.argv[1] if len(sys.argv) > 1 else 'quick')
    t0 = time.time()
    build.module(); build.layout(); build.build_native()
    us = [dict(hist=h) for h in histories(tier)]
    us += [dict(len=n, t_ms=(20000 if tier == 'quick' else 120000), ext=(tier != 'quick')) for n in (range(0, 5) if tier == 'quick' else range(0, 9))]
    us.append(dict(K=3 if tier == 'quick' else 5))
    rep = run_units(us, worker)
    code = finish(PID, tier, rep, t0,
        bounds=dict(histories=len([u for u in us if 'hist' in u]), max_particles=3 if tier == 'quick' else 5, history_length='<= 3 operations after 1..3 adds', string_bytes='0..4' if tier == 'quick' else '0..8', loop_unwinding=400),
        assumptions=['malloc/realloc never fail', 'particle payloads are arbitrary 64-bit patterns, hashes arbitrary 32-bit values (zero and duplicates included), indices and hash arguments arbitrary 32-bit values',
                     'N_active after an unsorted (keep_sorted=0) removal is not documented and not asserted', 'integrator is the default (IAS15): MERCURIUS/TRACE/tree removal paths are outside', 'string bytes are non-zero (C strings)'],
        outside=['more than 5 particles / histories longer than the bound', 'tree and hybrid-integrator removal paths', 'the Python Particles container (thin wrapper over the same C functions)', 'allocation failure'],
        domain_note='UF/BITS: doubles are opaque 64-bit vectors (pure data movement), hashes and indices are bit-vectors; MurmurHash3 in QF_BV')
    sys.exit(code)

if __name__ == '__main__':
    main()
