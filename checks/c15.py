"""C15 — boundary conditions keep every particle accounted for (boundary part; DESIGN 5/C15).

REAL domain: the real reb_boundary_check is executed from LLVM IR with symbolic box sizes, positions, velocities, OMEGA and t.
Positions are assumed within (W + 1/2) box lengths (W = 2 quick / 4 thorough wraps per axis, unwinding assertion), every
path through the wrap loops is explored.  PERIODIC / SHEAR: afterwards every coordinate lies inside the box, N is unchanged,
each coordinate changed by an integer number of box lengths (for SHEAR: a particle wrapped by n boxes in x lands on its own
ghost image: v_y shifted by -3/2 n OMEGA L_x and y by -3/2 n OMEGA L_x t modulo L_y, the fmod quotients of the code serving as
integer witnesses).  OPEN: exactly the particles outside the box are removed and
the survivors are untouched.  reb_boundary_get_ghostbox equals its definition for i,j,k in {-1,0,1} (SHEAR: x = i Lx, v_y = -3/2 i OMEGA Lx, y = j Ly + v_y t
modulo Ly; a refuted obligation is replayed on the native function).
Tree part: particles with symbolic positions and masses are inserted into the real tree (one root box; depth bounded by a minimum
separation), every path of the octant selection is explored; on each: every particle sits in exactly one leaf whose cell contains it,
inner cells count their particles and carry their total mass and centre of mass, cells are octants of their parents; the tree force with
opening angle 0 equals the direct pairwise sum, and with a symbolic finite opening angle and softening it equals the Barnes-Hut
definition (opened cells recurse, accepted cells and leaves act through the same softened kernel); after the particles moved to new
symbolic positions reb_simulation_update_tree leaves the same invariants (re-insertion)."""
import sys, os, time, ctypes, itertools
sys.path.insert(0, os.path.dirname(os.path.dirname(os.path.abspath(__file__))))
import z3
from fractions import Fraction
from llsym import build
from llsym.harness import *
from llsym.check import *
from llsym.solve import model_value

PID = 'C15'
AX = ['x', 'y', 'z']

def run_wrap(u):
    rep = Report(); kind, W, N = u['kind'], u['W'], u['N']
    label = "%s W=%d N=%d " % (kind, W, N)
    L = build.layout()
    prover = Prover(t_inproc_ms=10000, use_external=False)
    def run(ctx):
        dom = Real(); I = new_interp(dom, ctx); I.concrete_env = True
        I.loop_bound = 2 * W + 8
        sim = Sim(I)
        for i in range(N): sim.add(m=1.0)
        box = [dom.fresh('L' + a) for a in AX]
        for a, b in zip(AX, box): sim.set('boxsize.' + a, b); ctx.assume(b > 0)
        sim.set('boundary', L.enumerators['REB_BOUNDARY_' + kind])
        V = {}
        for i in range(N):
            for c in ('x', 'y', 'z', 'vx', 'vy', 'vz'):
                V[(i, c)] = dom.fresh('%s%d' % (c, i)); sim.particle(i).set(c, V[(i, c)])
            for k, a in enumerate(AX):
                lim = (W + z3.RealVal('1/2')) * box[k]
                ctx.assume(z3.And(V[(i, a)] <= lim, V[(i, a)] >= -lim))
        OM = tt = None
        if kind == 'SHEAR':
            OM, tt = dom.fresh('OMEGA'), dom.fresh('t'); sim.set('ri_sei.OMEGA', OM); sim.set('t', tt)
        I.call('@reb_boundary_check', [sim.ptr])
        if OM is not None: V[('OMEGA', '')] = OM; V[('t', '')] = tt
        return I, dom, sim, box, V, OM
    ex = Explorer(run, max_paths=20000, timeout_ms=3000)
    try: ex.explore()
    except BoundExceeded as e: rep.bound_exceeded.append(label + str(e))
    rep.queries += ex.nqueries; rep.solver_time += ex.qtime
    for ctx, (I, dom, sim, box, V, OM) in ex.results:
        rep.paths += 1; rep.add_interp(I)
        ob = Obligations(rep, prover, label + "path%d " % rep.paths)
        pc = list(ctx.pc) + list(dom.axioms)
        def on_sat(model):
            vals = {str(t): float(model_value(model, t)) for t in list(V.values()) + box}
            ok, detail = native_wrap(u, vals)
            return ok, 'C15:%s' % kind, detail, dict(unit=u, vals=vals)
        ob.prove("N unchanged", sim.get('N') == N, pc, on_sat=on_sat, domain='REAL')
        for i in range(N):
            new = {c: dom.z(sim.particle(i).get(c)) for c in ('x', 'y', 'z', 'vx', 'vy', 'vz')}
            for k, a in enumerate(AX):
                ob.prove("particle %d: |%s| <= L%s/2 afterwards" % (i, a, a), z3.And(new[a] <= box[k] / 2, new[a] >= -box[k] / 2), pc, on_sat=on_sat, domain='REAL')
            rng = range(-(W + 2), W + 3)
            if kind == 'PERIODIC':
                for k, a in enumerate(AX):
                    ob.prove("particle %d: %s changed by a whole number of box lengths" % (i, a), z3.Or(*[new[a] == V[(i, a)] + n * box[k] for n in rng]), pc, on_sat=on_sat, domain='REAL')
                for c in ('vx', 'vy', 'vz'):
                    ob.prove("particle %d: %s untouched" % (i, c), new[c] == V[(i, c)], pc, on_sat=on_sat, domain='REAL')
            else:
                ob.prove("particle %d: radial wraps shift v_y by -3/2 OMEGA L_x per box length moved" % i,
                         z3.Or(*[z3.And(new['x'] == V[(i, 'x')] + n * box[0], new['vy'] == V[(i, 'vy')] - n * z3.RealVal('3/2') * OM * box[0]) for n in rng]), pc, on_sat=on_sat, domain='REAL')
                # a particle wrapped by n boxes in x lands on its own ghost image (reb_boundary_get_ghostbox): y moves by -3/2 n OMEGA L_x t
                # modulo L_y.  The integer witnesses are the quotients of the fmod calls the code made and the azimuthal wrap count.
                A = z3.RealVal('3/2') * OM * box[0] * V[('t', '')]
                qs = [z3.ToReal(q) for (_a, _b, _t, q) in getattr(dom, 'fmodq', [])]
                cands = [z3.RealVal(0)] + [s_ * (q + d) for q in qs for d in (-1, 0, 1) for s_ in (1, -1)]
                ob.prove("particle %d: y moves by -3/2 n OMEGA L_x t modulo L_y for n radial wraps (the ghost-image offset)" % i,
                         z3.Or(*[z3.And(new['x'] == V[(i, 'x')] + n * box[0], new['y'] == V[(i, 'y')] - n * A + (abs(n) * c + m) * box[1]) for n in rng for c in (cands if n else cands[:1]) for m in rng]),
                         pc, on_sat=on_sat, domain='REAL')
                ob.prove("particle %d: z changed by whole box lengths, vx and vz untouched" % i,
                         z3.And(z3.Or(*[new['z'] == V[(i, 'z')] + n * box[2] for n in rng]), new['vx'] == V[(i, 'vx')], new['vz'] == V[(i, 'vz')]), pc, on_sat=on_sat, domain='REAL')
        def wit(model):
            vals = {str(t): float(model_value(model, t)) for t in list(V.values()) + box}
            bad, detail = native_wrap(u, vals)
            if bad: raise RuntimeError("native disagrees: " + detail)
        if rep.paths % 10 == 1 and kind == 'PERIODIC': ob.witness("path", pc, replay=wit)
    return rep

_nat = None
def nat():
    global _nat
    if _nat is None: _nat = Native()
    return _nat

def native_wrap(u, vals):
    N_ = nat(); L = N_.L; ns = N_.create()
    try:
        for i in range(u['N']): ns.add(m=1.0)
        for a in AX: ns.set('boxsize.' + a, vals['L' + a])
        ns.set('boundary', L.enumerators['REB_BOUNDARY_' + u['kind']])
        for i in range(u['N']):
            for c in ('x', 'y', 'z', 'vx', 'vy', 'vz'): ns.particle(i).set(c, vals['%s%d' % (c, i)])
        if u['kind'] == 'SHEAR':
            ns.set('ri_sei.OMEGA', vals.get('OMEGA', 1.0)); ns.set('t', vals.get('t', 0.0))
        ns.call('reb_boundary_check')
        bad = []
        if u['kind'] == 'SHEAR' and ns.get('N') == u['N']:
            for i in range(u['N']):
                nx = (ns.particle(i).get('x') - vals['x%d' % i]) / vals['Lx']
                dvy = ns.particle(i).get('vy') - vals['vy%d' % i]
                want = -round(nx) * 1.5 * vals.get('OMEGA', 1.0) * vals['Lx']
                if abs(dvy - want) > 1e-9 * (abs(want) + abs(vals['vy%d' % i]) + 1e-300): bad.append("particle %d: v_y changed by %r after %d radial wraps, expected %r" % (i, dvy, round(nx), want))
                Aval = 1.5 * vals.get('OMEGA', 1.0) * vals['Lx'] * vals.get('t', 0.0)
                ny = (ns.particle(i).get('y') - vals['y%d' % i] + round(nx) * Aval) / vals['Ly']
                if abs(ny - round(ny)) > 1e-6 * (1 + abs(Aval / vals['Ly'])): bad.append("particle %d: y moved by %r, which is not -3/2*n*OMEGA*Lx*t = %r modulo Ly=%r (n=%d radial wraps)" % (i, ns.particle(i).get('y') - vals['y%d' % i], -round(nx) * Aval, vals['Ly'], round(nx)))
        if ns.get('N') != u['N']: bad.append("N changed to %d" % ns.get('N'))
        else:
            for i in range(u['N']):
                for a in AX:
                    v = ns.particle(i).get(a); Lb = vals['L' + a]
                    if abs(v) > Lb / 2 * (1 + 1e-12): bad.append("particle %d %s=%r outside box %r" % (i, a, v, Lb))
                    n = (v - vals['%s%d' % (a, i)]) / Lb
                    if u['kind'] == 'PERIODIC' and abs(n - round(n)) > 1e-6: bad.append("particle %d %s moved by %r box lengths" % (i, a, n))
        return bool(bad), "native reb_boundary_check: " + ('; '.join(bad) or 'ok')
    finally:
        ns.free()

def run_open(u):
    rep = Report(); N = u['N']
    label = "OPEN N=%d " % N
    L = build.layout()
    prover = Prover(t_inproc_ms=10000, use_external=False)
    def run(ctx):
        dom = Real(); I = new_interp(dom, ctx); I.concrete_env = True
        sim = Sim(I)
        for i in range(N): sim.add(m=1.0)
        box = [dom.fresh('L' + a) for a in AX]
        for a, b in zip(AX, box): sim.set('boxsize.' + a, b); ctx.assume(b > 0)
        sim.set('boundary', L.enumerators['REB_BOUNDARY_OPEN'])
        V = {}
        for i in range(N):
            for c in ('x', 'y', 'z', 'vx', 'm'):
                V[(i, c)] = dom.fresh('%s%d' % (c, i)); sim.particle(i).set(c, V[(i, c)])
        I.call('@reb_boundary_check', [sim.ptr])
        return I, dom, sim, box, V
    ex = Explorer(run, max_paths=5000, timeout_ms=3000)
    try: ex.explore()
    except BoundExceeded as e: rep.bound_exceeded.append(label + str(e))
    rep.queries += ex.nqueries; rep.solver_time += ex.qtime
    for ctx, (I, dom, sim, box, V) in ex.results:
        rep.paths += 1; rep.add_interp(I)
        ob = Obligations(rep, prover, label + "path%d " % rep.paths)
        pc = list(ctx.pc)
        outside = [z3.Or(*[z3.Or(V[(i, a)] > box[k] / 2, V[(i, a)] < -box[k] / 2) for k, a in enumerate(AX)]) for i in range(N)]
        def on_sat(model):
            vals = {str(t): float(model_value(model, t)) for t in list(V.values()) + box}
            ok, detail = native_open(u, vals)
            return ok, 'C15:OPEN', detail, dict(unit=u, vals=vals, kind='open')
        n1 = sim.get('N')
        # the survivors (as a multiset identified by their symbolic x,vx,m terms) are exactly the particles inside
        surv = [[dom.z(sim.particle(j).get(c)) for c in ('x', 'y', 'z', 'vx', 'm')] for j in range(n1)]
        for i in range(N):
            here = z3.Or(*[z3.And(*[surv[j][q] == V[(i, c)] for q, c in enumerate(('x', 'y', 'z', 'vx', 'm'))]) for j in range(n1)]) if n1 else z3.BoolVal(False)
            ob.prove("particle %d is removed iff it is outside the box (all other data symbolic, distinct)" % i, z3.Implies(z3.Not(outside[i]), here), pc, on_sat=on_sat, domain='REAL')
        ob.prove("number of survivors == number of particles inside", z3.Sum([z3.If(o, 0, 1) for o in outside]) == n1, pc, on_sat=on_sat, domain='REAL')
        for j in range(n1):
            ob.prove("survivor %d is inside the box" % j, z3.And(*[z3.And(surv[j][k] <= box[k] / 2, surv[j][k] >= -box[k] / 2) for k in range(3)]), pc, on_sat=on_sat, domain='REAL')
            ob.prove("survivor %d is one of the original particles, unmodified" % j, z3.Or(*[z3.And(*[surv[j][q] == V[(i, c)] for q, c in enumerate(('x', 'y', 'z', 'vx', 'm'))]) for i in range(N)]), pc, domain='REAL')
    return rep

def native_open(u, vals):
    N_ = nat(); L = N_.L; ns = N_.create()
    try:
        for i in range(u['N']): ns.add(m=1.0)
        for a in AX: ns.set('boxsize.' + a, vals['L' + a])
        ns.set('boundary', L.enumerators['REB_BOUNDARY_OPEN'])
        for i in range(u['N']):
            for c in ('x', 'y', 'z', 'vx', 'm'): ns.particle(i).set(c, vals['%s%d' % (c, i)])
        ns.call('reb_boundary_check')
        inside = sorted(tuple(vals['%s%d' % (c, i)] for c in ('x', 'y', 'z', 'vx', 'm')) for i in range(u['N']) if all(abs(vals['%s%d' % (a, i)]) <= vals['L' + a] / 2 for a in AX))
        got = sorted(tuple(ns.particle(j).get(c) for c in ('x', 'y', 'z', 'vx', 'm')) for j in range(ns.get('N')))
        return inside != got, "native open boundary: survivors %r, particles inside the box %r" % (got, inside)
    finally:
        ns.free()

def run_ghost(u):
    rep = Report(); rep.paths = 1
    dom = Real(); ctx = PathCtx(); I = new_interp(dom, ctx); I.concrete_env = True
    L = build.layout(); sim = Sim(I)
    box = [dom.fresh('L' + a) for a in AX]
    for a, b in zip(AX, box): sim.set('boxsize.' + a, b)
    ob = Obligations(rep, Prover(t_inproc_ms=10000, use_external=False), 'ghostbox ')
    for kind in ('OPEN', 'PERIODIC'):
        sim.set('boundary', L.enumerators['REB_BOUNDARY_' + kind])
        for ijk in itertools.product((-1, 0, 1), repeat=3):
            o = I.mem.alloc(48, 'gb', 'harness', zero=True)
            I.call('@reb_boundary_get_ghostbox', [o, sim.ptr] + [v & 0xffffffff for v in ijk])
            g = [dom.z(I.mem.load(Ptr(o.obj, 8 * q), F64)) for q in range(6)]
            ob.prove("%s ghostbox%r == (i Lx, j Ly, k Lz, 0, 0, 0)" % (kind, ijk), z3.And(g[0] == ijk[0] * box[0], g[1] == ijk[1] * box[1], g[2] == ijk[2] * box[2], g[3] == 0, g[4] == 0, g[5] == 0), [], domain='REAL')
    # SHEAR: the ghost box i boxes away in x moves with v_y = -3/2 i OMEGA L_x and sits at y = v_y t modulo L_y (plus j L_y)
    sim.set('boundary', L.enumerators['REB_BOUNDARY_SHEAR'])
    OM, tt = dom.fresh('OMEGA'), dom.fresh('t'); sim.set('ri_sei.OMEGA', OM); sim.set('t', tt)
    ctx.assume(box[1] > 0)
    for ijk in itertools.product((-1, 0, 1), repeat=3):
        o = I.mem.alloc(48, 'gb', 'harness', zero=True)
        I.call('@reb_boundary_get_ghostbox', [o, sim.ptr] + [v & 0xffffffff for v in ijk])
        g = [dom.z(I.mem.load(Ptr(o.obj, 8 * q), F64)) for q in range(6)]
        qs = [z3.ToReal(q) for (_a, _b, _t, q) in getattr(dom, 'fmodq', [])]
        cands = [z3.RealVal(0)] + [s_ * (q + d) for q in qs for d in (-1, 0, 1) for s_ in (1, -1)]
        vy = -z3.RealVal('3/2') * ijk[0] * OM * box[0]
        def on_sat(model, ijk=ijk):
            vals = {str(t): float(model_value(model, t)) for t in box + [OM, tt]}
            ok, detail = native_ghost(ijk, vals)
            return ok, 'C15:ghostbox:SHEAR', detail, dict(unit=u, ijk=list(ijk), vals=vals)
        ob.prove("SHEAR ghostbox%r: x = i Lx, z = k Lz, v = (0, -3/2 i OMEGA Lx, 0)" % (ijk,), z3.And(g[0] == ijk[0] * box[0], g[2] == ijk[2] * box[2], g[3] == 0, g[4] == vy, g[5] == 0), list(ctx.pc) + list(dom.axioms), on_sat=on_sat, domain='REAL')
        ob.prove("SHEAR ghostbox%r: y = j Ly + v_y t modulo Ly" % (ijk,), z3.Or(*[g[1] == ijk[1] * box[1] + vy * tt + c * box[1] for c in cands]), list(ctx.pc) + list(dom.axioms), on_sat=on_sat, domain='REAL')
    rep.add_interp(I)
    return rep

class _Vec6(ctypes.Structure):
    _fields_ = [(c, ctypes.c_double) for c in ('x', 'y', 'z', 'vx', 'vy', 'vz')]

def native_ghost(ijk, vals):
    N_ = nat(); L = N_.L; ns = N_.create()
    try:
        for a in AX: ns.set('boxsize.' + a, vals['L' + a])
        ns.set('boundary', L.enumerators['REB_BOUNDARY_SHEAR']); ns.set('ri_sei.OMEGA', vals['OMEGA']); ns.set('t', vals['t'])
        f = N_.lib.reb_boundary_get_ghostbox; f.restype = _Vec6; f.argtypes = [ctypes.c_void_p, ctypes.c_int, ctypes.c_int, ctypes.c_int]
        g = f(ns.addr, *ijk); bad = []
        vy = -1.5 * ijk[0] * vals['OMEGA'] * vals['Lx']
        def far(a, b): return abs(a - b) > 1e-9 * (abs(a) + abs(b)) + 1e-300
        if far(g.x, ijk[0] * vals['Lx']) or far(g.z, ijk[2] * vals['Lz']) or g.vx != 0 or g.vz != 0 or far(g.vy, vy):
            bad.append("ghostbox%r = (x=%r, z=%r, v=(%r,%r,%r)), expected x=%r z=%r v=(0,%r,0)" % (tuple(ijk), g.x, g.z, g.vx, g.vy, g.vz, ijk[0] * vals['Lx'], ijk[2] * vals['Lz'], vy))
        n = (g.y - ijk[1] * vals['Ly'] - vy * vals['t']) / vals['Ly']
        if abs(n - round(n)) > 1e-6 * (1 + abs(vy * vals['t'] / vals['Ly'])): bad.append("ghostbox%r y = %r is not j*Ly + v_y*t = %r modulo Ly = %r" % (tuple(ijk), g.y, ijk[1] * vals['Ly'] + vy * vals['t'], vals['Ly']))
        return bool(bad), "native reb_boundary_get_ghostbox (SHEAR): " + ('; '.join(bad) or 'ok')
    finally:
        ns.free()

def s32(v):
    return (v - (1 << 32) if v >= (1 << 31) else v) if isinstance(v, int) else v

def tree_cells(I, sim):
    """walk the tree in the engine's memory (pointers are concrete): returns list of (cell view, depth, parent index)"""
    L = build.layout()
    root_arr = sim.get('tree_root')
    out = []
    if not isinstance(root_arr, Ptr) or root_arr == NULL: return out
    def walk(p, depth, parent):
        c = SimView(I, p, 'reb_treecell'); idx = len(out); out.append((c, depth, parent, p))
        octoff = L.off('reb_treecell', 'oct')
        for o in range(8):
            q = I.mem.load(Ptr(p.obj, p.off + octoff + 8 * o), PtrT(I8))
            if isinstance(q, Ptr) and q != NULL: walk(q, depth + 1, idx)
    nroot = sim.get('N_root') or 1
    for k in range(nroot if isinstance(nroot, int) else 1):
        r0 = I.mem.load(Ptr(root_arr.obj, root_arr.off + 8 * k), PtrT(I8))
        if isinstance(r0, Ptr) and r0 != NULL: walk(r0, 0, None)
    return out

def run_tree(u):
    """the spatial tree: build by insertion with symbolic positions, gravity data, tree force with opening angle 0, and
    re-insertion after the particles moved"""
    rep = Report(); N, sep, move = u['N'], u['sep'], u.get('move', False)
    label = "tree N=%d separation>=%s%s%s " % (N, sep, ' + move and update' if move else '', ' finite opening angle + softening' if u.get('theta') else '')
    L = build.layout()
    prover = Prover(t_inproc_ms=u.get('t_ms', 10000), use_external=False)
    BOX = 8
    free_axes = u.get('axes', ('x', 'y'))
    def run(ctx):
        dom = Real(); I = new_interp(dom, ctx); I.concrete_env = True; I.loop_bound = 64
        sim = Sim(I)
        for i in range(N): sim.add(m=1.0)
        roots = u.get('roots', (1, 1, 1))
        I.call('@reb_simulation_configure_box', [sim.ptr, Fraction(BOX), roots[0], roots[1], roots[2]])
        sim.set('gravity', L.enumerators['REB_GRAVITY_TREE']); sim.set('opening_angle2', Fraction(0))
        G = dom.fresh('G'); sim.set('G', G)
        TH = EPS = None
        if u.get('theta'):
            TH = dom.fresh('theta2'); EPS = dom.fresh('softening'); ctx.assume(TH > 0); ctx.assume(EPS >= 0)
            sim.set('opening_angle2', TH); sim.set('softening', EPS)
        V = {}
        for i in range(N):
            for c in ('x', 'y', 'z'):
                if c in free_axes:
                    V[(i, c)] = dom.fresh('%s%d' % (c, i)); ctx.assume(z3.And(V[(i, c)] > -BOX / 2, V[(i, c)] < BOX / 2))
                else: V[(i, c)] = (Fraction(1, 3) + i) if not u.get('fixed') else Fraction(u['fixed'][i][c])          # concrete, distinct, off every cell boundary
                sim.particle(i).set(c, V[(i, c)])
            V[(i, 'm')] = dom.fresh('m%d' % i); ctx.assume(V[(i, 'm')] > 0); sim.particle(i).set('m', V[(i, 'm')])
        # bounded depth: along the first free axis any two particles are at least `sep` apart
        a0 = free_axes[0]
        for i in range(N):
            for j in range(i):
                d = V[(i, a0)] - V[(j, a0)]; ctx.assume(z3.Or(d >= sep, -d >= sep))
        if tuple(u.get('roots', (1, 1, 1))) == (1, 1, 1):
            I.stubs['@reb_get_rootbox_for_particle'] = lambda I_, r, p: 0       # one root box (N_root = 1): the index is 0 for every particle in the box
        # several root boxes: the free axis must have a single box (the root index is then computed from concrete coordinates)
        for i in range(N): I.call('@reb_tree_add_particle_to_tree', [sim.ptr, i])
        I.call('@reb_simulation_update_tree_gravity_data', [sim.ptr])
        I.call('@reb_calculate_acceleration', [sim.ptr])
        acc = [[dom.z(sim.particle(i).get(a)) for a in ('ax', 'ay', 'az')] for i in range(N)]
        cells = tree_cells(I, sim)
        snap = [dict(pt=s32(c.get('pt')), w=c.get('w'), x=c.get('x'), y=c.get('y'), z=c.get('z'), m=c.get('m'), mx=c.get('mx'), my=c.get('my'), mz=c.get('mz'), depth=d_, parent=par) for c, d_, par, p in cells]
        moved = None
        if move:
            W = {}
            for i in range(N):
                for c in free_axes:
                    W[(i, c)] = dom.fresh('%s%d_new' % (c, i)); ctx.assume(z3.And(W[(i, c)] > -BOX / 2, W[(i, c)] < BOX / 2)); sim.particle(i).set(c, W[(i, c)])
            for i in range(N):
                for j in range(i):
                    d = W[(i, a0)] - W[(j, a0)]; ctx.assume(z3.Or(d >= sep, -d >= sep))
            I.call('@reb_simulation_update_tree', [sim.ptr])
            I.call('@reb_simulation_update_tree_gravity_data', [sim.ptr])
            cells2 = tree_cells(I, sim)
            moved = (W, [dict(pt=s32(c.get('pt')), w=c.get('w'), x=c.get('x'), y=c.get('y'), z=c.get('z'), m=c.get('m'), mx=c.get('mx'), my=c.get('my'), mz=c.get('mz'), depth=d_, parent=par) for c, d_, par, p in cells2],
                     [{c: sim.particle(i).get(c) for c in ('x', 'y', 'z', 'm')} for i in range(sim.get('N'))], sim.get('N'))
        return I, dom, sim, V, G, acc, snap, moved, TH, EPS
    ex = LinExplorer(run, max_paths=u.get('max_paths', 4000))          # linear-skeleton feasibility (see llsym/check.py)
    try: ex.explore()
    except BoundExceeded as e: rep.bound_exceeded.append(label + str(e))
    rep.queries += ex.nqueries; rep.solver_time += ex.qtime
    def check_cells(ob, dom, pc, cells, pos, N_now, tag, on_sat):
        leaves = [c for c in cells if isinstance(c['pt'], int) and c['pt'] >= 0]
        ob.prove("%severy particle sits in exactly one leaf" % tag, sorted(c['pt'] for c in leaves) == list(range(N_now)), [], on_sat=on_sat, domain='structure', sample=dict(cells=len(cells), leaves=[c['pt'] for c in leaves]))
        for c in leaves:
            p = pos[c['pt']]; h = dom.z(c['w']) / 2
            ob.prove("%sparticle %d lies inside its leaf cell (depth %d)" % (tag, c['pt'], c['depth']), z3.And(*[z3.And(dom.z(p[a]) - dom.z(c[a]) <= h, dom.z(c[a]) - dom.z(p[a]) <= h) for a in ('x', 'y', 'z')]), pc, on_sat=on_sat, domain='REAL (linear)')
            ob.prove("%sleaf of particle %d carries its mass and position" % (tag, c['pt']), z3.And(dom.z(c['m']) == dom.z(p['m']), dom.z(c['mx']) == dom.z(p['x']), dom.z(c['my']) == dom.z(p['y']), dom.z(c['mz']) == dom.z(p['z'])), pc, on_sat=on_sat, domain='REAL')
        # inner cells: particle count (-pt), total mass and centre of mass of the particles below
        # (only the facts about masses are handed to the solver for these: positive masses, non-zero mass denominators)
        def only_masses(t):
            st = [t]; seen = set()
            while st:
                q = st.pop()
                if q.get_id() in seen: continue
                seen.add(q.get_id())
                if z3.is_const(q) and q.decl().kind() == z3.Z3_OP_UNINTERPRETED and not q.decl().name().startswith('m'): return False
                st.extend(q.children())
            return True
        mass_facts = [dom.z(p_['m']) > 0 for p_ in pos if z3.is_expr(p_['m'])] + [b != 0 for b in dom.divs if z3.is_expr(b) and only_masses(b)]
        def below(k):
            out_ = []
            for j, c in enumerate(cells):
                q = j
                while q is not None and q != k: q = cells[q]['parent']
                if q == k and isinstance(c['pt'], int) and c['pt'] >= 0: out_.append(c['pt'])
            return out_
        for k, c in enumerate(cells):
            if isinstance(c['pt'], int) and c['pt'] >= 0: continue
            mem = below(k)
            ob.prove("%sinner cell %d (depth %d) counts its particles (pt == -%d)" % (tag, k, c['depth'], len(mem)), c['pt'] == -len(mem), [], on_sat=on_sat, domain='structure')
            M_ = sum((dom.z(pos[i]['m']) for i in mem), z3.RealVal(0))
            ob.prove("%sinner cell %d: total mass" % (tag, k), dom.z(c['m']) == M_, mass_facts, axioms=dom.axioms, on_sat=on_sat, domain='REAL')
            for a, ma in (('x', 'mx'), ('y', 'my'), ('z', 'mz')):
                ob.prove("%sinner cell %d: centre of mass %s" % (tag, k, a), dom.z(c[ma]) * M_ == sum((dom.z(pos[i]['m']) * dom.z(pos[i][a]) for i in mem), z3.RealVal(0)), mass_facts, axioms=dom.axioms, on_sat=on_sat, domain='REAL')
            if c['parent'] is not None:
                par = cells[c['parent']]
                ob.prove("%sinner cell %d is an octant of its parent" % (tag, k), z3.And(dom.z(c['w']) * 2 == dom.z(par['w']), *[z3.Or(dom.z(c[a]) - dom.z(par[a]) == dom.z(c['w']) / 2, dom.z(par[a]) - dom.z(c[a]) == dom.z(c['w']) / 2) for a in ('x', 'y', 'z')]), [], domain='REAL')
    for ctx, (I, dom, sim, V, G, acc, snap, moved, TH, EPS) in ex.results:
        rep.paths += 1; rep.add_interp(I)
        ob = Obligations(rep, prover, label + "path%d " % rep.paths)
        pc = list(ctx.pc)
        def on_sat(model, V=V, G=G, moved=moved):
            vals = {"%s%d" % (c, i): float(model_value(model, t)) if z3.is_expr(t) else float(t) for (i, c), t in V.items()}
            vals['G'] = float(model_value(model, G) or 1.0) or 1.0
            if moved is not None:
                for (i_, c_), t_ in moved[0].items(): vals['%s%d_new' % (c_, i_)] = float(model_value(model, t_) or 0.0)
            ok, detail = native_tree(u, vals)
            return ok, 'C15:tree', detail, dict(kind='tree', unit=u, vals=vals)
        pos = [dict(x=V[(i, 'x')], y=V[(i, 'y')], z=V[(i, 'z')], m=V[(i, 'm')]) for i in range(N)]
        check_cells(ob, dom, pc, snap, pos, N, '', on_sat)
        if TH is None:
            # tree force with opening angle 0 == direct pairwise sum
            for i in range(N):
                for k, a in enumerate(('x', 'y', 'z')):
                    want = z3.RealVal(0)
                    for j in range(N):
                        if j == i: continue
                        d = [dom.z(V[(i, c)]) - dom.z(V[(j, c)]) for c in ('x', 'y', 'z')]
                        rr = dom.libm('sqrt', [d[0] * d[0] + d[1] * d[1] + d[2] * d[2]])
                        want = want - G * dom.z(V[(j, 'm')]) * d[k] * dom.fdiv(Fraction(1), rr * rr * rr)
                    ob.prove("tree force (opening angle 0) on particle %d, %s == direct pairwise sum" % (i, a), acc[i][k] == want, pc + [b != 0 for b in dom.divs], axioms=dom.axioms, on_sat=on_sat, domain='REAL')
        else:
            # Barnes-Hut definition: a cell is opened iff w^2 > theta^2 r^2 (r from the cell's centre of mass); an accepted cell and a leaf
            # act as a point mass at their centre of mass through the SAME softened kernel -G m d / (r^2 + eps^2)^(3/2)
            kids = {k: [j for j, c in enumerate(snap) if c['parent'] == k] for k in range(len(snap))}
            def mono(c, i, k):
                d = [dom.z(V[(i, a_)]) - dom.z(c[ma]) for a_, ma in (('x', 'mx'), ('y', 'my'), ('z', 'mz'))]
                r2 = d[0] * d[0] + d[1] * d[1] + d[2] * d[2]
                rr = dom.libm('sqrt', [r2 + dom.z(EPS) * dom.z(EPS)])
                return r2, -G * dom.fdiv(Fraction(1), rr * rr * rr) * dom.z(c['m']) * d[k]
            def Fref(ci, i, k):
                c = snap[ci]; r2, m_ = mono(c, i, k)
                if isinstance(c['pt'], int) and c['pt'] >= 0: return z3.RealVal(0) if c['pt'] == i else m_
                return z3.If(dom.z(c['w']) * dom.z(c['w']) > TH * r2, sum((Fref(j, i, k) for j in kids[ci]), z3.RealVal(0)), m_)
            for i in range(N):
                for k, a in enumerate(('x', 'y', 'z')):
                    ob.prove("tree force (finite opening angle, softened) on particle %d, %s == Barnes-Hut sum over opened / accepted cells" % (i, a), acc[i][k] == Fref(0, i, k), pc + [b != 0 for b in dom.divs], axioms=dom.axioms, on_sat=on_sat, domain='REAL')
        if moved is not None:
            W, snap2, pos2, N2 = moved
            ob.prove("moving particles inside the box loses none", N2 == N, [], on_sat=on_sat, domain='structure')
            if N2 == N:
                # particles may have been re-ordered by the re-insertion: the multiset of (position, mass) must be unchanged
                want_pos = [dict(x=W.get((i, 'x'), V[(i, 'x')]), y=W.get((i, 'y'), V[(i, 'y')]), z=W.get((i, 'z'), V[(i, 'z')]), m=V[(i, 'm')]) for i in range(N)]
                same = lambda p, q: z3.And(*[dom.z(p[c]) == dom.z(q[c]) for c in ('x', 'y', 'z', 'm')])
                for i in range(N):
                    ob.prove("after update_tree particle slot %d still holds one of the particles" % i, z3.Or(*[same(pos2[i], w_) for w_ in want_pos]), pc, on_sat=on_sat, domain='REAL')
                check_cells(ob, dom, pc, snap2, pos2, N2, 'after move + update_tree: ', on_sat)
        _lin = Lineariser(); ob.witness("path (linear skeleton of the path condition)", [_lin(c_) for c_ in pc])
    bad, detail = native_tree(u, None); rep.replays += 1
    if bad: rep.violations.append(dict(key='C15:tree', what=detail, replay=dict(kind='tree', unit=u, vals=None), obligation=label + 'native twin'))
    return rep

def native_tree(u, vals):
    """crash-isolated wrapper: a crash of the native library inside the twin / replay is itself a reproduced violation"""
    try: return isolated(_native_tree, u, vals, timeout=300)
    except NativeCrash as e:
        return True, "the native library crashed (signal %s) in the tree twin: build / update / tree force on %s" % (e.sig, 'the model values' if vals else 'random configurations')

def _native_tree(u, vals):
    """native: tree force with opening angle 0 against the direct BASIC force on the same particles, before and after moving them"""
    import random, math
    N_ = nat(); L = N_.L; N = u['N']; rnd = random.Random(5)
    worst = 0.0; bad = []
    if u.get('theta'):
        # a tight pair seen from afar with theta^2 = 1: the pair's depth-1 cell (w = 4) is accepted for the distant particle and
        # acts as one softened point mass; everything else is opened down to the leaves
        eps = 0.7; G = 1.0
        P3 = [dict(x=-3.0, y=0.3, z=0.33, m=1.0), dict(x=-2.6, y=0.35, z=0.4, m=2.0), dict(x=3.5, y=-0.4, z=-0.2, m=0.5)]
        ns = N_.create()
        try:
            f = N_.lib.reb_simulation_configure_box; f.argtypes = [ctypes.c_void_p, ctypes.c_double, ctypes.c_int, ctypes.c_int, ctypes.c_int]; f.restype = None
            f(ns.addr, 8.0, 1, 1, 1)
            ns.set('gravity', L.enumerators['REB_GRAVITY_TREE']); ns.set('opening_angle2', 1.0); ns.set('softening', eps)
            for p in P3: ns.add(**p)
            ns.call('reb_simulation_update_tree_gravity_data'); ns.call('reb_calculate_acceleration')
            got = [[ns.particle(i).get(a) for a in ('ax', 'ay', 'az')] for i in range(3)]
        finally: ns.free()
        def kern(src_m, src, at):
            d = [at[k] - src[k] for k in range(3)]; r2 = sum(c * c for c in d) + eps * eps
            return [-G * src_m * c / r2 ** 1.5 for c in d]
        X = [[p['x'], p['y'], p['z']] for p in P3]; M = [p['m'] for p in P3]
        com = [(M[0] * X[0][k] + M[1] * X[1][k]) / (M[0] + M[1]) for k in range(3)]
        want = [[a + b for a, b in zip(kern(M[1], X[1], X[0]), kern(M[2], X[2], X[0]))], [a + b for a, b in zip(kern(M[0], X[0], X[1]), kern(M[2], X[2], X[1]))], kern(M[0] + M[1], com, X[2])]
        err = max(abs(g_ - w_) for gi, wi in zip(got, want) for g_, w_ in zip(gi, wi)) / max(abs(w_) for wi in want for w_ in wi)
        return err > 1e-12, "native tree force, theta^2=1, softening 0.7, tight pair + distant particle: %s (relative deviation from the Barnes-Hut definition %.2e)" % ("differs" if err > 1e-12 else "agrees", err)
    trials = [vals] if vals else [None] * 20
    roots = tuple(u.get('roots', (1, 1, 1)))
    for tv in trials:
        pts = []
        for i in range(N):
            if tv: pts.append(dict(x=tv['x%d' % i], y=tv['y%d' % i], z=tv['z%d' % i], m=max(tv['m%d' % i], 1e-3)))
            else: pts.append(dict(x=rnd.uniform(-3.9, 3.9) * roots[0], y=rnd.uniform(-3.9, 3.9) * roots[1], z=rnd.uniform(-3.9, 3.9) * roots[2], m=rnd.uniform(0.5, 2)))
        res = []
        for grav in ('TREE', 'BASIC'):
            ns = N_.create()
            try:
                f = N_.lib.reb_simulation_configure_box; f.argtypes = [ctypes.c_void_p, ctypes.c_double, ctypes.c_int, ctypes.c_int, ctypes.c_int]; f.restype = None
                f(ns.addr, 8.0, roots[0], roots[1], roots[2])
                ns.set('gravity', L.enumerators['REB_GRAVITY_' + grav]); ns.set('opening_angle2', 0.0)
                for p in pts: ns.add(**p)
                out = []
                for phase in range(2 if u.get('move') else 1):
                    if phase == 1:
                        for i in range(ns.get('N')):
                            pp = ns.particle(i)
                            if tv and any(k_.endswith('_new') for k_ in tv):
                                for c_ in ('x', 'y', 'z'):
                                    if '%s%d_new' % (c_, i) in tv: pp.set(c_, tv['%s%d_new' % (c_, i)])
                            else:
                                pp.set('x', -pp.get('x') * 0.9); pp.set('y', pp.get('y') * 0.5 + 1.0); pp.set('z', 0.8 * pp.get('z') - 0.7)
                        if grav == 'TREE': ns.call('reb_simulation_update_tree')
                    if grav == 'TREE':
                        ns.call('reb_simulation_update_tree_gravity_data')
                        # every particle must lie inside the leaf cell it points to (native tree read through the particle's cell pointer)
                        for i in range(ns.get('N')):
                            pp = ns.particle(i); cptr = pp.get('c')
                            if not cptr: bad.append(('particle %d has no leaf' % i,)); continue
                            cell = NView(N_, cptr, 'reb_treecell')
                            if cell.get('pt') != i or any(abs(pp.get(a_) - cell.get(a_)) > cell.get('w') / 2 * (1 + 1e-12) for a_ in ('x', 'y', 'z')):
                                bad.append(('phase %d: particle %d at %r is not inside its leaf cell centre %r width %r (leaf holds index %r)' % (phase, i, tuple(pp.get(a_) for a_ in ('x', 'y', 'z')), tuple(cell.get(a_) for a_ in ('x', 'y', 'z')), cell.get('w'), cell.get('pt')),))
                    ns.call('reb_calculate_acceleration')
                    out.append(sorted((round(ns.particle(i).get('m'), 12), ns.particle(i).get('ax'), ns.particle(i).get('ay'), ns.particle(i).get('az')) for i in range(ns.get('N'))))
                res.append(out)
            finally:
                ns.free()
        for ph in range(len(res[0])):
            if len(res[0][ph]) != len(res[1][ph]): bad.append(('particle count', len(res[0][ph]), len(res[1][ph]))); continue
            for a_, b_ in zip(res[0][ph], res[1][ph]):
                sc = max(abs(v) for v in b_[1:]) + 1e-300
                e = max(abs(x - y) for x, y in zip(a_[1:], b_[1:])) / sc; worst = max(worst, e)
                if e > 1e-9: bad.append((pts, a_, b_))
    return bool(bad), "native tree force (opening angle 0) vs direct summation on %d configuration(s): %s" % (len(trials), ("differs: %r" % (bad[0],)) if bad else "agree (worst relative difference %.2e)" % worst)

def worker(u):
    return {'wrap': run_wrap, 'open': run_open, 'ghost': run_ghost, 'tree': run_tree}[u['what']](u)

def replay(data):
    if data.get('kind') == 'tree': return native_tree(data['unit'], data['vals'])
    if data.get('kind') == 'open': return native_open(data['unit'], data['vals'])
    return native_wrap(data['unit'], data['vals'])

def main():
    tier = os.environ.get('VERIF_TIER') or (sys.argv[1] if len(sys.argv) > 1 else 'quick')
    t0 = time.time()
    build.module(); build.layout(); build.build_native()
    W = 1 if tier == 'quick' else 3
    us = [dict(what='wrap', kind='PERIODIC', W=W, N=1), dict(what='wrap', kind='SHEAR', W=W, N=1), dict(what='open', N=2), dict(what='ghost')]
    us += [dict(what='tree', N=2, sep=2, axes=('x',), roots=(1, 1, 2), fixed=[dict(y='1/3', z='-11/3'), dict(y='4/3', z='13/3')]),
           dict(what='tree', N=3, sep=2, axes=('x',), roots=(1, 2, 3), fixed=[dict(y='-11/3', z='-31/3'), dict(y='13/3', z='1/3'), dict(y='10/3', z='31/3')], move=True),
           dict(what='tree', N=2, sep=2, axes=('x', 'y')), dict(what='tree', N=2, sep=2, axes=('x',), move=True), dict(what='tree', N=2, sep=2, axes=('y',), move=True), dict(what='tree', N=2, sep=2, axes=('z',), move=True), dict(what='tree', N=3, sep=2, axes=('x',)), dict(what='tree', N=2, sep=2, axes=('x',), theta=True)]
    if tier == 'thorough': us += [dict(what='tree', N=3, sep=2, axes=('x',), theta=True, t_ms=30000), dict(what='tree', N=2, sep=1, axes=('x', 'y'), max_paths=20000), dict(what='tree', N=2, sep=2, axes=('x', 'y'), theta=True, max_paths=20000)]
    if tier == 'thorough': us += [dict(what='wrap', kind='PERIODIC', W=1, N=2), dict(what='open', N=3)]
    rep = run_units(us, worker)
    code = finish(PID, tier, rep, t0,
        bounds=dict(wraps_per_axis=W, particles='1 (wrap), 2..3 (open)', unwinding=W + 4),
        assumptions=['box sizes > 0; positions within (W+1/2) box lengths per axis', 'fmod as its defining relation (integer quotient, remainder with the sign of the dividend)', 'real arithmetic'],
        outside=['the spatial tree beyond N = 3 particles in one root box (several root boxes, re-insertion across root boxes, quadrupole moments, the collision-search use of the tree)', 'more wraps than W per axis in one call', 'SHEAR: which representative of the azimuthal offset modulo L_y is chosen (only the residue class and |y| <= L_y/2 are decided)', 'rounding'],
        domain_note='REAL with path forking over the wrap loops')
    sys.exit(code)

if __name__ == '__main__':
    main()
