"""C15 — boundary conditions keep every particle accounted for (boundary part; DESIGN 5/C15).

REAL domain: the real reb_boundary_check is executed from LLVM IR with symbolic box sizes, positions, velocities, OMEGA and t.
Positions are assumed within (W + 1/2) box lengths (W = 2 quick / 4 thorough wraps per axis, unwinding assertion), every
path through the wrap loops is explored.  PERIODIC / SHEAR: afterwards every coordinate lies inside the box, N is unchanged,
each coordinate changed by an integer number of box lengths (for SHEAR: plus the documented azimuthal offset per radial
crossing, with v_y shifted by -/+ 3/2 OMEGA L_x per crossing).  OPEN: exactly the particles outside the box are removed and
the survivors are untouched.  reb_boundary_get_ghostbox equals its definition for i,j,k in {-1,0,1}."""
import sys, os, time, ctypes, itertools
sys.path.insert(0, os.path.dirname(os.path.dirname(os.path.abspath(__file__))))
import z3
from llsym import build
from llsym.harness import *
from llsym.check import *
from llsym.solve import model_value

PID = 'C15'
AX = ['x', 'y', 'z']

def run_wrap(u):
    rep = Report(); kind, W, N = u['kind'], u['W'], u['N']
    label = "%s W=%d N=%d " % (kind, W, N)
    L = build.layout()
    prover = Prover(t_inproc_ms=10000, use_external=False)
    def run(ctx):
        dom = Real(); I = new_interp(dom, ctx); I.concrete_env = True
        I.loop_bound = 2 * W + 8
        sim = Sim(I)
        for i in range(N): sim.add(m=1.0)
        box = [dom.fresh('L' + a) for a in AX]
        for a, b in zip(AX, box): sim.set('boxsize.' + a, b); ctx.assume(b > 0)
        sim.set('boundary', L.enumerators['REB_BOUNDARY_' + kind])
        V = {}
        for i in range(N):
            for c in ('x', 'y', 'z', 'vx', 'vy', 'vz'):
                V[(i, c)] = dom.fresh('%s%d' % (c, i)); sim.particle(i).set(c, V[(i, c)])
            for k, a in enumerate(AX):
                lim = (W + z3.RealVal('1/2')) * box[k]
                ctx.assume(z3.And(V[(i, a)] <= lim, V[(i, a)] >= -lim))
        OM = tt = None
        if kind == 'SHEAR':
            OM, tt = dom.fresh('OMEGA'), dom.fresh('t'); sim.set('ri_sei.OMEGA', OM); sim.set('t', tt)
        I.call('@reb_boundary_check', [sim.ptr])
        if OM is not None: V[('OMEGA', '')] = OM; V[('t', '')] = tt
        return I, dom, sim, box, V, OM
    ex = Explorer(run, max_paths=20000, timeout_ms=3000)
    try: ex.explore()
    except BoundExceeded as e: rep.bound_exceeded.append(label + str(e))
    rep.queries += ex.nqueries; rep.solver_time += ex.qtime
    for ctx, (I, dom, sim, box, V, OM) in ex.results:
        rep.paths += 1; rep.add_interp(I)
        ob = Obligations(rep, prover, label + "path%d " % rep.paths)
        pc = list(ctx.pc) + list(dom.axioms)
        def on_sat(model):
            vals = {str(t): float(model_value(model, t)) for t in list(V.values()) + box}
            ok, detail = native_wrap(u, vals)
            return ok, 'C15:%s' % kind, detail, dict(unit=u, vals=vals)
        ob.prove("N unchanged", sim.get('N') == N, pc, on_sat=on_sat, domain='REAL')
        for i in range(N):
            new = {c: dom.z(sim.particle(i).get(c)) for c in ('x', 'y', 'z', 'vx', 'vy', 'vz')}
            for k, a in enumerate(AX):
                ob.prove("particle %d: |%s| <= L%s/2 afterwards" % (i, a, a), z3.And(new[a] <= box[k] / 2, new[a] >= -box[k] / 2), pc, on_sat=on_sat, domain='REAL')
            rng = range(-(W + 2), W + 3)
            if kind == 'PERIODIC':
                for k, a in enumerate(AX):
                    ob.prove("particle %d: %s changed by a whole number of box lengths" % (i, a), z3.Or(*[new[a] == V[(i, a)] + n * box[k] for n in rng]), pc, on_sat=on_sat, domain='REAL')
                for c in ('vx', 'vy', 'vz'):
                    ob.prove("particle %d: %s untouched" % (i, c), new[c] == V[(i, c)], pc, on_sat=on_sat, domain='REAL')
            else:
                ob.prove("particle %d: radial wraps shift v_y by -3/2 OMEGA L_x per box length moved" % i,
                         z3.Or(*[z3.And(new['x'] == V[(i, 'x')] + n * box[0], new['vy'] == V[(i, 'vy')] - n * z3.RealVal('3/2') * OM * box[0]) for n in rng]), pc, on_sat=on_sat, domain='REAL')
                ob.prove("particle %d: z changed by whole box lengths, vx and vz untouched" % i,
                         z3.And(z3.Or(*[new['z'] == V[(i, 'z')] + n * box[2] for n in rng]), new['vx'] == V[(i, 'vx')], new['vz'] == V[(i, 'vz')]), pc, on_sat=on_sat, domain='REAL')
        def wit(model):
            vals = {str(t): float(model_value(model, t)) for t in list(V.values()) + box}
            bad, detail = native_wrap(u, vals)
            if bad: raise RuntimeError("native disagrees: " + detail)
        if rep.paths % 10 == 1 and kind == 'PERIODIC': ob.witness("path", pc, replay=wit)
    return rep

_nat = None
def nat():
    global _nat
    if _nat is None: _nat = Native()
    return _nat

def native_wrap(u, vals):
    N_ = nat(); L = N_.L; ns = N_.create()
    try:
        for i in range(u['N']): ns.add(m=1.0)
        for a in AX: ns.set('boxsize.' + a, vals['L' + a])
        ns.set('boundary', L.enumerators['REB_BOUNDARY_' + u['kind']])
        for i in range(u['N']):
            for c in ('x', 'y', 'z', 'vx', 'vy', 'vz'): ns.particle(i).set(c, vals['%s%d' % (c, i)])
        if u['kind'] == 'SHEAR':
            ns.set('ri_sei.OMEGA', vals.get('OMEGA', 1.0)); ns.set('t', vals.get('t', 0.0))
        ns.call('reb_boundary_check')
        bad = []
        if u['kind'] == 'SHEAR' and ns.get('N') == u['N']:
            for i in range(u['N']):
                nx = (ns.particle(i).get('x') - vals['x%d' % i]) / vals['Lx']
                dvy = ns.particle(i).get('vy') - vals['vy%d' % i]
                want = -round(nx) * 1.5 * vals.get('OMEGA', 1.0) * vals['Lx']
                if abs(dvy - want) > 1e-9 * (abs(want) + abs(vals['vy%d' % i]) + 1e-300): bad.append("particle %d: v_y changed by %r after %d radial wraps, expected %r" % (i, dvy, round(nx), want))
        if ns.get('N') != u['N']: bad.append("N changed to %d" % ns.get('N'))
        else:
            for i in range(u['N']):
                for a in AX:
                    v = ns.particle(i).get(a); Lb = vals['L' + a]
                    if abs(v) > Lb / 2 * (1 + 1e-12): bad.append("particle %d %s=%r outside box %r" % (i, a, v, Lb))
                    n = (v - vals['%s%d' % (a, i)]) / Lb
                    if u['kind'] == 'PERIODIC' and abs(n - round(n)) > 1e-6: bad.append("particle %d %s moved by %r box lengths" % (i, a, n))
        return bool(bad), "native reb_boundary_check: " + ('; '.join(bad) or 'ok')
    finally:
        ns.free()

def run_open(u):
    rep = Report(); N = u['N']
    label = "OPEN N=%d " % N
    L = build.layout()
    prover = Prover(t_inproc_ms=10000, use_external=False)
    def run(ctx):
        dom = Real(); I = new_interp(dom, ctx); I.concrete_env = True
        sim = Sim(I)
        for i in range(N): sim.add(m=1.0)
        box = [dom.fresh('L' + a) for a in AX]
        for a, b in zip(AX, box): sim.set('boxsize.' + a, b); ctx.assume(b > 0)
        sim.set('boundary', L.enumerators['REB_BOUNDARY_OPEN'])
        V = {}
        for i in range(N):
            for c in ('x', 'y', 'z', 'vx', 'm'):
                V[(i, c)] = dom.fresh('%s%d' % (c, i)); sim.particle(i).set(c, V[(i, c)])
        I.call('@reb_boundary_check', [sim.ptr])
        return I, dom, sim, box, V
    ex = Explorer(run, max_paths=5000, timeout_ms=3000)
    try: ex.explore()
    except BoundExceeded as e: rep.bound_exceeded.append(label + str(e))
    rep.queries += ex.nqueries; rep.solver_time += ex.qtime
    for ctx, (I, dom, sim, box, V) in ex.results:
        rep.paths += 1; rep.add_interp(I)
        ob = Obligations(rep, prover, label + "path%d " % rep.paths)
        pc = list(ctx.pc)
        outside = [z3.Or(*[z3.Or(V[(i, a)] > box[k] / 2, V[(i, a)] < -box[k] / 2) for k, a in enumerate(AX)]) for i in range(N)]
        def on_sat(model):
            vals = {str(t): float(model_value(model, t)) for t in list(V.values()) + box}
            ok, detail = native_open(u, vals)
            return ok, 'C15:OPEN', detail, dict(unit=u, vals=vals, kind='open')
        n1 = sim.get('N')
        # the survivors (as a multiset identified by their symbolic x,vx,m terms) are exactly the particles inside
        surv = [[dom.z(sim.particle(j).get(c)) for c in ('x', 'y', 'z', 'vx', 'm')] for j in range(n1)]
        for i in range(N):
            here = z3.Or(*[z3.And(*[surv[j][q] == V[(i, c)] for q, c in enumerate(('x', 'y', 'z', 'vx', 'm'))]) for j in range(n1)]) if n1 else z3.BoolVal(False)
            ob.prove("particle %d is removed iff it is outside the box (all other data symbolic, distinct)" % i, z3.Implies(z3.Not(outside[i]), here), pc, on_sat=on_sat, domain='REAL')
        ob.prove("number of survivors == number of particles inside", z3.Sum([z3.If(o, 0, 1) for o in outside]) == n1, pc, on_sat=on_sat, domain='REAL')
        for j in range(n1):
            ob.prove("survivor %d is inside the box" % j, z3.And(*[z3.And(surv[j][k] <= box[k] / 2, surv[j][k] >= -box[k] / 2) for k in range(3)]), pc, on_sat=on_sat, domain='REAL')
            ob.prove("survivor %d is one of the original particles, unmodified" % j, z3.Or(*[z3.And(*[surv[j][q] == V[(i, c)] for q, c in enumerate(('x', 'y', 'z', 'vx', 'm'))]) for i in range(N)]), pc, domain='REAL')
    return rep

def native_open(u, vals):
    N_ = nat(); L = N_.L; ns = N_.create()
    try:
        for i in range(u['N']): ns.add(m=1.0)
        for a in AX: ns.set('boxsize.' + a, vals['L' + a])
        ns.set('boundary', L.enumerators['REB_BOUNDARY_OPEN'])
        for i in range(u['N']):
            for c in ('x', 'y', 'z', 'vx', 'm'): ns.particle(i).set(c, vals['%s%d' % (c, i)])
        ns.call('reb_boundary_check')
        inside = sorted(tuple(vals['%s%d' % (c, i)] for c in ('x', 'y', 'z', 'vx', 'm')) for i in range(u['N']) if all(abs(vals['%s%d' % (a, i)]) <= vals['L' + a] / 2 for a in AX))
        got = sorted(tuple(ns.particle(j).get(c) for c in ('x', 'y', 'z', 'vx', 'm')) for j in range(ns.get('N')))
        return inside != got, "native open boundary: survivors %r, particles inside the box %r" % (got, inside)
    finally:
        ns.free()

def run_ghost(u):
    rep = Report(); rep.paths = 1
    dom = Real(); ctx = PathCtx(); I = new_interp(dom, ctx); I.concrete_env = True
    L = build.layout(); sim = Sim(I)
    box = [dom.fresh('L' + a) for a in AX]
    for a, b in zip(AX, box): sim.set('boxsize.' + a, b)
    ob = Obligations(rep, Prover(t_inproc_ms=10000, use_external=False), 'ghostbox ')
    for kind in ('OPEN', 'PERIODIC'):
        sim.set('boundary', L.enumerators['REB_BOUNDARY_' + kind])
        for ijk in itertools.product((-1, 0, 1), repeat=3):
            o = I.mem.alloc(48, 'gb', 'harness', zero=True)
            I.call('@reb_boundary_get_ghostbox', [o, sim.ptr] + [v & 0xffffffff for v in ijk])
            g = [dom.z(I.mem.load(Ptr(o.obj, 8 * q), F64)) for q in range(6)]
            ob.prove("%s ghostbox%r == (i Lx, j Ly, k Lz, 0, 0, 0)" % (kind, ijk), z3.And(g[0] == ijk[0] * box[0], g[1] == ijk[1] * box[1], g[2] == ijk[2] * box[2], g[3] == 0, g[4] == 0, g[5] == 0), [], domain='REAL')
    rep.add_interp(I)
    return rep

def worker(u):
    return {'wrap': run_wrap, 'open': run_open, 'ghost': run_ghost}[u['what']](u)

def replay(data):
    if data.get('kind') == 'open': return native_open(data['unit'], data['vals'])
    return native_wrap(data['unit'], data['vals'])

def main():
    tier = os.environ.get('VERIF_TIER') or (sys.argv[1] if len(sys.argv) > 1 else 'quick')
    t0 = time.time()
    build.module(); build.layout(); build.build_native()
    W = 1 if tier == 'quick' else 3
    us = [dict(what='wrap', kind='PERIODIC', W=W, N=1), dict(what='wrap', kind='SHEAR', W=W, N=1), dict(what='open', N=2), dict(what='ghost')]
    if tier == 'thorough': us += [dict(what='wrap', kind='PERIODIC', W=1, N=2), dict(what='open', N=3)]
    rep = run_units(us, worker)
    code = finish(PID, tier, rep, t0,
        bounds=dict(wraps_per_axis=W, particles='1 (wrap), 2..3 (open)', unwinding=W + 4),
        assumptions=['box sizes > 0; positions within (W+1/2) box lengths per axis', 'fmod as its defining relation (integer quotient, remainder with the sign of the dividend)', 'real arithmetic'],
        outside=['the spatial tree (leaf/cell invariants, mass and centre-of-mass sums, re-insertion across root boxes): not built in this session', 'more wraps than W per axis in one call', 'SHEAR: the azimuthal offset bookkeeping y_new - y_old (fmod terms) beyond staying inside the box', 'rounding'],
        domain_note='REAL with path forking over the wrap loops')
    sys.exit(code)

if __name__ == '__main__':
    main()
