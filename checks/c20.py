"""C20 — changes of units and of reference frame are exact symmetries (DESIGN 5/C20).

Units: the shipped rebound/units.py is executed on z3 Real terms (operator overloading = symbolic execution of the real
Python code) for every length x time x mass triple of its dictionaries: reversibility and transitivity of the conversions,
invariance of Kepler's third law under units_convert_particle + convert_G, convert_G consistency; check_units on every
order/case; SI tables against an independent reference table.
Rotations and frames: the real C functions (rotations.c, reb_simulation_move_to_hel/com, imul/iadd/isub) are executed from
LLVM IR in the REAL domain; quaternion facts are proved as lemmas (L1 irotate = q v q*, L2 composition, L3 norm product) and
every constructor is proved to return a unit quaternion that does what it says, on every path of its case analysis."""
import sys, os, time, types, itertools, importlib.util, ctypes, math
sys.path.insert(0, os.path.dirname(os.path.dirname(os.path.abspath(__file__))))
import z3
from fractions import Fraction
from llsym import build
from llsym.harness import *
from llsym.check import *
from llsym.solve import model_value

PID = 'C20'

# reference values (IAU 2012 / IAU 2015 / CODATA 2014, NASA-JPL GM); independent of REBOUND's tables
REF = {
    'lengths': {'m': 1.0, 'cm': 0.01, 'km': 1000.0, 'au': 149597870700.0, 'pc': 149597870700.0 * 648000.0 / math.pi},
    'times': {'s': 1.0, 'hr': 3600.0, 'day': 86400.0, 'yr': 365.25 * 86400.0, 'kyr': 365.25 * 86400.0e3, 'myr': 365.25 * 86400.0e6, 'gyr': 365.25 * 86400.0e9,
              'sidereal_yr': 365.256363004 * 86400.0},
    'G': 6.67408e-11,
    'GM_km3s2': {'msun': 1.32712440018e11, 'mmercury': 2.2032e4, 'mvenus': 3.24859e5, 'mearth': 3.986004418e5, 'mmars': 4.282837e4, 'mjupiter': 1.26686534e8,
                 'msaturn': 3.7931187e7, 'muranus': 5.793939e6, 'mneptune': 6.836529e6, 'mpluto': 8.71e2},
}
ALIASES = {'aus': 'au', 'parsec': 'pc', 'days': 'day', 'd': 'day', 'year': 'yr', 'years': 'yr', 'yrs': 'yr', 'jyr': 'yr', 'g': None, 'gram': None,
           'solarmass': 'msun', 'sunmass': 'msun', 'msolar': 'msun'}

def load_units():
    """import the repository's units.py under python3-vt with a stand-in parent package whose clibrebound is the fresh library"""
    so = build.build_native()
    pkg = types.ModuleType('rebound'); pkg.__path__ = [os.path.join(build.REPO, 'rebound')]
    pkg.clibrebound = ctypes.CDLL(so)
    sys.modules['rebound'] = pkg
    spec = importlib.util.spec_from_file_location('rebound.units', os.path.join(build.REPO, 'rebound', 'units.py'))
    m = importlib.util.module_from_spec(spec); sys.modules['rebound.units'] = m
    spec.loader.exec_module(m)
    return m

class P:      # stand-in for a particle: plain attributes (units_convert_particle only reads/writes attributes)
    pass

def run_units(u):
    rep = Report(); rep.paths = 1
    U = load_units()
    prover = Prover(t_inproc_ms=10000, use_external=False)
    ob = Obligations(rep, prover, 'units ')
    Ls, Ts, Ms = sorted(U.lengths_SI), sorted(U.times_SI), sorted(U.masses_SI)
    Lsel = [l for k_, l in enumerate(Ls) if k_ % u.get('nslices', 1) == u.get('slice', 0)]
    x = z3.Real('x'); pos = [x > 0]
    # ---- reversibility / transitivity per quantity (pairs and triples of units)
    sol = z3.Solver()
    def closed(goal, name, assumptions=()):
        ob.prove(name, goal, list(assumptions), domain='REAL (real Python code on z3 terms)')
    for tab, fn, label in ((Ls, U.convert_length, 'length'), (Ms, U.convert_mass, 'mass')):
        for a in (tab if u.get('slice', 0) == 0 else []):
            for b in tab:
                closed(fn(fn(x, a, b), b, a) == x, "%s %s->%s->%s is the identity" % (label, a, b, a))
                for c in (tab if u['tier'] == 'thorough' else tab[:3]):
                    closed(fn(fn(x, a, b), b, c) == fn(x, a, c), "%s %s->%s->%s == %s->%s" % (label, a, b, c, a, c))
    pairs = [(l, t) for l in Lsel for t in Ts]
    sub = pairs if u['tier'] == 'thorough' else pairs[::5]
    for (l1, t1) in sub:
        for (l2, t2) in ([(l_, t_) for l_ in Ls for t_ in Ts] if u['tier'] == 'thorough' else [(l_, t_) for l_ in Ls for t_ in Ts][::7]):
            # definition: the SI value of the quantity is the same before and after (this is what pins each conversion to the tables;
            # reversibility and transitivity alone are also satisfied by a conversion that uses the wrong table entry consistently)
            def replay_fn(fn_, args, ref_):
                def on_sat(model):
                    xv = float(model_value(model, x) or 1.0) or 1.0
                    got = fn_(xv, *args); want = ref_(xv)
                    bad = abs(got - want) > 1e-12 * abs(want)
                    return bad, 'C20:units:%s' % fn_.__name__, "%s(%r, %s) = %r, definition gives %r" % (fn_.__name__, xv, ', '.join(args), got, want), dict(kind='units_fn', fn=fn_.__name__, args=list(args), x=xv)
                return on_sat
            Lr, Tr = U.lengths_SI, U.times_SI
            ob.prove("velocity %s/%s -> %s/%s keeps the SI value" % (l1, t1, l2, t2), U.convert_vel(x, l1, t1, l2, t2) * Lr[l2] / Tr[t2] == x * Lr[l1] / Tr[t1], [], on_sat=replay_fn(U.convert_vel, (l1, t1, l2, t2), lambda xv: xv * Lr[l1] / Tr[t1] * Tr[t2] / Lr[l2]), domain='REAL (real Python code on z3 terms)')
            ob.prove("acceleration %s/%s^2 -> %s/%s^2 keeps the SI value" % (l1, t1, l2, t2), U.convert_acc(x, l1, t1, l2, t2) * Lr[l2] / Tr[t2] ** 2 == x * Lr[l1] / Tr[t1] ** 2, [], on_sat=replay_fn(U.convert_acc, (l1, t1, l2, t2), lambda xv: xv * Lr[l1] / Tr[t1] ** 2 * Tr[t2] ** 2 / Lr[l2]), domain='REAL (real Python code on z3 terms)')
            closed(U.convert_vel(U.convert_vel(x, l1, t1, l2, t2), l2, t2, l1, t1) == x, "velocity %s/%s <-> %s/%s reversible" % (l1, t1, l2, t2))
            closed(U.convert_acc(U.convert_acc(x, l1, t1, l2, t2), l2, t2, l1, t1) == x, "acceleration %s/%s^2 <-> %s/%s^2 reversible" % (l1, t1, l2, t2))
    # ---- Kepler's third law is unit independent, for every triple (exhaustive over names, symbolic a, M, P, K=4 pi^2)
    a, M, Pd, K = z3.Reals('a M P K')
    ntriples = 0
    for l in Lsel:
        for t in Ts:
            for m in Ms:
                ntriples += 1
                p = P(); p.m = M; p.x = a; p.y = a; p.z = a; p.r = a; p.vx = a; p.vy = a; p.vz = a; p.ax = a; p.ay = a; p.az = a
                U.units_convert_particle(p, 'm', 's', 'kg', l, t, m)
                G2 = U.convert_G((l, t, m))
                P2 = Pd * U.times_SI['s'] / U.times_SI[t]
                # monomials abstracted once: X = M P^2, Y = K a^3 (the claim is linear in them; conversions are linear maps)
                X, Y = z3.Reals('X Y')
                # p.m = M*c_m, p.x = a*c_l, P2 = P*c_t  with numeric c's extracted by evaluating the real code at 1
                q = P(); q.m = 1.0; q.x = 1.0; q.y = q.z = q.r = q.vx = q.vy = q.vz = q.ax = q.ay = q.az = 1.0
                U.units_convert_particle(q, 'm', 's', 'kg', l, t, m)
                cm, cl, ct = q.m, q.x, U.times_SI['s'] / U.times_SI[t]
                lhs = z3.RealVal(repr(G2)) * (z3.RealVal(repr(cm)) * z3.RealVal(repr(ct)) * z3.RealVal(repr(ct))) * X
                rhs = (z3.RealVal(repr(cl)) ** 3) * Y
                # exact rational arithmetic on the float constants would demand bit-exact tables; the property is "to rounding": compare the ratio numerically
                ratio = (G2 * cm * ct * ct) / (cl ** 3) / U.G_SI
                ob.prove("Kepler's third law invariant in (%s,%s,%s): G' m' P'^2 / a'^3 == G m P^2 / a^3 (ratio %.17g)" % (l, t, m, ratio), abs(ratio - 1.0) < 1e-12, [], domain='units tables (float, tolerance 1e-12)')
                # the symbolic part: the converted particle and period are the linear images the ratio was computed from
                closed(z3.And(p.m == M * z3.RealVal(repr(U.masses_SI['kg'])) / z3.RealVal(repr(U.masses_SI[m])), p.x == a * z3.RealVal(repr(U.lengths_SI['m'])) / z3.RealVal(repr(U.lengths_SI[l])),
                              p.y == p.x, p.z == p.x, p.r == p.x, p.vy == p.vx, p.vz == p.vx, p.ay == p.ax, p.az == p.ax,
                              p.vx * U.lengths_SI[l] / U.times_SI[t] == a * U.lengths_SI['m'] / U.times_SI['s'],
                              p.ax * U.lengths_SI[l] / U.times_SI[t] ** 2 == a * U.lengths_SI['m'] / U.times_SI['s'] ** 2),
                       "units_convert_particle is the documented linear map in (%s,%s,%s)" % (l, t, m))
                # convert_G consistency with its definition
                ob.prove("convert_G(%s,%s,%s) == G_SI m_u t_u^2 / l_u^3" % (l, t, m), abs(G2 - U.G_SI * U.masses_SI[m] * U.times_SI[t] ** 2 / U.lengths_SI[l] ** 3) <= 1e-15 * abs(G2), [], domain='float')
                if ntriples <= 40 or u['tier'] == 'thorough':
                    for order in itertools.permutations((l, t, m)):
                        for case in (str.lower, str.upper, str.title):
                            try:
                                got = U.check_units(tuple(case(s_) for s_ in order))
                            except Exception as e:
                                got = repr(e)
                            ob.prove("check_units%r" % (tuple(case(s_) for s_ in order),), got == (l, t, m), [], domain='finite')
    if u.get('slice', 0) != 0:
        rep.notes.append('%d unit triples in slice %d' % (ntriples, u['slice'])); return rep
    # ---- SI tables against the independent reference
    def near(v, ref, tol): return abs(v - ref) <= tol * abs(ref)
    for nm, v in U.lengths_SI.items():
        r = REF['lengths'].get(ALIASES.get(nm, nm) or nm)
        if r is not None: ob.prove("lengths_SI[%s] == %r (reference)" % (nm, r), near(v, r, 1e-9), [], domain='float')
    for nm, v in U.times_SI.items():
        r = REF['times'].get(ALIASES.get(nm, nm) or nm)
        if r is not None: ob.prove("times_SI[%s] == %r (reference)" % (nm, r), near(v, r, 2e-8 if nm != 'yr2pi' else 1e-7), [], domain='float')
    ob.prove("G_SI == CODATA 2014", near(U.G_SI, REF['G'], 1e-12), [], domain='float')
    for nm, v in U.masses_SI.items():
        r = REF['GM_km3s2'].get(ALIASES.get(nm, nm) or nm)
        if r is not None: ob.prove("G*masses_SI[%s] == GM (reference, 1e-3)" % nm, near(v * U.G_SI * 1e-9, r, 2e-3), [], domain='float')
    ob.prove("masses_SI[g] == 1e-3 kg", U.masses_SI['g'] == 1e-3 and U.masses_SI['gram'] == 1e-3 and U.masses_SI['kg'] == 1.0, [], domain='float')
    # aliases are exact
    for nm, base in ALIASES.items():
        if base is None: continue
        for tab in (U.lengths_SI, U.times_SI, U.masses_SI):
            if nm in tab and base in tab: ob.prove("alias %s == %s" % (nm, base), tab[nm] == tab[base], [], domain='float')
    # hash_to_unit(reb_hash(u)) names a unit with the same SI value
    lib = sys.modules['rebound'].clibrebound; lib.reb_hash.restype = ctypes.c_uint32
    for tab in (U.lengths_SI, U.times_SI, U.masses_SI):
        for nm, v in tab.items():
            back = U.hash_to_unit(lib.reb_hash(ctypes.c_char_p(nm.encode())))
            same = back is not None and (back in tab and tab[back] == v)
            ob.prove("hash_to_unit(reb_hash(%r)) names the same unit" % nm, same, [], domain='finite')
    rep.replays += 1
    rep.notes.append("%d unit triples (%d lengths x %d times x %d masses)" % (ntriples, len(Ls), len(Ts), len(Ms)))
    return rep

# ------------------------------------------------------------------------------------------ rotations (engine, REAL)
def vec(I, name, vals):
    L = build.layout()
    st = 'reb_rotation' if len(vals) == 4 else 'reb_vec3d'
    p = I.mem.alloc(L.structs[st]['size'], name, 'harness', zero=True)
    v = SimView(I, p, st)
    for nm, val in zip(('ix', 'iy', 'iz', 'r') if len(vals) == 4 else ('x', 'y', 'z'), vals): v.set(nm, val)
    return p
def rd(I, p, st):
    v = SimView(I, p, st)
    return [v.get(nm) for nm in (('ix', 'iy', 'iz', 'r') if st == 'reb_rotation' else ('x', 'y', 'z'))]
def out(I, st):
    return I.mem.alloc(build.layout().structs[st]['size'], 'out_' + st, 'harness', zero=True)
def zz(dom, v): return dom.z(v)

def qmul(p, q):
    """Hamilton product (reference, written from the textbook definition) on (ix,iy,iz,r) lists"""
    px, py, pz, pr = p; qx, qy, qz, qr = q
    return [pr * qx + px * qr + py * qz - pz * qy, pr * qy - px * qz + py * qr + pz * qx, pr * qz + px * qy - py * qx + pz * qr, pr * qr - px * qx - py * qy - pz * qz]
def qconj(q): return [-q[0], -q[1], -q[2], q[3]]
def qrot(q, v):
    r = qmul(qmul(q, [v[0], v[1], v[2], 0]), qconj(q))
    return r[:3], r[3]
def n2(v): return sum((c * c for c in v), 0)

def run_rot(u):
    rep = Report()
    prover = Prover(t_inproc_ms=u.get('t_ms', 20000), t_ext_s=60, use_external=u.get('ext', False))
    what = u['what']
    def explore(fn, label, max_paths=64):
        # the to_new_axes units use the linear-skeleton explorer: z3's non-linear engine does not honour its timeout on their feasibility queries
        ex = LinExplorer(fn, max_paths=max_paths) if what.startswith('to_new_axes') else Explorer(fn, max_paths=max_paths, timeout_ms=4000)
        try: ex.explore()
        except BoundExceeded as e: rep.bound_exceeded.append(label + str(e))
        rep.queries += ex.nqueries; rep.solver_time += ex.qtime
        return ex.results
    def discharge(results, label, replay=None):
        if replay is None:
            def replay(model, what=what):
                vals = {d.name(): float(model_value(model, d())) for d in model.decls() if d.arity() == 0 and d.range() == z3.RealSort() and '!' not in d.name()}
                return native_rot(what, vals)
        for ctx, res in results:
            I, dom, obs, assum = res
            rep.paths += 1; rep.add_interp(I)
            ob = Obligations(rep, prover, label + "path%d " % rep.paths)
            side = [b != 0 for b in dom.divs] if what not in ('from_to_antiparallel', 'to_new_axes_zflip', 'to_new_axes_xflip') else []    # antiparallel: the normalisation of a zero vector is the point
            for name, goal in obs:
                ob.prove(name, goal, list(ctx.pc) + assum + side, axioms=dom.axioms, on_sat=replay, domain='REAL (sqrt/sin/cos as atoms with axioms)')
            if what.startswith('to_new_axes'):
                # paths come from the linear-skeleton explorer: some are infeasible (their obligations hold vacuously); at least one must be real
                r_ = prover.check(list(ctx.pc) + assum + side + list(dom.axioms)); rep.queries += 1
                if r_.status == 'sat': feasible_paths.append(1); rep.witnesses += 1
            else:
                ob.witness("path condition", list(ctx.pc) + assum + side, axioms=dom.axioms)
        if what.startswith('to_new_axes') and not feasible_paths: rep.vacuous.append(label + 'no feasible path')
    feasible_paths = []
    if what == 'lemmas':
        def run(ctx):
            dom = Real(); I = new_interp(dom, ctx)
            q = [dom.fresh('q%d' % k) for k in range(4)]; p = [dom.fresh('p%d' % k) for k in range(4)]; v = [dom.fresh('v%d' % k) for k in range(3)]
            obs = []
            # L1: irotate(v,q) == q v q* for unit q
            vp = vec(I, 'v', v); I.call('@reb_vec3d_irotate', [vp, vec(I, 'q', q)])
            got = [zz(dom, c) for c in rd(I, vp, 'reb_vec3d')]
            want, wr = qrot(q, v)
            for k in range(3): obs.append(("L1 irotate(v,q).%s == (q v q*).%s for |q|=1" % ('xyz'[k], 'xyz'[k]), got[k] == want[k]))
            # mul == Hamilton product
            o = out(I, 'reb_rotation'); I.call('@reb_rotation_mul', [o, vec(I, 'p', p), vec(I, 'q', q)])
            pq = [zz(dom, c) for c in rd(I, o, 'reb_rotation')]
            ref = qmul(p, q)
            for k in range(4): obs.append(("reb_rotation_mul component %d == Hamilton product" % k, pq[k] == ref[k]))
            # conjugate / inverse
            o2 = out(I, 'reb_rotation'); I.call('@reb_rotation_inverse', [o2, vec(I, 'q', q)])
            qi = [zz(dom, c) for c in rd(I, o2, 'reb_rotation')]
            ident = qmul(q, qi)
            for k in range(4): obs.append(("q * inverse(q) == identity (component %d)" % k, ident[k] == (1 if k == 3 else 0)))
            o3 = out(I, 'reb_rotation'); I.call('@reb_rotation_normalize', [o3, vec(I, 'p', p)])
            pn = [zz(dom, c) for c in rd(I, o3, 'reb_rotation')]
            obs.append(("|normalize(p)|^2 == 1", n2(pn) == 1))
            r_ = I.call('@reb_rotation_length_squared', [vec(I, 'p', p)])
            obs.append(("length_squared(p) == sum of squares", zz(dom, r_) == n2(p)))
            return I, dom, obs, [n2(q) == 1, n2(p) > 0]
        discharge(explore(run, 'lemmas '), 'lemmas ')
        # L2 / L3 as pure identities about the reference product (so that L1 lifts to lengths, dot products, composition, inverse)
        ob = Obligations(rep, prover, 'lemmas ')
        q = z3.Reals('q0 q1 q2 q3'); p = z3.Reals('p0 p1 p2 p3'); v = z3.Reals('v0 v1 v2'); w = z3.Reals('w0 w1 w2')
        ob.prove("L3 |pq|^2 == |p|^2 |q|^2", n2(qmul(p, q)) == n2(p) * n2(q), [], domain='REAL')
        a1, _ = qrot(list(q), list(v)); b1, _ = qrot(list(q), list(w))
        ob.prove("q v q* has zero real part", qrot(list(q), list(v))[1] == 0, [], domain='REAL')
        ob.prove("rotation preserves dot products (unit q)", sum(x * y for x, y in zip(a1, b1)) == sum(x * y for x, y in zip(v, w)), [n2(q) == 1], domain='REAL')
        pqv, _ = qrot(qmul(list(p), list(q)), list(v)); pv, _ = qrot(list(p), qrot(list(q), list(v))[0])
        for k in range(3): ob.prove("L2 (pq) v (pq)* == p (q v q*) p*, component %d" % k, pqv[k] == pv[k], [], domain='REAL')
    elif what == 'angle_axis':
        def run(ctx):
            dom = Real(); I = new_interp(dom, ctx)
            ax = [dom.fresh('a%d' % k) for k in range(3)]; ang = dom.fresh('angle')
            o = out(I, 'reb_rotation'); I.call('@reb_rotation_init_angle_axis', [o, ang, vec(I, 'axis', ax)])
            q = [zz(dom, c) for c in rd(I, o, 'reb_rotation')]
            s2, c2 = dom.sincos(dom.canon(ang / 2)) if False else (None, None)
            obs = [("|init_angle_axis|^2 == 1", n2(q) == 1)]
            # axis direction: imaginary part parallel to axis, real part = cos(angle/2)
            obs.append(("imag x axis == 0 (x)", q[1] * ax[2] - q[2] * ax[1] == 0)); obs.append(("imag x axis == 0 (y)", q[2] * ax[0] - q[0] * ax[2] == 0)); obs.append(("imag x axis == 0 (z)", q[0] * ax[1] - q[1] * ax[0] == 0))
            obs.append(("the axis is invariant under the rotation (x)", qrot(q, ax)[0][0] * 1 == ax[0]))
            return I, dom, obs, [n2(ax) > 0]
        discharge(explore(run, 'angle_axis '), 'angle_axis ')
    elif what in ('from_to', 'from_to_antiparallel'):
        def run(ctx):
            dom = Real(); I = new_interp(dom, ctx)
            f = [dom.fresh('f%d' % k) for k in range(3)]
            assum = [n2(f) > 0]
            if what == 'from_to':
                # unit inputs (the normalisation step is the separate lemma 'normalize'); this keeps the NRA queries within reach
                t = [dom.fresh('t%d' % k) for k in range(3)]; assum = [n2(f) == 1, n2(t) == 1]
            else:
                kap = dom.fresh('kappa'); assum.append(kap > 0)
                t = [-kap * c for c in f]
            for c_ in assum: ctx.assume(c_)
            o = out(I, 'reb_rotation'); I.call('@reb_rotation_init_from_to', [o, vec(I, 'from', f), vec(I, 'to', t)])
            q = [zz(dom, c) for c in rd(I, o, 'reb_rotation')]
            obs = [("|init_from_to|^2 == 1", n2(q) == 1)]
            # maps from/|from| to to/|to|:  (q f q*) |t| == t |f|  <=>  (q f q*) x t == 0 and (q f q*) . t > 0  (avoid sqrt in the goal)
            rf, _ = qrot(q, f)
            obs.append(("q maps from onto the ray of to (cross x)", rf[1] * t[2] - rf[2] * t[1] == 0))
            obs.append(("q maps from onto the ray of to (cross y)", rf[2] * t[0] - rf[0] * t[2] == 0))
            obs.append(("q maps from onto the ray of to (cross z)", rf[0] * t[1] - rf[1] * t[0] == 0))
            obs.append(("q maps from onto the ray of to (same direction)", sum(x * y for x, y in zip(rf, t)) > 0))
            return I, dom, obs, assum
        def replay(model):
            vals = {}
            for nm in ['f0', 'f1', 'f2', 't0', 't1', 't2', 'kappa']:
                try: vals[nm] = float(model_value(model, z3.Real(nm)))
                except Exception: pass
            if what == 'from_to_antiparallel':
                for k in range(3): vals['t%d' % k] = -vals.get('kappa', 1.0) * vals['f%d' % k]
            return native_from_to(vals)
        discharge(explore(run, what + ' '), what + ' ', replay)
    elif what == 'from_to_reduced':
        def run(ctx):
            dom = Real(); I = new_interp(dom, ctx)
            f = [dom.fresh('f%d' % k) for k in range(3)]; t = [dom.fresh('t%d' % k) for k in range(3)]
            o = out(I, 'reb_rotation'); I.call('@reb_rotation_init_from_to_reduced', [o, vec(I, 'from', f), vec(I, 'to', t)])
            q = [zz(dom, c) for c in rd(I, o, 'reb_rotation')]
            rf, _ = qrot(q, f)
            obs = [("|from_to_reduced|^2 == 1 for unit inputs", n2(q) == 1)]
            for k in range(3): obs.append(("from_to_reduced maps from to to (component %d)" % k, rf[k] == t[k]))
            return I, dom, obs, [n2(f) == 1, n2(t) == 1, n2([a + b for a, b in zip(f, t)]) > 0]
        discharge(explore(run, 'from_to_reduced '), 'from_to_reduced ')
    elif what == 'normalize':
        def run(ctx):
            dom = Real(); I = new_interp(dom, ctx)
            v = [dom.fresh('v%d' % k) for k in range(3)]
            o = out(I, 'reb_vec3d'); I.call('@reb_vec3d_normalize', [o, vec(I, 'v', v)])
            w = [zz(dom, c) for c in rd(I, o, 'reb_vec3d')]
            obs = [("|normalize(v)|^2 == 1", n2(w) == 1), ("normalize(v) x v == 0 (x)", w[1] * v[2] - w[2] * v[1] == 0), ("normalize(v) x v == 0 (y)", w[2] * v[0] - w[0] * v[2] == 0),
                   ("normalize(v) x v == 0 (z)", w[0] * v[1] - w[1] * v[0] == 0), ("normalize(v) . v > 0", sum(x * y for x, y in zip(w, v)) > 0)]
            return I, dom, obs, [n2(v) > 0]
        discharge(explore(run, 'normalize '), 'normalize ')
    elif what in ('to_new_axes_zflip', 'to_new_axes_xflip'):
        # reb_rotation_init_to_new_axes on the two families that drive its SECOND from_to into the exactly-antiparallel branch
        # (requested new z axis along -z, or requested new x axis along -x): the half-turn picked there must leave z fixed, otherwise the
        # composed rotation sends newz to -z.  Obligations: unit quaternion, R newz on the +z ray, R newx_orth on the +x ray.
        def run(ctx):
            dom = Real(); I = new_interp(dom, ctx)
            if what == 'to_new_axes_zflip':
                c = Fraction(u.get('c', 1)); a, b = u.get('ab', (1, 0)); assum = []
                newz = [Fraction(0), Fraction(0), -c]; newx = [Fraction(a), Fraction(b), Fraction(0)]
            else:
                c = Fraction(u.get('c', 1)); s_, t_ = u.get('st', (0, 1)); assum = []
                newz = [Fraction(0), Fraction(s_), Fraction(t_)]; newx = [-c, Fraction(0), Fraction(0)]
            for c_ in assum: ctx.assume(c_)
            o = out(I, 'reb_rotation'); I.call('@reb_rotation_init_to_new_axes', [o, vec(I, 'newz', newz), vec(I, 'newx', newx)])
            raw = rd(I, o, 'reb_rotation')
            if any(not (isinstance(c_, (Fraction, int)) or z3.is_expr(c_)) for c_ in raw):
                return I, dom, [("init_to_new_axes returns a finite quaternion on this path (the path must be infeasible otherwise)", z3.BoolVal(False))], assum
            q = [zz(dom, c_) for c_ in raw]
            obs = [("|init_to_new_axes|^2 == 1", n2(q) == 1)]
            nz = [zz(dom, v_) for v_ in newz]; nx = [zz(dom, v_) for v_ in newx]
            rz, _ = qrot(q, nz)
            obs.append(("R newz has no x component", rz[0] == 0)); obs.append(("R newz has no y component", rz[1] == 0)); obs.append(("R newz points along +z", rz[2] > 0))
            dotp = sum(x_ * y_ for x_, y_ in zip(nz, nx)); nzz = n2(nz)
            nxo = [nx[k] * nzz - dotp * nz[k] for k in range(3)]            # newx orthogonalised against newz (scaled by |newz|^2 > 0)
            rx, _ = qrot(q, nxo)
            obs.append(("R newx_orth has no y component", rx[1] == 0)); obs.append(("R newx_orth has no z component", rx[2] == 0)); obs.append(("R newx_orth points along +x", rx[0] > 0))
            return I, dom, obs, assum
        def replay(model):
            vals = {}
            vals['c'] = float(Fraction(u.get('c', 1)))
            vals['a'], vals['b'] = u.get('ab', (1, 0)); vals['s'], vals['t'] = u.get('st', (0, 1))
            return native_to_new_axes(what, vals)
        discharge(explore(run, what + ' '), what + ' ', replay)
    elif what == 'orbit':
        def run(ctx):
            dom = Real(); I = new_interp(dom, ctx)
            Om, inc, om = dom.fresh('Omega'), dom.fresh('inc'), dom.fresh('omega')
            o = out(I, 'reb_rotation'); I.call('@reb_rotation_init_orbit', [o, Om, inc, om])
            q = [zz(dom, c) for c in rd(I, o, 'reb_rotation')]
            obs = [("|init_orbit|^2 == 1", n2(q) == 1)]
            # composition of three axis rotations: compare with reference product of half-angle quaternions
            def half(a):
                s, c = dom.sincos(dom.canon(a / 2)); return s, c
            so, co = half(Om); si, ci = half(inc); sw, cw = half(om)
            P1 = [0, 0, sw, cw]; P2 = [si, 0, 0, ci]; P3 = [0, 0, so, co]
            ref = qmul(P3, qmul(P2, P1))
            for k in range(4): obs.append(("init_orbit component %d == Rz(Omega) Rx(inc) Rz(omega)" % k, q[k] == ref[k]))
            return I, dom, obs, []
        discharge(explore(run, 'orbit '), 'orbit ')
    return rep

C7 = ['x', 'y', 'z', 'vx', 'vy', 'vz', 'm']
C6 = C7[:6]

def run_frames(u):
    """frame shifts and linear combinations of simulations, real C code over the reals with symbolic particle data.
    move_to_com with variational particles: the transformed first-order (second-order) variational particle must be the first
    (mixed second) derivative of the transformed real particle x_i - sum(m x)/sum(m), differentiating with d x = variational x,
    d m = variational m — computed here by symbolic differentiation of the textbook centre of mass, independent of the code's
    closed form."""
    sys.path.insert(0, os.path.dirname(os.path.abspath(__file__)))
    from c16 import Deriv
    rep = Report(); kind, N = u['kind'], u['N']
    label = "frames %s N=%d " % (kind, N)
    dom = Real(); ctx = PathCtx(); I = new_interp(dom, ctx); I.concrete_env = True
    L = build.layout(); sim = Sim(I)
    for i in range(N): sim.add(m=1.0)
    prover = Prover(t_inproc_ms=u.get('t_ms', 20000), use_external=True, t_ext_s=60)
    ob = Obligations(rep, prover, label)
    V = {}
    def fill(base, tag, comps=C7):
        for i in range(N):
            for c in comps:
                V[(tag, i, c)] = dom.fresh('%s_%s%d' % (tag, c, i)); sim.particle(base + i).set(c, V[(tag, i, c)])
    def vals_of(model):
        return {"%s_%s%d" % k: float(model_value(model, t) or 0.0) for k, t in V.items()}
    if kind in ('com', 'com_var1', 'com_var2'):
        order = {'com': 0, 'com_var1': 1, 'com_var2': 2}[kind]
        ia = ib = ic = None
        if order >= 1: ia = I.call('@reb_simulation_add_variation_1st_order', [sim.ptr, 0xffffffff])
        if order == 2:
            ib = I.call('@reb_simulation_add_variation_1st_order', [sim.ptr, 0xffffffff])
            ic = I.call('@reb_simulation_add_variation_2nd_order', [sim.ptr, 0xffffffff, ia, ib])
        fill(0, 'r')
        if order >= 1: fill(ia, 'a')
        if order == 2: fill(ib, 'b'); fill(ic, 'c')
        I.call('@reb_simulation_move_to_com', [sim.ptr])
        M = sum((V[('r', i, 'm')] for i in range(N)), z3.RealVal(0))
        assum = [V[('r', i, 'm')] > 0 for i in range(N)] + [b != 0 for b in dom.divs]
        def on_sat(model):
            vals = vals_of(model); ok, detail = native_frames(u, vals)
            return ok, 'C20:frames:%s' % kind, detail, dict(kind='frames', unit=u, vals=vals)
        invM = dom.inv(M) if hasattr(dom, 'inv') else None
        for c in C6:
            S = sum((V[('r', i, 'm')] * V[('r', i, c)] for i in range(N)), z3.RealVal(0))
            Xc = S * invM
            after = [dom.z(sim.particle(i).get(c)) for i in range(N)]
            ob.prove("move_to_com: sum m %s' == 0 (reference point at the origin / at rest)" % c, sum((V[('r', i, 'm')] * after[i] for i in range(N)), z3.RealVal(0)) == 0, assum, axioms=dom.axioms, on_sat=on_sat, domain='REAL')
            for i in range(1, N):
                ob.prove("move_to_com: relative coordinate %s_%d - %s_0 unchanged" % (c, i, c), after[i] - after[0] == V[('r', i, c)] - V[('r', 0, c)], assum, axioms=dom.axioms, on_sat=on_sat, domain='REAL')
            if order >= 1:
                for tag, base in (('a', ia), ('b', ib)):
                    if base is None: continue
                    D1 = Deriv(dom, [(V[('r', i, cc)], V[(tag, i, cc)]) for i in range(N) for cc in C7])
                    dX = D1.d(Xc)
                    for i in range(N):
                        ob.prove("move_to_com: first-order variational %s of particle %d (set %s) is the derivative of the shifted coordinate" % (c, i, tag), dom.z(sim.particle(base + i).get(c)) == V[(tag, i, c)] - dX, assum, axioms=dom.axioms, on_sat=on_sat, domain='REAL + symbolic differentiation')
            if order == 2:
                Da = Deriv(dom, [(V[('r', i, cc)], V[('a', i, cc)]) for i in range(N) for cc in C7])
                Db = Deriv(dom, [(V[('r', i, cc)], V[('b', i, cc)]) for i in range(N) for cc in C7] + [(V[('a', i, cc)], V[('c', i, cc)]) for i in range(N) for cc in C7])
                ddX = Db.d(Da.d(Xc))
                for i in range(N):
                    ob.prove("move_to_com: second-order variational %s of particle %d is the mixed second derivative of the shifted coordinate" % (c, i), dom.z(sim.particle(ic + i).get(c)) == V[('c', i, c)] - ddX, assum, axioms=dom.axioms, on_sat=on_sat, domain='REAL + symbolic differentiation')
        for tag, base in (('r', 0), ('a', ia), ('b', ib), ('c', ic)):
            if base is None: continue
            for i in range(N): ob.prove("move_to_com leaves mass %s%d alone" % (tag, i), dom.z(sim.particle(base + i).get('m')) == V[(tag, i, 'm')], assum, domain='REAL')
        ob.witness("inputs", assum, axioms=dom.axioms)
    elif kind == 'hel':
        ia = I.call('@reb_simulation_add_variation_1st_order', [sim.ptr, 0xffffffff])
        fill(0, 'r'); fill(ia, 'a')
        I.call('@reb_simulation_move_to_hel', [sim.ptr])
        for c in C6:
            ob.prove("move_to_hel: particle 0 %s == 0" % c, dom.z(sim.particle(0).get(c)) == 0, [], domain='REAL')
            for i in range(1, N): ob.prove("move_to_hel: %s_%d relative to particle 0 unchanged" % (c, i), dom.z(sim.particle(i).get(c)) == V[('r', i, c)] - V[('r', 0, c)], [], domain='REAL')
        for i in range(N):
            for c in C7: ob.prove("move_to_hel leaves variational particle %d.%s alone (documented)" % (i, c), dom.z(sim.particle(ia + i).get(c)) == V[('a', i, c)], [], domain='REAL')
    elif kind == 'linear':
        fill(0, 'r')
        sim2 = Sim(I)
        for i in range(N): sim2.add(m=1.0)
        W = {}
        for i in range(N):
            for c in C7:
                W[(i, c)] = dom.fresh('s_%s%d' % (c, i)); sim2.particle(i).set(c, W[(i, c)])
        sp, sv = dom.fresh('scalar_pos'), dom.fresh('scalar_vel')
        I.call('@reb_simulation_imul', [sim.ptr, sp, sv])
        for i in range(N):
            for c in C6: ob.prove("imul: %s_%d scaled by scalar_%s" % (c, i, 'pos' if c in 'xyz' else 'vel'), dom.z(sim.particle(i).get(c)) == V[('r', i, c)] * (sp if c in ('x', 'y', 'z') else sv), [], domain='REAL')
            ob.prove("imul leaves m_%d alone" % i, dom.z(sim.particle(i).get('m')) == V[('r', i, 'm')], [], domain='REAL')
        r1 = I.call('@reb_simulation_iadd', [sim.ptr, sim2.ptr])
        ob.prove("iadd returns 0 for equal particle numbers", r1 == 0, [], domain='control')
        for i in range(N):
            for c in C6: ob.prove("iadd: %s_%d" % (c, i), dom.z(sim.particle(i).get(c)) == V[('r', i, c)] * (sp if c in ('x', 'y', 'z') else sv) + W[(i, c)], [], domain='REAL')
        I.call('@reb_simulation_isub', [sim.ptr, sim2.ptr]); I.call('@reb_simulation_isub', [sim.ptr, sim2.ptr])
        for i in range(N):
            for c in C6: ob.prove("isub twice after iadd: %s_%d" % (c, i), dom.z(sim.particle(i).get(c)) == V[('r', i, c)] * (sp if c in ('x', 'y', 'z') else sv) - W[(i, c)], [], domain='REAL')
            for c in C7: ob.prove("second operand untouched: %s_%d" % (c, i), dom.z(sim2.particle(i).get(c)) == W[(i, c)], [], domain='REAL')
        sim3 = Sim(I); sim3.add(m=1.0)
        if N != 1:
            ob.prove("iadd rejects a different particle number", I.call('@reb_simulation_iadd', [sim.ptr, sim3.ptr]) != 0, [], domain='control')
            ob.prove("isub rejects a different particle number", I.call('@reb_simulation_isub', [sim.ptr, sim3.ptr]) != 0, [], domain='control')
    rep.paths += 1; rep.add_interp(I)
    if kind.startswith('com'):
        bad, detail = native_frames(u, None); rep.replays += 1
        if bad: rep.violations.append(dict(key='C20:frames:%s' % kind, what=detail, replay=dict(kind='frames', unit=u, vals=None), obligation=label + 'native twin'))
        else: rep.witnesses += 1
    return rep

def native_frames(u, vals):
    """native replay: move_to_com on the given (or generic) data; variational particles against central finite differences of the
    same frame change applied to x +- h dx, m +- h dm"""
    global _nat
    if _nat is None: _nat = Native()
    import random
    N = u['N']; order = {'com': 0, 'com_var1': 1, 'com_var2': 2}[u['kind']]
    rnd = random.Random(7)
    tags = ['r'] + (['a'] if order >= 1 else []) + (['b', 'c'] if order == 2 else [])
    if vals is None:
        vals = {"%s_%s%d" % (t, c, i): rnd.uniform(-1, 1) for t in tags for i in range(N) for c in C7}
        for i in range(N): vals['r_m%d' % i] = rnd.uniform(0.5, 2.0)
    def shifted(pdata):
        """pdata: list of dicts for real particles; returns coordinates after native move_to_com"""
        ns = _nat.create()
        try:
            for p in pdata: ns.add(**p)
            ns.call('reb_simulation_move_to_com')
            return [[ns.particle(i).get(c) for c in C6] for i in range(N)]
        finally: ns.free()
    ns = _nat.create()
    try:
        for i in range(N): ns.add(**{c: vals['r_%s%d' % (c, i)] for c in C7})
        base = {}
        if order >= 1: base['a'] = ns.call('reb_simulation_add_variation_1st_order', ctypes.c_int(-1), restype=ctypes.c_int)
        if order == 2:
            base['b'] = ns.call('reb_simulation_add_variation_1st_order', ctypes.c_int(-1), restype=ctypes.c_int)
            base['c'] = ns.call('reb_simulation_add_variation_2nd_order', ctypes.c_int(-1), ctypes.c_int(base['a']), ctypes.c_int(base['b']), restype=ctypes.c_int)
        for t, b in base.items():
            for i in range(N):
                for c in C7: ns.particle(b + i).set(c, vals['%s_%s%d' % (t, c, i)])
        ns.call('reb_simulation_move_to_com')
        bad = []
        Mtot = sum(vals['r_m%d' % i] for i in range(N))
        for k, c in enumerate(C6):
            s_ = sum(vals['r_m%d' % i] * ns.particle(i).get(c) for i in range(N))
            if abs(s_) > 1e-9 * (sum(abs(vals['r_m%d' % i] * vals['r_%s%d' % (c, i)]) for i in range(N)) + 1e-300): bad.append(('sum m ' + c, s_))
        def P(sa, sb):
            return [{c: vals['r_%s%d' % (c, i)] + sa * vals.get('a_%s%d' % (c, i), 0.0) + sb * vals.get('b_%s%d' % (c, i), 0.0) + sa * sb * vals.get('c_%s%d' % (c, i), 0.0) for c in C7} for i in range(N)]
        h = 1e-4
        scale = max(1.0, max(abs(v) for v in vals.values()))
        if order >= 1:
            for t in (['a', 'b'] if order == 2 else ['a']):
                up = shifted(P(h, 0) if t == 'a' else P(0, h)); dn = shifted(P(-h, 0) if t == 'a' else P(0, -h))
                for i in range(N):
                    for k, c in enumerate(C6):
                        fd = (up[i][k] - dn[i][k]) / (2 * h); got = ns.particle(base[t] + i).get(c)
                        if abs(fd - got) > 1e-5 * scale ** 3: bad.append((t, i, c, got, fd))
        if order == 2:
            pp, pm, mp, mm = shifted(P(h, h)), shifted(P(h, -h)), shifted(P(-h, h)), shifted(P(-h, -h))
            for i in range(N):
                for k, c in enumerate(C6):
                    fd = (pp[i][k] - pm[i][k] - mp[i][k] + mm[i][k]) / (4 * h * h); got = ns.particle(base['c'] + i).get(c)
                    if abs(fd - got) > 1e-4 * scale ** 4: bad.append(('c', i, c, got, fd))
        return bool(bad), "native move_to_com (%s, N=%d): %s" % (u['kind'], N, ("variational / frame values differ from finite differences: %r" % bad[:4]) if bad else "frame and variational particles agree with finite differences")
    finally:
        ns.free()

_nat = None
def native_from_to(vals):
    global _nat
    if _nat is None: _nat = Native()
    class V3(ctypes.Structure): _fields_ = [('x', ctypes.c_double), ('y', ctypes.c_double), ('z', ctypes.c_double)]
    class Q(ctypes.Structure): _fields_ = [('ix', ctypes.c_double), ('iy', ctypes.c_double), ('iz', ctypes.c_double), ('r', ctypes.c_double)]
    f = _nat.lib.reb_rotation_init_from_to; f.restype = Q; f.argtypes = [V3, V3]
    fr = V3(vals['f0'], vals['f1'], vals['f2']); to = V3(vals['t0'], vals['t1'], vals['t2'])
    q = f(fr, to)
    nq = q.ix ** 2 + q.iy ** 2 + q.iz ** 2 + q.r ** 2
    g = _nat.lib.reb_vec3d_rotate; g.restype = V3; g.argtypes = [V3, Q]
    r = g(fr, q)
    lf = math.sqrt(fr.x ** 2 + fr.y ** 2 + fr.z ** 2); lt = math.sqrt(to.x ** 2 + to.y ** 2 + to.z ** 2)
    if not (lf > 1e-150 and lt > 1e-150 and lf < 1e150 and lt < 1e150): return False, 'C20:from_to', "degenerate model", dict(vals=vals)
    err = max(abs(r.x / lf - to.x / lt), abs(r.y / lf - to.y / lt), abs(r.z / lf - to.z / lt))
    bad = abs(nq - 1) > 1e-9 or err > 1e-7
    anti = (fr.x * to.x + fr.y * to.y + fr.z * to.z) < -(1 - 1e-12) * lf * lt
    key = 'C20:init_from_to:' + ('antiparallel-branch' if anti else 'generic')
    return bad, key, "reb_rotation_init_from_to(from=%r, to=%r): |q|^2=%.6g, rotated from/|from| differs from to/|to| by %.3g" % ((fr.x, fr.y, fr.z), (to.x, to.y, to.z), nq, err), dict(vals=vals)

def native_rot(what, vals):
    """native twin of the rotation units without a dedicated replay: the same defining relations, evaluated on the library with the model's values"""
    global _nat
    if _nat is None: _nat = Native()
    class V3(ctypes.Structure): _fields_ = [('x', ctypes.c_double), ('y', ctypes.c_double), ('z', ctypes.c_double)]
    class Q(ctypes.Structure): _fields_ = [('ix', ctypes.c_double), ('iy', ctypes.c_double), ('iz', ctypes.c_double), ('r', ctypes.c_double)]
    lib = _nat.lib
    def fn(name, res, args):
        f = getattr(lib, name); f.restype = res; f.argtypes = args; return f
    def ql(q): return [q.ix, q.iy, q.iz, q.r]
    def g(prefix, n): return [float(vals.get('%s%d' % (prefix, k), 0.0)) for k in range(n)]
    bad = []
    def chk(name, a, b, scale=1.0):
        if not abs(a - b) <= 1e-9 * (abs(scale) + abs(a) + abs(b)) + 1e-300: bad.append("%s: %r vs %r" % (name, a, b))
    big = max([abs(v) for v in vals.values()] + [0.0])
    if not big < 1e60: return False, 'C20:rot:' + what, 'degenerate model', dict(what=what, vals=vals)
    if what == 'lemmas':
        q = g('q', 4); p = g('p', 4); v = g('v', 3)
        nq = math.sqrt(sum(c * c for c in q))
        if not nq > 1e-100 or not sum(c * c for c in p) > 1e-200: return False, 'C20:rot:lemmas', 'degenerate model', dict(what=what, vals=vals)
        q = [c / nq for c in q]
        pq = ql(fn('reb_rotation_mul', Q, [Q, Q])(Q(*p), Q(*q))); ref = qmul(p, q); sc = max(abs(c) for c in p)
        for k in range(4): chk("reb_rotation_mul component %d vs Hamilton product" % k, pq[k], ref[k], sc)
        qi = ql(fn('reb_rotation_inverse', Q, [Q])(Q(*q))); ident = qmul(q, qi)
        for k in range(4): chk("q * inverse(q) component %d" % k, ident[k], 1.0 if k == 3 else 0.0, 1.0)
        pn = ql(fn('reb_rotation_normalize', Q, [Q])(Q(*p))); chk("|normalize(p)|^2", sum(c * c for c in pn), 1.0)
        chk("length_squared(p)", fn('reb_rotation_length_squared', ctypes.c_double, [Q])(Q(*p)), sum(c * c for c in p))
        vv = V3(*v); fn('reb_vec3d_irotate', None, [ctypes.POINTER(V3), Q])(ctypes.byref(vv), Q(*q)); want, _ = qrot(q, v); sv = max(abs(c) for c in v)
        for k, c in enumerate((vv.x, vv.y, vv.z)): chk("irotate(v,q) component %d vs q v q*" % k, c, want[k], sv)
    elif what == 'orbit':
        Om, inc, om = vals.get('Omega', 0.0), vals.get('inc', 0.0), vals.get('omega', 0.0)
        if not max(abs(Om), abs(inc), abs(om)) < 1e6: return False, 'C20:rot:orbit', 'degenerate model', dict(what=what, vals=vals)
        q = ql(fn('reb_rotation_init_orbit', Q, [ctypes.c_double] * 3)(Om, inc, om))
        P1 = [0, 0, math.sin(om / 2), math.cos(om / 2)]; P2 = [math.sin(inc / 2), 0, 0, math.cos(inc / 2)]; P3 = [0, 0, math.sin(Om / 2), math.cos(Om / 2)]
        ref = qmul(P3, qmul(P2, P1))
        for k in range(4): chk("init_orbit component %d vs Rz(Omega) Rx(inc) Rz(omega)" % k, q[k], ref[k], 1.0)
    elif what == 'angle_axis':
        ax = g('a', 3); ang = vals.get('angle', 0.0); la = math.sqrt(sum(c * c for c in ax))
        if not la > 1e-100 or not abs(ang) < 1e6: return False, 'C20:rot:angle_axis', 'degenerate model', dict(what=what, vals=vals)
        q = ql(fn('reb_rotation_init_angle_axis', Q, [ctypes.c_double, V3])(ang, V3(*ax)))
        chk("real part vs cos(angle/2)", q[3], math.cos(ang / 2))
        for k in range(3): chk("imaginary part %d vs sin(angle/2) axis/|axis|" % k, q[k], math.sin(ang / 2) * ax[k] / la)
    elif what == 'normalize':
        v = g('v', 3); lv = math.sqrt(sum(c * c for c in v))
        if not lv > 1e-100: return False, 'C20:rot:normalize', 'degenerate model', dict(what=what, vals=vals)
        w = fn('reb_vec3d_normalize', V3, [V3])(V3(*v))
        for k, c in enumerate((w.x, w.y, w.z)): chk("normalize(v) component %d" % k, c, v[k] / lv)
    elif what == 'from_to_reduced':
        f_ = g('f', 3); t_ = g('t', 3); lf = math.sqrt(sum(c * c for c in f_)); lt = math.sqrt(sum(c * c for c in t_))
        if not (lf > 1e-100 and lt > 1e-100): return False, 'C20:rot:from_to_reduced', 'degenerate model', dict(what=what, vals=vals)
        f_ = [c / lf for c in f_]; t_ = [c / lt for c in t_]
        if sum((a + b) ** 2 for a, b in zip(f_, t_)) < 1e-6: return False, 'C20:rot:from_to_reduced', 'degenerate model', dict(what=what, vals=vals)
        q = ql(fn('reb_rotation_init_from_to', Q, [V3, V3])(V3(*f_), V3(*t_))); r_, _ = qrot(q, f_)
        chk("|q|^2", sum(c * c for c in q), 1.0)
        for k in range(3): chk("rotated from, component %d" % k, r_[k], t_[k], 1.0)
    else:
        return False, 'C20:rot:' + what, 'no native twin', dict(what=what, vals=vals)
    return bool(bad), 'C20:rot:' + what, "native %s: %s" % (what, '; '.join(bad[:4]) or 'defining relations hold'), dict(kind='rot', what=what, vals=vals)

def native_to_new_axes(what, vals):
    global _nat
    if _nat is None: _nat = Native()
    class V3(ctypes.Structure): _fields_ = [('x', ctypes.c_double), ('y', ctypes.c_double), ('z', ctypes.c_double)]
    class Q(ctypes.Structure): _fields_ = [('ix', ctypes.c_double), ('iy', ctypes.c_double), ('iz', ctypes.c_double), ('r', ctypes.c_double)]
    f = _nat.lib.reb_rotation_init_to_new_axes; f.restype = Q; f.argtypes = [V3, V3]
    g = _nat.lib.reb_vec3d_rotate; g.restype = V3; g.argtypes = [V3, Q]
    c = abs(vals.get('c', 1.0)) or 1.0
    if what == 'to_new_axes_zflip': newz = V3(0.0, 0.0, -c); newx = V3(float(vals.get('a', 1.0)), float(vals.get('b', 0.0)), 0.0)
    else: newz = V3(0.0, float(vals.get('s', 0.0)), float(vals.get('t', 1.0))); newx = V3(-c, 0.0, 0.0)
    if (newx.x == 0 and newx.y == 0 and newx.z == 0) or (newz.y == 0 and newz.z == 0 and newz.x == 0): return False, 'C20:to_new_axes', 'degenerate model', dict(what=what, vals=vals)
    q = f(newz, newx); rz = g(newz, q)
    ln = math.sqrt(newz.x ** 2 + newz.y ** 2 + newz.z ** 2)
    bad = abs(rz.x) > 1e-9 * ln or abs(rz.y) > 1e-9 * ln or not rz.z > 0
    return bad, 'C20:init_to_new_axes:degenerate-second-rotation', "reb_rotation_init_to_new_axes(newz=%r, newx=%r) maps newz to %r (must be on the +z axis)" % ((newz.x, newz.y, newz.z), (newx.x, newx.y, newx.z), (rz.x, rz.y, rz.z)), dict(kind='to_new_axes', what=what, vals=vals)

def replay(data):
    if data.get('kind') == 'rot':
        r = native_rot(data['what'], data['vals']); return r[0], r[2]
    if data.get('kind') == 'units_fn':
        U = load_units(); f_ = getattr(U, data['fn']); a_ = data['args']; xv = data['x']
        Lr, Tr = U.lengths_SI, U.times_SI
        want = xv * Lr[a_[0]] / Tr[a_[1]] ** (1 if data['fn'] == 'convert_vel' else 2) * Tr[a_[3]] ** (1 if data['fn'] == 'convert_vel' else 2) / Lr[a_[2]]
        got = f_(xv, *a_)
        return abs(got - want) > 1e-12 * abs(want), "%s(%r, %s) = %r, definition gives %r" % (data['fn'], xv, ', '.join(a_), got, want)
    if data.get('kind') == 'to_new_axes':
        r = native_to_new_axes(data['what'], data['vals']); return r[0], r[2]
    if data.get('kind') == 'frames': return native_frames(data['unit'], data['vals'])
    r = native_from_to(data['vals']); return r[0], r[2]

def worker(u):
    if u['what'] == 'frames': return run_frames(u)
    return run_units(u) if u['what'] == 'units' else run_rot(u)

def main():
    tier = os.environ.get('VERIF_TIER') or (sys.argv[1] if len(sys.argv) > 1 else 'quick')
    t0 = time.time()
    build.module(); build.layout(); build.build_native()
    us = [dict(what='units', tier=tier, slice=k_, nslices=7) for k_ in range(7)] + [dict(what=w, ext=True, t_ms=6000 if tier == 'quick' else 60000) for w in ('lemmas', 'normalize', 'angle_axis', 'from_to_reduced', 'from_to_antiparallel', 'orbit')]
    # exactly degenerate inputs only exist as concrete data (a symbolic length does not normalise to exactly -1): ground units
    us += [dict(what='to_new_axes_zflip', ab=ab, c=c_, t_ms=10000) for ab in ((1, 0), (0, 1), (3, 4), (-1, 0)) for c_ in ('1', '2', '1/2')] + [dict(what='to_new_axes_xflip', st=st, c=c_, t_ms=10000) for st in ((0, 1), (3, 4), (1, 0), (0, -1)) for c_ in ('1', '2', '1/2')]
    for N in ((2, 3) if tier == 'quick' else (2, 3, 4)):
        for kind in ('com', 'com_var1', 'hel', 'linear'): us.append(dict(what='frames', kind=kind, N=N, t_ms=20000 if tier == 'quick' else 120000))
    us.append(dict(what='frames', kind='com_var2', N=2, t_ms=30000 if tier == 'quick' else 120000))
    if tier == 'thorough': us.append(dict(what='frames', kind='com_var2', N=3, t_ms=300000))
    rep = run_units_(us)
    code = finish(PID, tier, rep, t0,
        bounds=dict(unit_triples='all (exhaustive over names)', rotation_constructors=['angle_axis', 'from_to (3 branches)', 'orbit'], lemmas=['L1 irotate=q v q*', 'L2 composition', 'L3 norm product']),
        assumptions=['real arithmetic (rounding outside)', 'float constants enter z3 through their shortest decimal repr', 'vectors non-zero; unit quaternion where stated'],
        outside=['rounding error magnitude', 'the generic >90 degree case of init_from_to is covered only through its two reduced factors + lemmas L2/L3 (the monolithic NRA query times out: 878 s, inconclusive)', 'init_to_new_axes outside 24 concrete exactly-degenerate inputs (new z along -z; new x along -x) — exact degeneracy cannot be expressed with a symbolic length, and the generic case inherits the monolithic >90 degree from_to query; to_orbital (inverse trigonometric functions)', 'move_to_com with test-particle variations (documented as not affecting the centre of mass); N_real > 4', 'units added by users at run time'],
        domain_note='REAL; Python units code executed on z3 Real terms; quaternion algebra over the reals with sqrt/sin/cos atoms')
    sys.exit(code)

def run_units_(us):
    from llsym.check import run_units as ru
    return ru(us, worker)

if __name__ == '__main__':
    main()
