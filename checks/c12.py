"""C12 — coordinate transformations are mutual inverses and carry (M_tot, COM) in slot 0 (DESIGN 5/C12).

REAL domain.  The exported reb_particles_transform_* functions (and the MERCURIUS/TRACE heliocentric shifts) are executed
from the IR on harness-owned particle arrays with symbolic positions, velocities, accelerations and masses, for every
concrete N and N_active in the bound; the obligations are polynomial/rational identities decided by z3."""
import sys, os, time, itertools
sys.path.insert(0, os.path.dirname(os.path.dirname(os.path.abspath(__file__))))
import z3
from llsym import build
from llsym.harness import *
from llsym.check import *
from llsym.solve import model_value

PID = 'C12'
POS = ['x', 'y', 'z']; VEL = ['vx', 'vy', 'vz']; ACC = ['ax', 'ay', 'az']

class PArr:
    def __init__(s, I, N, name, fill=None):
        s.I = I; s.N = N
        s.psize = build.layout().structs['reb_particle']['size']
        s.ptr = I.mem.alloc(max(1, N) * s.psize, name, 'harness', zero=True)
        s.vals = {}
        if fill:
            for i in range(N):
                for f in fill:
                    v = fill[f](i, f)
                    s.set(i, f, v); s.vals[(i, f)] = v
    def view(s, i): return SimView(s.I, Ptr(s.ptr.obj, i * s.psize), 'reb_particle')
    def get(s, i, f): return s.view(i).get(f)
    def set(s, i, f, v): s.view(i).set(f, v)

SYSTEMS = {
    'jacobi': dict(fwd='reb_particles_transform_inertial_to_jacobi_posvel', inv='reb_particles_transform_jacobi_to_inertial_posvel', pmass=True,
                   inv_pos='reb_particles_transform_jacobi_to_inertial_pos', fwd_acc='reb_particles_transform_inertial_to_jacobi_acc',
                   inv_acc='reb_particles_transform_jacobi_to_inertial_acc', fwd_pva='reb_particles_transform_inertial_to_jacobi_posvelacc'),
    'democraticheliocentric': dict(fwd='reb_particles_transform_inertial_to_democraticheliocentric_posvel', inv='reb_particles_transform_democraticheliocentric_to_inertial_posvel',
                   inv_pos='reb_particles_transform_democraticheliocentric_to_inertial_pos', pmass=False),
    'whds': dict(fwd='reb_particles_transform_inertial_to_whds_posvel', inv='reb_particles_transform_whds_to_inertial_posvel',
                   inv_pos='reb_particles_transform_whds_to_inertial_pos', pmass=False),
    'barycentric': dict(fwd='reb_particles_transform_inertial_to_barycentric_posvel', inv='reb_particles_transform_barycentric_to_inertial_posvel',
                   inv_pos='reb_particles_transform_barycentric_to_inertial_pos', inv_acc='reb_particles_transform_barycentric_to_inertial_acc', pmass=False),   # inertial_to_barycentric_acc is declared in rebound.h but not defined
}

def call_t(I, name, a, b, N, na, pmass=None):
    args = [a.ptr, b.ptr] + ([pmass.ptr] if pmass is not None else []) + [N, na]
    I.call('@' + name, args)

def run_unit(u):
    rep = Report()
    dom = Real(); ctx = PathCtx()
    I = new_interp(dom, ctx)
    N, na, sysname = u['N'], u['na'], u['sys']
    S = SYSTEMS[sysname]
    label = "%s N=%d N_active=%d " % (sysname, N, na)
    ob = Obligations(rep, Prover(t_inproc_ms=u.get('t_ms', 15000), t_ext_s=60, use_external=u.get('ext', False)), label)
    def sym(i, f): return dom.fresh('%s%d' % (f, i))
    P = PArr(I, N, 'particles', {f: sym for f in POS + VEL + ACC + ['m']})
    M = [P.vals[(i, 'm')] for i in range(N)]
    assum = [m >= 0 for m in M] + [M[0] > 0]
    pm = P if S['pmass'] else None
    allvars = [P.vals[k] for k in sorted(P.vals)]
    def names_vals(model): return {str(t): float(model_value(model, t)) for t in allvars}
    def on_sat_factory(what):
        def on_sat(model):
            vals = names_vals(model)
            ok, detail = native_roundtrip(u, vals)
            return ok, "C12:%s" % sysname, what + ": " + detail, dict(unit=u, inputs=vals)
        return on_sat
    # ---- forward
    T = PArr(I, N, 'transformed')
    call_t(I, S['fwd'], P, T, N, na, pm)
    mact = sum(M[:na], z3.RealVal(0))
    # slot 0: total active mass, COM position and velocity
    ob.prove("slot0.m == total active mass", dom.z(T.get(0, 'm')) == mact, assum, axioms=dom.axioms, on_sat=on_sat_factory("slot 0 mass"), domain='REAL')
    for f in POS + VEL:
        com = sum((M[i] * P.vals[(i, f)] for i in range(na)), z3.RealVal(0))
        ob.prove("slot0.%s * Mtot == sum m %s" % (f, f), dom.z(T.get(0, f)) * mact == com, assum + [mact > 0], axioms=dom.axioms, on_sat=on_sat_factory("slot 0 centre of mass " + f), domain='REAL')
    # textbook Jacobi definition (independent oracle)
    if sysname == 'jacobi':
        for i in range(1, N):
            k = min(i, na)
            mk = sum(M[:k], z3.RealVal(0))
            for f in POS + VEL:
                com = sum((M[j] * P.vals[(j, f)] for j in range(k)), z3.RealVal(0))
                ob.prove("jacobi[%d].%s == %s_i - COM(interior)" % (i, f, f), (P.vals[(i, f)] - dom.z(T.get(i, f))) * mk == com, assum + [mk > 0],
                         axioms=dom.axioms, on_sat=on_sat_factory("Jacobi coordinate definition"), domain='REAL')
    if sysname in ('democraticheliocentric', 'whds'):
        for i in range(1, N):
            for f in POS:
                ob.prove("%s[%d].%s == heliocentric position" % (sysname, i, f), dom.z(T.get(i, f)) == P.vals[(i, f)] - P.vals[(0, f)], assum, axioms=dom.axioms,
                         on_sat=on_sat_factory("heliocentric position"), domain='REAL')
    # ---- inverse o forward == identity
    B = PArr(I, N, 'back')
    for i in range(N): B.set(i, 'm', M[i])      # the inverse maps read particle masses of the destination (documented)
    call_t(I, S['inv'], B, T, N, na, pm)
    den = [b != 0 for b in dom.divs]
    for i in range(N):
        for f in POS + VEL:
            ob.prove("inverse(forward)[%d].%s == original" % (i, f), dom.z(B.get(i, f)) == P.vals[(i, f)], assum + den, axioms=dom.axioms,
                     on_sat=on_sat_factory("round trip inertial->%s->inertial changed %s of particle %d" % (sysname, f, i)), domain='REAL')
    # ---- pos-only inverse agrees with posvel inverse
    if 'inv_pos' in S:
        B2 = PArr(I, N, 'back_pos')
        for i in range(N): B2.set(i, 'm', M[i])
        call_t(I, S['inv_pos'], B2, T, N, na, pm)
        for i in range(N):
            for f in POS:
                ob.prove("inverse_pos[%d].%s == inverse_posvel" % (i, f), dom.z(B2.get(i, f)) == dom.z(B.get(i, f)), assum + den, axioms=dom.axioms,
                         on_sat=on_sat_factory("pos-only inverse disagrees with posvel inverse"), domain='REAL')
    # ---- acceleration variants
    if 'fwd_acc' in S:
        TA = PArr(I, N, 'transformed_acc')
        call_t(I, S['fwd_acc'], P, TA, N, na, pm)
        BA = PArr(I, N, 'back_acc')
        for i in range(N): BA.set(i, 'm', M[i])
        # inverse acc needs the masses stored in the transformed set's slot 0 for some systems
        for i in range(N): TA.set(i, 'm', dom.z(T.get(i, 'm')))
        call_t(I, S['inv_acc'], BA, TA, N, na, pm)
        den = [b != 0 for b in dom.divs]
        for i in range(N):
            for f in ACC:
                ob.prove("inverse_acc(forward_acc)[%d].%s == original" % (i, f), dom.z(BA.get(i, f)) == P.vals[(i, f)], assum + den, axioms=dom.axioms,
                         on_sat=on_sat_factory("acceleration round trip changed %s of particle %d" % (f, i)), domain='REAL')
        # the acc variant is the same linear map as the pos variant (apply to accelerations placed in the position slots)
        P2 = PArr(I, N, 'acc_as_pos')
        for i in range(N):
            P2.set(i, 'm', M[i])
            for a, p in zip(ACC, POS): P2.set(i, p, P.vals[(i, a)])
            for p in VEL: P2.set(i, p, dom.const(0.0))
        T2 = PArr(I, N, 'transformed_acc_as_pos')
        call_t(I, S['fwd'], P2, T2, N, na, P if S['pmass'] else None)
        for i in range(N):
            for a, p in zip(ACC, POS):
                ob.prove("forward_acc[%d].%s == forward_pos applied to accelerations" % (i, a), dom.z(TA.get(i, a)) == dom.z(T2.get(i, p)), assum + [b != 0 for b in dom.divs], axioms=dom.axioms,
                         on_sat=on_sat_factory("acc variant disagrees with pos variant"), domain='REAL')
    if 'inv_acc' in S and 'fwd_acc' not in S:
        # only an inverse acceleration variant exists: it must be the inverse position map applied to the accelerations
        # (the transformed set T carries the masses; the accelerations of P serve as arbitrary transformed accelerations)
        QA = PArr(I, N, 'tacc'); QP = PArr(I, N, 'tacc_as_pos')
        for i in range(N):
            mi_ = dom.z(T.get(i, 'm')) if i < na else M[i]          # slots of test particles carry whatever mass the caller left there: it must be ignored
            QA.set(i, 'm', mi_); QP.set(i, 'm', mi_)
            for a, p_ in zip(ACC, POS): QA.set(i, a, P.vals[(i, a)]); QP.set(i, p_, P.vals[(i, a)])
        BA = PArr(I, N, 'back_acc'); BP = PArr(I, N, 'back_acc_as_pos')
        for i in range(N): BA.set(i, 'm', M[i]); BP.set(i, 'm', M[i])
        call_t(I, S['inv_acc'], BA, QA, N, na, pm); call_t(I, S['inv_pos'], BP, QP, N, na, pm)
        for i in range(N):
            for a, p_ in zip(ACC, POS):
                ob.prove("inverse_acc[%d].%s == inverse_pos applied to accelerations" % (i, a), dom.z(BA.get(i, a)) == dom.z(BP.get(i, p_)), assum + [b != 0 for b in dom.divs], axioms=dom.axioms,
                         on_sat=on_sat_factory("inverse acc variant disagrees with inverse pos variant"), domain='REAL')
    if 'fwd_pva' in S:
        T3 = PArr(I, N, 'transformed_pva')
        call_t(I, S['fwd_pva'], P, T3, N, na, pm)
        for i in range(N):
            for f in POS + VEL:
                ob.prove("posvelacc[%d].%s == posvel" % (i, f), dom.z(T3.get(i, f)) == dom.z(T.get(i, f)), assum + [b != 0 for b in dom.divs], axioms=dom.axioms, domain='REAL')
            for f in ACC:
                ob.prove("posvelacc[%d].%s == acc" % (i, f), dom.z(T3.get(i, f)) == dom.z(TA.get(i, f)), assum + [b != 0 for b in dom.divs], axioms=dom.axioms, domain='REAL')
    # ---- forward o inverse == identity (start from arbitrary transformed coordinates with slot0.m == sum of masses)
    if u.get('fwd_inv', True):
        Q = PArr(I, N, 'arbitrary_transformed', {f: (lambda i, f: dom.fresh('q_%s%d' % (f, i))) for f in POS + VEL})
        for i in range(N): Q.set(i, 'm', M[i])
        Q.set(0, 'm', mact)
        B3 = PArr(I, N, 'from_arbitrary')
        for i in range(N): B3.set(i, 'm', M[i])
        call_t(I, S['inv'], B3, Q, N, na, (B3 if S['pmass'] else None))
        T4 = PArr(I, N, 'again')
        call_t(I, S['fwd'], B3, T4, N, na, (B3 if S['pmass'] else None))
        den = [b != 0 for b in dom.divs]
        for i in range(N):
            for f in POS + VEL:
                ob.prove("forward(inverse)[%d].%s == original" % (i, f), dom.z(T4.get(i, f)) == Q.vals[(i, f)], assum + den + [mact > 0], axioms=dom.axioms, domain='REAL')
    rep.paths += 1; rep.add_interp(I)
    if ctx.decisions: rep.errors.append(label + "unexpected symbolic branch")
    def wit(model):
        ok, detail = native_roundtrip(u, names_vals(model), validate_only=True)
        if ok: raise RuntimeError("engine/native mismatch: " + detail)
    ob.witness("inputs", assum + [m > 0 for m in M] + [b != 0 for b in dom.divs], replay=wit)
    return rep

_nat = None
def native_roundtrip(u, vals, validate_only=False):
    """native forward+inverse on the concrete inputs: returns (property violated, detail); with validate_only compare engine(CONC) vs native bits"""
    global _nat
    import ctypes
    if _nat is None: _nat = Native()
    N, na = u['N'], u['na']; S = SYSTEMS[u['sys']]
    ps = _nat.psize
    def arr(): return (ctypes.c_char * (ps * max(1, N)))()
    A = arr(); T = arr(); B = arr()
    def view(a, i): return NView(_nat, ctypes.addressof(a) + i * ps, 'reb_particle')
    for i in range(N):
        for f in POS + VEL + ACC + ['m']: view(A, i).set(f, vals['%s%d' % (f, i)])
        view(B, i).set('m', vals['m%d' % i])
    def call(name, a, b):
        f = getattr(_nat.lib, name); f.restype = None
        if S['pmass']:
            f.argtypes = [ctypes.c_void_p] * 3 + [ctypes.c_uint, ctypes.c_uint]; f(ctypes.addressof(a), ctypes.addressof(b), ctypes.addressof(A), N, na)
        else:
            f.argtypes = [ctypes.c_void_p] * 2 + [ctypes.c_uint, ctypes.c_uint]; f(ctypes.addressof(a), ctypes.addressof(b), N, na)
    call(S['fwd'], A, T); call(S['inv'], B, T)
    if validate_only:
        dom = Conc(); I = new_interp(dom)
        P = PArr(I, N, 'p', {f: (lambda i, f: vals['%s%d' % (f, i)]) for f in POS + VEL + ACC + ['m']})
        TT = PArr(I, N, 't'); BB = PArr(I, N, 'b')
        for i in range(N): BB.set(i, 'm', vals['m%d' % i])
        call_t(I, S['fwd'], P, TT, N, na, P if S['pmass'] else None); call_t(I, S['inv'], BB, TT, N, na, P if S['pmass'] else None)
        bad = [(i, f) for i in range(N) for f in POS + VEL if not same_bits(BB.get(i, f), view(B, i).get(f))]
        return bool(bad), repr(bad)
    worst = 0.0; where = None
    scale = max([abs(vals['%s%d' % (f, i)]) for i in range(N) for f in POS + VEL] + [1e-300])
    for i in range(N):
        for f in POS + VEL:
            d = abs(view(B, i).get(f) - vals['%s%d' % (f, i)])
            if d != d: d = float('inf')
            if d > worst: worst = d; where = (i, f)
    mtot = sum(vals['m%d' % i] for i in range(na))
    com_bad = 0.0
    if mtot > 0:
        for f in POS + VEL:
            com = sum(vals['m%d' % i] * vals['%s%d' % (f, i)] for i in range(na)) / mtot
            com_bad = max(com_bad, abs(view(T, 0).get(f) - com))
        com_bad = max(com_bad, abs(view(T, 0).get('m') - mtot))
    # rounding-aware threshold: condition number grows with mass ratios; demand a gross discrepancy
    mmin = min([vals['m%d' % i] for i in range(na) if vals['m%d' % i] > 0] + [mtot or 1.0])
    tol = 1e-7 * scale * max(1.0, (mtot / mmin) if mmin > 0 else 1.0)
    bad = worst > tol or com_bad > tol
    acc_note = ''
    if 'fwd_acc' in S:
        # acceleration variants: the acc map must be the position map applied to the accelerations, and inv_acc(fwd_acc) the identity
        TA = arr(); BA = arr(); A2 = arr(); T2 = arr()
        for i in range(N):
            view(BA, i).set('m', vals['m%d' % i]); view(A2, i).set('m', vals['m%d' % i])
            for a_, p_ in zip(ACC, POS): view(A2, i).set(p_, vals['%s%d' % (a_, i)])
        call(S['fwd_acc'], A, TA)
        for i in range(N): view(TA, i).set('m', view(T, i).get('m'))
        call(S['inv_acc'], BA, TA)
        ascale = max([abs(vals['%s%d' % (f, i)]) for i in range(N) for f in ACC] + [1e-300])
        atol = 1e-7 * ascale * max(1.0, (mtot / mmin) if mmin > 0 else 1.0)
        w2 = 0.0; wh2 = None
        for i in range(N):
            for f in ACC:
                d = abs(view(BA, i).get(f) - vals['%s%d' % (f, i)])
                if not d <= w2: w2, wh2 = (d if d == d else float('inf')), ('round trip', i, f)
        # forward_pos on accelerations-as-positions (uses the original particle set for masses where the API wants it)
        f_ = getattr(_nat.lib, S['fwd']); f_.restype = None
        if S['pmass']:
            f_.argtypes = [ctypes.c_void_p] * 3 + [ctypes.c_uint, ctypes.c_uint]; f_(ctypes.addressof(A2), ctypes.addressof(T2), ctypes.addressof(A), N, na)
        else:
            f_.argtypes = [ctypes.c_void_p] * 2 + [ctypes.c_uint, ctypes.c_uint]; f_(ctypes.addressof(A2), ctypes.addressof(T2), N, na)
        for i in range(N):
            for a_, p_ in zip(ACC, POS):
                d = abs(view(TA, i).get(a_) - view(T2, i).get(p_))
                if not d <= w2: w2, wh2 = (d if d == d else float('inf')), ('acc vs pos map', i, a_)
        if w2 > atol: bad = True
        acc_note = ", acceleration variants worst %.3e at %r (tolerance %.1e)" % (w2, wh2, atol)
    if 'inv_acc' in S and 'fwd_acc' not in S:
        QA = arr(); QP = arr(); BA = arr(); BP = arr()
        for i in range(N):
            mi_ = view(T, i).get('m') if i < na else vals['m%d' % i]
            view(QA, i).set('m', mi_); view(QP, i).set('m', mi_)
            view(BA, i).set('m', vals['m%d' % i]); view(BP, i).set('m', vals['m%d' % i])
            for a_, p_ in zip(ACC, POS): view(QA, i).set(a_, vals['%s%d' % (a_, i)]); view(QP, i).set(p_, vals['%s%d' % (a_, i)])
        call(S['inv_acc'], BA, QA); call(S['inv_pos'], BP, QP)
        ascale = max([abs(vals['%s%d' % (f, i)]) for i in range(N) for f in ACC] + [1e-300])
        atol = 1e-7 * ascale * max(1.0, (mtot / mmin) if mmin > 0 else 1.0)
        w2 = 0.0; wh2 = None
        for i in range(N):
            for a_, p_ in zip(ACC, POS):
                d = abs(view(BA, i).get(a_) - view(BP, i).get(p_))
                if not d <= w2: w2, wh2 = (d if d == d else float('inf')), ('inverse acc vs inverse pos map', i, a_)
        if w2 > atol: bad = True
        acc_note = ", inverse acceleration variant worst %.3e at %r (tolerance %.1e)" % (w2, wh2, atol)
    return bad, "native round trip error %.3e at %r, slot-0 error %.3e (tolerance %.1e)%s" % (worst, where, com_bad, tol, acc_note)

def replay(data):
    return native_roundtrip(data['unit'], data['inputs'])

def units(tier):
    us = []
    Nmax = 4 if tier == 'quick' else 6
    for sysname in SYSTEMS:
        for N in range(1, Nmax + 1):
            for na in range(1, N + 1):
                if tier == 'quick' and N == 4 and na not in (1, 3, 4): continue
                us.append(dict(sys=sysname, N=N, na=na, fwd_inv=(N <= (3 if tier == 'quick' else 4))))
    return us

def run_dh(u):
    """MERCURIUS / TRACE heliocentric shifts on a real simulation: dh_to_inertial(inertial_to_dh(s)) == s; COM preserved"""
    rep = Report(); dom = Real(); ctx = PathCtx()
    I = new_interp(dom, ctx); sim = Sim(I)
    N, na, integ = u['N'], u['na'], u['integ']
    label = "%s dh N=%d N_active=%d tpt=%d " % (integ, N, na, u['tpt'])
    ob = Obligations(rep, Prover(t_inproc_ms=15000, use_external=False), label)
    for i in range(N): sim.add(m=1.0)
    vals = {}
    for i in range(N):
        for f in POS + VEL + ['m']:
            v = dom.fresh('%s%d' % (f, i)); vals[(i, f)] = v; sim.particle(i).set(f, v)
    sim.set('N_active', na if na != N else 0xffffffff); sim.set('testparticle_type', u['tpt'])
    M = [vals[(i, 'm')] for i in range(N)]
    assum = [m >= 0 for m in M] + [M[0] > 0]
    I.call('@reb_integrator_%s_inertial_to_dh' % integ, [sim.ptr])
    nact = N if (na == N or u['tpt'] == 1) else na
    mt = sum(M[:nact], z3.RealVal(0))
    for i in range(1, N):
        for f in POS:
            ob.prove("dh[%d].%s == x_i - x_0" % (i, f), dom.z(sim.particle(i).get(f)) == vals[(i, f)] - vals[(0, f)], assum, axioms=dom.axioms, domain='REAL')
        for f in VEL:
            com = sum((M[j] * vals[(j, f)] for j in range(nact)), z3.RealVal(0))
            ob.prove("dh[%d].%s == v_i - v_com" % (i, f), (vals[(i, f)] - dom.z(sim.particle(i).get(f))) * mt == com, assum + [mt > 0], axioms=dom.axioms, domain='REAL')
    I.call('@reb_integrator_%s_dh_to_inertial' % integ, [sim.ptr])
    den = [b != 0 for b in dom.divs]
    for i in range(N):
        for f in POS + VEL:
            ob.prove("dh_to_inertial(inertial_to_dh)[%d].%s == original" % (i, f), dom.z(sim.particle(i).get(f)) == vals[(i, f)], assum + den, axioms=dom.axioms, domain='REAL')
    rep.paths += 1; rep.add_interp(I)
    ob.witness("inputs", assum + den)
    return rep

def worker(u):
    return run_dh(u) if 'integ' in u else run_unit(u)

def main():
    tier = os.environ.get('VERIF_TIER') or (sys.argv[1] if len(sys.argv) > 1 else 'quick')
    t0 = time.time()
    build.module(); build.layout(); build.build_native()
    us = units(tier)
    for integ in ('mercurius', 'trace'):
        for N in ((2, 3) if tier == 'quick' else (1, 2, 3, 4, 5)):
            for na in range(1, N + 1):
                for tpt in (0, 1):
                    us.append(dict(integ=integ, N=N, na=na, tpt=tpt))
    rep = run_units(us, worker)
    Nmax = max(u['N'] for u in us)
    code = finish(PID, tier, rep, t0,
        bounds=dict(N_max=Nmax, N_active='1..N (all)', systems=list(SYSTEMS) + ['mercurius dh', 'trace dh'], configurations=len(us)),
        assumptions=['masses >= 0 and m_0 > 0 (zero-mass bodies allowed elsewhere)', 'all denominators (partial mass sums) non-zero', 'the inverse maps read masses from the destination array, as documented'],
        outside=['rounding error magnitude', 'N_active = 0 (the property ranges over 1..N)', 'N > %d' % Nmax],
        domain_note='REAL: exact rational arithmetic; 1/x as inv atom with field axiom; rounding error magnitude is outside the claim')
    sys.exit(code)

if __name__ == '__main__':
    main()
