"""C16 — variational particles are the derivatives of the trajectory (the force-loop and rescaling parts; DESIGN 5/C16).

REAL domain + symbolic differentiation (P-deriv).  The real reb_calculate_acceleration and reb_calculate_acceleration_var are
executed from LLVM IR in the same run on symbolic real and variational particle data; a small differentiator over the engine's
terms (ring operations, inv atoms with d inv(b) = -inv(b)^2 db, sqrt atoms with d s = dA/(2 s)) produces the directional
derivative of every real acceleration component along (delta x_i, delta m_i); z3 proves it equal to the variational
acceleration the code computed, for first-order variations of all particles (massive case) and for second-order variations.
"""
import sys, os, time, ctypes
sys.path.insert(0, os.path.dirname(os.path.dirname(os.path.abspath(__file__))))
import z3
from llsym import build
from llsym.harness import *
from llsym.check import *
from llsym.solve import model_value

PID = 'C16'

class Deriv:
    """d/d lambda of a REAL-domain term, given d(var) for the base variables"""
    def __init__(s, dom, dvars):
        s.dom = dom; s.dv = {v.get_id(): d for v, d in dvars}; s.cache = {}
    def d(s, t):
        if not isinstance(t, z3.ExprRef): return z3.RealVal(0)
        k = t.get_id()
        r = s.cache.get(k)
        if r is not None: return r[1]
        r = s._d(t); s.cache[k] = (t, r); return r            # keep t alive: z3 recycles ast ids
    def _d(s, t):
        if z3.is_rational_value(t) or z3.is_int_value(t) or z3.is_algebraic_value(t): return z3.RealVal(0)
        if z3.is_const(t): return s.dv.get(t.get_id(), z3.RealVal(0))
        kind = t.decl().kind(); ch = t.children()
        if kind == z3.Z3_OP_ADD: return z3.Sum([s.d(c) for c in ch])
        if kind == z3.Z3_OP_SUB:
            r = s.d(ch[0])
            for c in ch[1:]: r = r - s.d(c)
            return r
        if kind == z3.Z3_OP_UMINUS: return -s.d(ch[0])
        if kind == z3.Z3_OP_MUL:
            tot = z3.RealVal(0)
            for i in range(len(ch)):
                term = s.d(ch[i])
                for j in range(len(ch)):
                    if j != i: term = term * ch[j]
                tot = tot + term
            return tot
        if kind == z3.Z3_OP_UNINTERPRETED:
            nm = t.decl().name()
            if nm == 'inv': return -(t * t) * s.d(ch[0])
            if nm == 'sqrt': return s.d(ch[0]) * s.dom.inv(2 * t)
        if kind == z3.Z3_OP_POWER and z3.is_int_value(ch[1]) or (kind == z3.Z3_OP_POWER and z3.is_rational_value(ch[1])):
            n = ch[1].numerator_as_long()
            return n * (ch[0] ** (n - 1)) * s.d(ch[0])
        raise Unsupported("derivative of %s" % t.decl().name())

C7 = ['x', 'y', 'z', 'vx', 'vy', 'vz', 'm']

def setup(dom, ctx, N, grav, order, na=None, tpt=0):
    I = new_interp(dom, ctx); I.concrete_env = True
    L = build.layout(); sim = Sim(I)
    for i in range(N): sim.add(m=1.0)
    sim.set('gravity', L.enumerators['REB_GRAVITY_' + grav])
    if na is not None: sim.set('N_active', na); sim.set('testparticle_type', tpt)
    ia = I.call('@reb_simulation_add_variation_1st_order', [sim.ptr, 0xffffffff])
    ib = ic = None
    if order == 2:
        ib = I.call('@reb_simulation_add_variation_1st_order', [sim.ptr, 0xffffffff])
        ic = I.call('@reb_simulation_add_variation_2nd_order', [sim.ptr, 0xffffffff, ia, ib])
    V = {}
    def fill(base, tag):
        for i in range(N):
            for c in ('x', 'y', 'z', 'm'):
                V[(tag, i, c)] = dom.fresh('%s%s%d' % (tag, c, i)); sim.particle(base + i).set(c, V[(tag, i, c)])
    fill(0, 'r'); fill(ia, 'a')
    if order == 2: fill(ib, 'b'); fill(ic, 'c')
    G = dom.fresh('G'); sim.set('G', G)
    return I, sim, V, G, ia, ib, ic

def run_force(u):
    rep = Report(); N, grav, order = u['N'], u['gravity'], u['order']
    label = "force loops %s N=%d order=%d%s " % (grav, N, order, (' N_active=%d testparticle_type=%d' % (u['na'], u.get('tpt', 0))) if u.get('na') is not None else '')
    dom = Real(); ctx = PathCtx()
    I, sim, V, G, ia, ib, ic = setup(dom, ctx, N, grav, order, u.get('na'), u.get('tpt', 0))
    I.call('@reb_calculate_acceleration', [sim.ptr])
    I.call('@reb_calculate_acceleration_var', [sim.ptr])
    rep.paths += 1; rep.add_interp(I)
    if ctx.decisions: rep.errors.append(label + "unexpected symbolic branch")
    acc = lambda base, i: [dom.z(sim.particle(base + i).get(a)) for a in ('ax', 'ay', 'az')]
    real = [acc(0, i) for i in range(N)]
    Da = Deriv(dom, [(V[('r', i, c)], V[('a', i, c)]) for i in range(N) for c in ('x', 'y', 'z', 'm')])
    prover = Prover(t_inproc_ms=u.get('t_ms', 20000), use_external=u.get('ext', False), t_ext_s=60)
    ob = Obligations(rep, prover, label)
    def assum(): return [b != 0 for b in dom.divs]
    wants = [[Da.d(real[i][k]) for k in range(3)] for i in range(N)]
    def on_sat(model):
        vals = {}
        for (tag, i, c_), t in V.items(): vals['%s%s%d' % (tag, c_, i)] = float(model_value(model, t))
        vals['G'] = float(model_value(model, G))
        ok, detail = native_fd(u, vals)
        return ok, 'C16:force:%s:order%d' % (grav, order), detail, dict(unit=u, vals=vals)
    if order == 1:
        for i in range(N):
            got = acc(ia, i)
            for k in range(3):
                ob.prove("variational a[%d].%s == d/dlambda of the real acceleration" % (i, 'xyz'[k]), got[k] == wants[i][k], assum(), axioms=dom.axioms, on_sat=on_sat, domain='REAL + symbolic differentiation')
    else:
        Db = Deriv(dom, [(V[('r', i, c)], V[('b', i, c)]) for i in range(N) for c in ('x', 'y', 'z', 'm')])
        # second order: d^2 a / dlambda dmu  with  x -> x + lambda da + mu db + lambda mu dc
        for i in range(N):
            got = acc(ic, i)
            for k in range(3):
                first_a = wants[i][k]
                # derivative of first_a along b, where the a-variation itself varies by c along b
                Dab = Deriv(dom, [(V[('r', j, c)], V[('b', j, c)]) for j in range(N) for c in ('x', 'y', 'z', 'm')] + [(V[('a', j, c)], V[('c', j, c)]) for j in range(N) for c in ('x', 'y', 'z', 'm')])
                want2 = Dab.d(first_a)
                ob.prove("second-order variational a[%d].%s == d^2/dlambda dmu of the real acceleration" % (i, 'xyz'[k]), got[k] == want2, assum(), axioms=dom.axioms, on_sat=on_sat, domain='REAL + symbolic differentiation')
    ob.witness("inputs", assum(), axioms=dom.axioms)
    # translator validation: concrete engine run vs native
    bad = native_var(u); rep.replays += 1
    if bad: rep.errors.append(label + "engine(CONC) and native disagree: " + bad)
    return rep

_nat = None
def nat():
    global _nat
    if _nat is None: _nat = Native()
    return _nat

def native_fd(u, vals):
    """native replay: variational accelerations against central finite differences of the real accelerations (first order),
    resp. mixed second differences (second order), along the model's variation vectors"""
    N = u['N']; L = nat().L
    def real_acc(shift):
        ns = nat().create()
        for i in range(N): ns.add(m=1.0)
        ns.set('gravity', L.enumerators['REB_GRAVITY_' + u['gravity']]); ns.set('G', vals['G'])
        if u.get('na') is not None: ns.set('N_active', u['na']); ns.set('testparticle_type', u.get('tpt', 0))
        for i in range(N):
            for c in ('x', 'y', 'z', 'm'): ns.particle(i).set(c, vals['r%s%d' % (c, i)] + shift(i, c))
        ns.call('reb_calculate_acceleration')
        out = [[ns.particle(i).get(a) for a in ('ax', 'ay', 'az')] for i in range(N)]; ns.free(); return out
    ns = nat().create()
    for i in range(N): ns.add(m=1.0)
    ns.set('gravity', L.enumerators['REB_GRAVITY_' + u['gravity']]); ns.set('G', vals['G'])
    if u.get('na') is not None: ns.set('N_active', u['na']); ns.set('testparticle_type', u.get('tpt', 0))
    ia = ns.call('reb_simulation_add_variation_1st_order', ctypes.c_int(-1), restype=ctypes.c_int)
    tags = [('r', 0), ('a', ia)]
    if u['order'] == 2:
        ib = ns.call('reb_simulation_add_variation_1st_order', ctypes.c_int(-1), restype=ctypes.c_int)
        ic = ns.call('reb_simulation_add_variation_2nd_order', ctypes.c_int(-1), ctypes.c_int(ia), ctypes.c_int(ib), restype=ctypes.c_int)
        tags += [('b', ib), ('c', ic)]
    for tag, base in tags:
        for i in range(N):
            for c in ('x', 'y', 'z', 'm'): ns.particle(base + i).set(c, vals['%s%s%d' % (tag, c, i)])
    ns.call('reb_calculate_acceleration'); ns.call('reb_calculate_acceleration_var')
    tgt = ia if u['order'] == 1 else ic
    got = [[ns.particle(tgt + i).get(a) for a in ('ax', 'ay', 'az')] for i in range(N)]; ns.free()
    scale = max(abs(vals[k]) for k in vals if k[0] == 'r') + 1e-300
    h = 1e-5 * scale
    d = lambda tag: (lambda i, c: vals['%s%s%d' % (tag, c, i)])
    if u['order'] == 1:
        vs = max(abs(vals[k]) for k in vals if k[0] == 'a') + 1e-300
        e = h / vs
        p = real_acc(lambda i, c: e * d('a')(i, c)); m = real_acc(lambda i, c: -e * d('a')(i, c))
        fd = [[(p[i][k] - m[i][k]) / (2 * e) for k in range(3)] for i in range(N)]
    else:
        va = max(abs(vals[k]) for k in vals if k[0] == 'a') + 1e-300; vb = max(abs(vals[k]) for k in vals if k[0] == 'b') + 1e-300
        h2 = 1e-3 * scale; ea, eb = h2 / va, h2 / vb
        def f(sa, sb): return real_acc(lambda i, c: sa * ea * d('a')(i, c) + sb * eb * d('b')(i, c) + sa * sb * ea * eb * d('c')(i, c))
        pp, pm, mp, mm = f(1, 1), f(1, -1), f(-1, 1), f(-1, -1)
        fd = [[(pp[i][k] - pm[i][k] - mp[i][k] + mm[i][k]) / (4 * ea * eb) for k in range(3)] for i in range(N)]
    worst = 0.0; big = max(abs(x) for r_ in fd for x in r_) + max(abs(x) for r_ in got for x in r_) + 1e-300
    for i in range(N):
        for k in range(3): worst = max(worst, abs(fd[i][k] - got[i][k]))
    if not (big < 1e150 and big == big): return False, "degenerate model"
    return worst > 1e-3 * big, "native variational acceleration differs from the finite difference of the real acceleration by %.3g (scale %.3g)" % (worst, big)

def native_var(u):
    import random
    rnd = random.Random(3); N = u['N']; L = nat().L
    vals = [[rnd.uniform(-1, 1) for _ in range(4)] for _ in range(4 * N)]
    def build_(create, call, setp, getp):
        pass
    # native
    ns = nat().create()
    for i in range(N): ns.add(m=1.0)
    ns.set('gravity', L.enumerators['REB_GRAVITY_' + u['gravity']])
    if u.get('na') is not None: ns.set('N_active', u['na']); ns.set('testparticle_type', u.get('tpt', 0))
    ia = ns.call('reb_simulation_add_variation_1st_order', ctypes.c_int(-1), restype=ctypes.c_int)
    if u['order'] == 2:
        ib = ns.call('reb_simulation_add_variation_1st_order', ctypes.c_int(-1), restype=ctypes.c_int)
        ic = ns.call('reb_simulation_add_variation_2nd_order', ctypes.c_int(-1), ctypes.c_int(ia), ctypes.c_int(ib), restype=ctypes.c_int)
    ntot = ns.get('N')
    for j in range(ntot):
        for q, c in enumerate(('x', 'y', 'z', 'm')): ns.particle(j).set(c, vals[j % len(vals)][q] + (2.0 if c == 'm' and j < N else 0.0) + (3.0 * j if c == 'x' else 0.0))
    ns.call('reb_calculate_acceleration'); ns.call('reb_calculate_acceleration_var')
    nacc = [[ns.particle(j).get(a) for a in ('ax', 'ay', 'az')] for j in range(ntot)]
    ns.free()
    dom = Conc(); I = new_interp(dom); I.mem.on_uninit = 'zero'; sim = Sim(I)
    for i in range(N): sim.add(m=1.0)
    sim.set('gravity', L.enumerators['REB_GRAVITY_' + u['gravity']])
    if u.get('na') is not None: sim.set('N_active', u['na']); sim.set('testparticle_type', u.get('tpt', 0))
    ia = I.call('@reb_simulation_add_variation_1st_order', [sim.ptr, 0xffffffff])
    if u['order'] == 2:
        ib = I.call('@reb_simulation_add_variation_1st_order', [sim.ptr, 0xffffffff]); ic = I.call('@reb_simulation_add_variation_2nd_order', [sim.ptr, 0xffffffff, ia, ib])
    for j in range(ntot):
        for q, c in enumerate(('x', 'y', 'z', 'm')): sim.particle(j).set(c, vals[j % len(vals)][q] + (2.0 if c == 'm' and j < N else 0.0) + (3.0 * j if c == 'x' else 0.0))
    I.call('@reb_calculate_acceleration', [sim.ptr]); I.call('@reb_calculate_acceleration_var', [sim.ptr])
    eacc = [[sim.particle(j).get(a) for a in ('ax', 'ay', 'az')] for j in range(ntot)]
    bad = [(j, q) for j in range(ntot) for q in range(3) if not same_bits(eacc[j][q], nacc[j][q])]
    return repr(bad) if bad else ''

def run_rescale(u):
    rep = Report(); rep.paths = 1
    dom = Real(); ctx = PathCtx(); N = 2
    I, sim, V, G, ia, ib, ic = setup(dom, ctx, N, 'BASIC', 1)
    ib = I.call('@reb_simulation_add_variation_1st_order', [sim.ptr, 0xffffffff])
    W = {}
    for i in range(N):
        for c in C7[:6] + ['m']:
            W[(i, c)] = dom.fresh('w%s%d' % (c, i)); sim.particle(ib + i).set(c, W[(i, c)])
            if (('a', i, c) not in V): V[('a', i, c)] = dom.fresh('a%s%d' % (c, i)); sim.particle(ia + i).set(c, V[('a', i, c)])
    scale = dom.fresh('scale'); ctx.assume(scale > 0)
    vc = sim.get('var_config'); vsz = build.layout().structs['reb_variational_configuration']['size']
    l0 = dom.fresh('lrescale0'); SimView(I, Ptr(vc.obj, vc.off + vsz * 1), 'reb_variational_configuration').set('lrescale', l0)
    I.call('@reb_simulation_rescale_var', [sim.ptr, 1, scale]) if '@reb_simulation_rescale_var' in I.mod.funcs else None
    rep.add_interp(I)
    ob = Obligations(rep, Prover(t_inproc_ms=10000, use_external=False), 'rescale_var ')
    if '@reb_simulation_rescale_var' not in I.mod.funcs:
        rep.notes.append("reb_simulation_rescale_var not present in this tree: skipped"); return rep
    side = [b != 0 for b in dom.divs]
    for i in range(N):
        for c in C7[:6] + ['m']:
            ob.prove("configuration 1: %s[%d] scaled by 1/scale" % (c, i), dom.z(sim.particle(ib + i).get(c)) * scale == W[(i, c)], list(ctx.pc) + side, axioms=dom.axioms, domain='REAL')
            ob.prove("configuration 0: %s[%d] untouched" % (c, i), dom.z(sim.particle(ia + i).get(c)) == V[('a', i, c)], list(ctx.pc), domain='REAL')
            if c in ('x', 'y', 'z', 'm'): ob.prove("real particle %s[%d] untouched" % (c, i), dom.z(sim.particle(i).get(c)) == V[('r', i, c)], list(ctx.pc), domain='REAL')
    l1 = dom.z(SimView(I, Ptr(vc.obj, vc.off + vsz * 1), 'reb_variational_configuration').get('lrescale'))
    ob.prove("lrescale increased by log(scale)", l1 == l0 + dom.fn('log', 1)(scale), list(ctx.pc), domain='REAL (log uninterpreted)')
    return rep

def worker(u):
    return run_rescale(u) if u['what'] == 'rescale' else run_force(u)

def replay(data):
    return native_fd(data['unit'], data['vals'])

def main():
    tier = os.environ.get('VERIF_TIER') or (sys.argv[1] if len(sys.argv) > 1 else 'quick')
    t0 = time.time()
    build.module(); build.layout(); build.build_native()
    us = [dict(what='force', gravity='BASIC', N=2, order=1), dict(what='force', gravity='COMPENSATED', N=2, order=1), dict(what='force', gravity='BASIC', N=2, order=2, t_ms=30000, ext=True)]
    # test particles (N_active < N): active-active, active-testparticle loops and the testparticle_type=1 back-reaction
    us += [dict(what='force', gravity='BASIC', N=2, order=1, na=1, tpt=0), dict(what='force', gravity='BASIC', N=2, order=1, na=1, tpt=1), dict(what='force', gravity='BASIC', N=2, order=2, na=1, tpt=0, t_ms=30000, ext=True)]
    if tier == 'thorough': us.append(dict(what='force', gravity='BASIC', N=3, order=1, na=2, tpt=0, t_ms=120000, ext=True))
    if tier == 'thorough': us += [dict(what='force', gravity='BASIC', N=3, order=1, t_ms=60000, ext=True), dict(what='force', gravity='BASIC', N=3, order=2, t_ms=120000, ext=True)]
    rep = run_units(us, worker)
    code = finish(PID, tier, rep, t0,
        bounds=dict(real_particles='2' if tier == 'quick' else '2..3', orders=[1, 2], gravity=['BASIC', 'COMPENSATED'], test_particles='N_active in {N, N-1}, testparticle_type 0/1 (first order), 0 (second order)'),
        assumptions=['real arithmetic; no coincident particles', 'differentiation rules d inv(b) = -inv(b)^2 db, d sqrt(A) = dA/(2 sqrt(A)) (the only non-ring atoms in the force terms)'],
        outside=['the integrators\' tangent maps (WHFast Kepler step derivatives, IAS15/BS propagation): agreement with finite differences over tens of orbits', 'the 65 orbital-element derivative constructors of derivatives.c', 'test-particle variations (var_config.testparticle >= 0), gravity_ignore_terms != 0', 'automatic rescaling (reb_simulation_rescale_var)', 'MEGNO -> 2 and Lyapunov -> 0 on regular orbits (long-run numerical statements)'],
        domain_note='REAL + symbolic differentiation; z3 NRA with inv/sqrt atoms')
    sys.exit(code)

if __name__ == '__main__':
    main()
