"""C16 — variational particles are the derivatives of the trajectory (the force-loop and rescaling parts; DESIGN 5/C16).

REAL domain + symbolic differentiation (P-deriv).  The real reb_calculate_acceleration and reb_calculate_acceleration_var are
executed from LLVM IR in the same run on symbolic real and variational particle data; a small differentiator over the engine's
terms (ring operations, inv atoms with d inv(b) = -inv(b)^2 db, sqrt atoms with d s = dA/(2 s)) produces the directional
derivative of every real acceleration component along (delta x_i, delta m_i); z3 proves it equal to the variational
acceleration the code computed, for first-order variations of all particles (massive case) and for second-order variations.
"""
import sys, os, time, ctypes
sys.path.insert(0, os.path.dirname(os.path.dirname(os.path.abspath(__file__))))
import z3
from llsym import build
from llsym.harness import *
from llsym.check import *
from llsym.solve import model_value

PID = 'C16'

class Deriv:
    """d/d lambda of a REAL-domain term, given d(var) for the base variables"""
    def __init__(s, dom, dvars):
        s.dom = dom; s.dv = {v.get_id(): d for v, d in dvars}; s.cache = {}
    def d(s, t):
        if not isinstance(t, z3.ExprRef): return z3.RealVal(0)
        k = t.get_id()
        r = s.cache.get(k)
        if r is not None: return r[1]
        r = s._d(t); s.cache[k] = (t, r); return r            # keep t alive: z3 recycles ast ids
    def _d(s, t):
        if z3.is_rational_value(t) or z3.is_int_value(t) or z3.is_algebraic_value(t): return z3.RealVal(0)
        if z3.is_const(t): return s.dv.get(t.get_id(), z3.RealVal(0))
        kind = t.decl().kind(); ch = t.children()
        if kind == z3.Z3_OP_ADD: return z3.Sum([s.d(c) for c in ch])
        if kind == z3.Z3_OP_SUB:
            r = s.d(ch[0])
            for c in ch[1:]: r = r - s.d(c)
            return r
        if kind == z3.Z3_OP_UMINUS: return -s.d(ch[0])
        if kind == z3.Z3_OP_MUL:
            tot = z3.RealVal(0)
            for i in range(len(ch)):
                term = s.d(ch[i])
                for j in range(len(ch)):
                    if j != i: term = term * ch[j]
                tot = tot + term
            return tot
        if kind == z3.Z3_OP_UNINTERPRETED:
            nm = t.decl().name()
            if nm == 'inv': return -(t * t) * s.d(ch[0])
            if nm == 'sqrt': return s.d(ch[0]) * s.dom.inv(2 * t)
        if kind == z3.Z3_OP_POWER and z3.is_int_value(ch[1]) or (kind == z3.Z3_OP_POWER and z3.is_rational_value(ch[1])):
            n = ch[1].numerator_as_long()
            return n * (ch[0] ** (n - 1)) * s.d(ch[0])
        raise Unsupported("derivative of %s" % t.decl().name())

C7 = ['x', 'y', 'z', 'vx', 'vy', 'vz', 'm']

def setup(dom, ctx, N, grav, order, na=None, tpt=0, tp=None):
    """tp = index of a real particle: the variations are single-particle ones (reb_simulation_add_variation_*(r, tp, ...))"""
    I = new_interp(dom, ctx); I.concrete_env = True
    L = build.layout(); sim = Sim(I)
    for i in range(N): sim.add(m=1.0)
    sim.set('gravity', L.enumerators['REB_GRAVITY_' + grav])
    if na is not None: sim.set('N_active', na); sim.set('testparticle_type', tpt)
    tpa = 0xffffffff if tp is None else tp
    ia = I.call('@reb_simulation_add_variation_1st_order', [sim.ptr, tpa])
    ib = ic = None
    if order == 2:
        ib = I.call('@reb_simulation_add_variation_1st_order', [sim.ptr, tpa])
        ic = I.call('@reb_simulation_add_variation_2nd_order', [sim.ptr, tpa, ia, ib])
    V = {}
    def fill(base, tag):
        for i in (range(N) if tp is None or tag == 'r' else [tp]):
            for c in ('x', 'y', 'z', 'm'):
                V[(tag, i, c)] = dom.fresh('%s%s%d' % (tag, c, i)); sim.particle(base + (i if tp is None or tag == 'r' else 0)).set(c, V[(tag, i, c)])
    fill(0, 'r'); fill(ia, 'a')
    if order == 2: fill(ib, 'b'); fill(ic, 'c')
    G = dom.fresh('G'); sim.set('G', G)
    return I, sim, V, G, ia, ib, ic

def run_force(u):
    rep = Report(); N, grav, order = u['N'], u['gravity'], u['order']
    tp = u.get('tp')
    label = "force loops %s N=%d order=%d%s%s " % (grav, N, order, (' N_active=%d testparticle_type=%d' % (u['na'], u.get('tpt', 0))) if u.get('na') is not None else '', (' single-particle variation of particle %d' % tp) if tp is not None else '')
    dom = Real(); ctx = PathCtx()
    I, sim, V, G, ia, ib, ic = setup(dom, ctx, N, grav, order, u.get('na'), u.get('tpt', 0), tp)
    VI = list(range(N)) if tp is None else [tp]            # particles that are varied
    off = (lambda i: i) if tp is None else (lambda i: 0)
    I.call('@reb_calculate_acceleration', [sim.ptr])
    I.call('@reb_calculate_acceleration_var', [sim.ptr])
    rep.paths += 1; rep.add_interp(I)
    if ctx.decisions: rep.errors.append(label + "unexpected symbolic branch")
    acc = lambda base, i: [dom.z(sim.particle(base + i).get(a)) for a in ('ax', 'ay', 'az')]
    real = [acc(0, i) for i in range(N)]
    Da = Deriv(dom, [(V[('r', i, c)], V[('a', i, c)]) for i in VI for c in ('x', 'y', 'z', 'm')])
    prover = Prover(t_inproc_ms=u.get('t_ms', 20000), use_external=u.get('ext', False), t_ext_s=60)
    ob = Obligations(rep, prover, label)
    def assum(): return [b != 0 for b in dom.divs]
    wants = [[Da.d(real[i][k]) for k in range(3)] for i in range(N)]
    def on_sat(model):
        vals = {}
        for (tag, i, c_), t in V.items(): vals['%s%s%d' % (tag, c_, i)] = float(model_value(model, t))
        vals['G'] = float(model_value(model, G))
        ok, detail = native_fd(u, vals)
        return ok, 'C16:force:%s:order%d' % (grav, order), detail, dict(unit=u, vals=vals)
    if order == 1:
        for i in VI:
            got = acc(ia, off(i))
            for k in range(3):
                ob.prove("variational a[%d].%s == d/dlambda of the real acceleration" % (i, 'xyz'[k]), got[k] == wants[i][k], assum(), axioms=dom.axioms, on_sat=on_sat, domain='REAL + symbolic differentiation')
    else:
        # second order: d^2 a / dlambda dmu  with  x -> x + lambda da + mu db + lambda mu dc
        for i in VI:
            got = acc(ic, off(i))
            for k in range(3):
                first_a = wants[i][k]
                # derivative of first_a along b, where the a-variation itself varies by c along b
                Dab = Deriv(dom, [(V[('r', j, c)], V[('b', j, c)]) for j in VI for c in ('x', 'y', 'z', 'm')] + [(V[('a', j, c)], V[('c', j, c)]) for j in VI for c in ('x', 'y', 'z', 'm')])
                want2 = Dab.d(first_a)
                ob.prove("second-order variational a[%d].%s == d^2/dlambda dmu of the real acceleration" % (i, 'xyz'[k]), got[k] == want2, assum(), axioms=dom.axioms, on_sat=on_sat, domain='REAL + symbolic differentiation')
    ob.witness("inputs", assum(), axioms=dom.axioms)
    # translator validation: concrete engine run vs native
    bad = native_var(u); rep.replays += 1
    if bad: rep.errors.append(label + "engine(CONC) and native disagree: " + bad)
    return rep

_nat = None
def nat():
    global _nat
    if _nat is None: _nat = Native()
    return _nat

def native_fd(u, vals):
    """native replay: variational accelerations against central finite differences of the real accelerations (first order),
    resp. mixed second differences (second order), along the model's variation vectors"""
    N = u['N']; L = nat().L; tp = u.get('tp'); tpa = ctypes.c_int(-1 if tp is None else tp)
    VI = list(range(N)) if tp is None else [tp]; off = (lambda i: i) if tp is None else (lambda i: 0)
    def real_acc(shift):
        ns = nat().create()
        for i in range(N): ns.add(m=1.0)
        ns.set('gravity', L.enumerators['REB_GRAVITY_' + u['gravity']]); ns.set('G', vals['G'])
        if u.get('na') is not None: ns.set('N_active', u['na']); ns.set('testparticle_type', u.get('tpt', 0))
        for i in range(N):
            for c in ('x', 'y', 'z', 'm'): ns.particle(i).set(c, vals['r%s%d' % (c, i)] + (shift(i, c) if i in VI else 0.0))
        ns.call('reb_calculate_acceleration')
        out = [[ns.particle(i).get(a) for a in ('ax', 'ay', 'az')] for i in range(N)]; ns.free(); return out
    ns = nat().create()
    for i in range(N): ns.add(m=1.0)
    ns.set('gravity', L.enumerators['REB_GRAVITY_' + u['gravity']]); ns.set('G', vals['G'])
    if u.get('na') is not None: ns.set('N_active', u['na']); ns.set('testparticle_type', u.get('tpt', 0))
    ia = ns.call('reb_simulation_add_variation_1st_order', tpa, restype=ctypes.c_int)
    tags = [('r', 0), ('a', ia)]
    if u['order'] == 2:
        ib = ns.call('reb_simulation_add_variation_1st_order', tpa, restype=ctypes.c_int)
        ic = ns.call('reb_simulation_add_variation_2nd_order', tpa, ctypes.c_int(ia), ctypes.c_int(ib), restype=ctypes.c_int)
        tags += [('b', ib), ('c', ic)]
    for tag, base in tags:
        for i in (range(N) if tag == 'r' else VI):
            for c in ('x', 'y', 'z', 'm'): ns.particle(base + (i if tag == 'r' else off(i))).set(c, vals['%s%s%d' % (tag, c, i)])
    ns.call('reb_calculate_acceleration'); ns.call('reb_calculate_acceleration_var')
    tgt = ia if u['order'] == 1 else ic
    got = {i: [ns.particle(tgt + off(i)).get(a) for a in ('ax', 'ay', 'az')] for i in VI}; ns.free()
    scale = max(abs(vals[k]) for k in vals if k[0] == 'r') + 1e-300
    h = 1e-5 * scale
    d = lambda tag: (lambda i, c: vals['%s%s%d' % (tag, c, i)])
    if u['order'] == 1:
        vs = max(abs(vals[k]) for k in vals if k[0] == 'a') + 1e-300
        e = h / vs
        p = real_acc(lambda i, c: e * d('a')(i, c)); m = real_acc(lambda i, c: -e * d('a')(i, c))
        fd = {i: [(p[i][k] - m[i][k]) / (2 * e) for k in range(3)] for i in VI}
    else:
        va = max(abs(vals[k]) for k in vals if k[0] == 'a') + 1e-300; vb = max(abs(vals[k]) for k in vals if k[0] == 'b') + 1e-300
        h2 = 1e-3 * scale; ea, eb = h2 / va, h2 / vb
        def f(sa, sb): return real_acc(lambda i, c: sa * ea * d('a')(i, c) + sb * eb * d('b')(i, c) + sa * sb * ea * eb * d('c')(i, c))
        pp, pm, mp, mm = f(1, 1), f(1, -1), f(-1, 1), f(-1, -1)
        fd = {i: [(pp[i][k] - pm[i][k] - mp[i][k] + mm[i][k]) / (4 * ea * eb) for k in range(3)] for i in VI}
    worst = 0.0; big = max(abs(x) for r_ in fd.values() for x in r_) + max(abs(x) for r_ in got.values() for x in r_) + 1e-300
    for i in VI:
        for k in range(3): worst = max(worst, abs(fd[i][k] - got[i][k]))
    if not (big < 1e150 and big == big): return False, "degenerate model"
    return worst > 1e-3 * big, "native variational acceleration differs from the finite difference of the real acceleration by %.3g (scale %.3g)" % (worst, big)

EL6 = ['a', 'e', 'inc', 'Omega', 'omega', 'f']
CLASSICAL = ['e', 'inc', 'Omega', 'omega', 'f', 'e_e', 'inc_inc', 'Omega_Omega', 'omega_omega', 'f_f', 'a_e', 'a_inc', 'a_Omega', 'a_omega', 'a_f', 'e_inc', 'e_Omega', 'e_omega', 'e_f',
             'm_e', 'inc_Omega', 'inc_omega', 'inc_f', 'm_inc', 'omega_Omega', 'Omega_f', 'm_Omega', 'omega_f', 'm_omega', 'm_f']

class DerivTrig(Deriv):
    """adds d sin(t) = cos(t) dt, d cos(t) = -sin(t) dt on the domain's paired trigonometric atoms"""
    def _d(s, t):
        if z3.is_app(t) and t.decl().kind() == z3.Z3_OP_UNINTERPRETED and t.num_args() == 1 and t.decl().name() in ('sin', 'cos'):
            sn, cs = s.dom.sincos(t.arg(0))
            return (cs if t.decl().name() == 'sin' else -sn) * s.d(t.arg(0))
        return Deriv._d(s, t)

def run_constructor(u):
    """element-derivative constructors (classical elements): reb_particle_derivative_<p>[_<q>] against the symbolic (mixed second)
    derivative of the real reb_particle_from_orbit_err with respect to the same element(s).  reb_orbit_from_particle inside the
    constructor is replaced by a stub returning the symbolic elements (the inverse map is C11's subject)."""
    name = u['name']; rep = Report(); label = "derivative constructor %s " % name
    L = build.layout(); psz = L.structs['reb_particle']['size']
    def run(ctx):
        dom = Real(); I = new_interp(dom, ctx)
        S = {k: z3.Real(k) for k in EL6 + ['G', 'mp', 'm']}
        for c_ in (S['G'] > 0, S['mp'] > 0, S['m'] >= 0, S['a'] > 0, S['e'] >= 0, S['e'] < 1): ctx.assume(c_)
        def orbit_stub(I_, out, G, p, prim):
            ov = SimView(I_, out, 'reb_orbit')
            for k in EL6: ov.set(k, S[k])
            return None
        I.stubs['@reb_orbit_from_particle'] = orbit_stub
        prim = I.mem.alloc(psz, 'prim', 'harness', zero=True); SimView(I, prim, 'reb_particle').set('m', S['mp'])
        po = I.mem.alloc(psz, 'po', 'harness', zero=True); SimView(I, po, 'reb_particle').set('m', S['m'])
        out = I.mem.alloc(psz, 'out', 'harness', zero=True)
        I.call('@reb_particle_derivative_' + name, [out, S['G'], prim, po])
        got = {c: dom.z(SimView(I, out, 'reb_particle').get(c)) for c in C7}
        ref = I.mem.alloc(psz, 'ref', 'harness', zero=True); err = I.mem.alloc(4, 'err', 'harness', zero=True)
        I.call('@reb_particle_from_orbit_err', [ref, S['G'], prim, S['m']] + [S[k] for k in EL6] + [err])
        e_ = I.mem.load(err, I32)
        base = {c: SimView(I, ref, 'reb_particle').get(c) for c in C7} if e_ == 0 else None
        return I, dom, S, got, base, e_
    ex = Explorer(run, max_paths=64, timeout_ms=3000); ex.explore()
    rep.queries += ex.nqueries; rep.solver_time += ex.qtime
    prover = Prover(t_inproc_ms=u.get('t_ms', 20000), use_external=True, t_ext_s=u.get('t_ext', 30))
    acc = 0
    for ctx, (I, dom, S, got, base, e_) in ex.results:
        rep.paths += 1; rep.add_interp(I)
        if e_ != 0: continue
        acc += 1
        exprs = {c: dom.z(v) for c, v in base.items()}
        for v in name.split('_'):
            D = DerivTrig(dom, [(S[v], z3.RealVal(1))])
            exprs = {c: D.d(e) for c, e in exprs.items()}
        ob = Obligations(rep, prover, label)
        assum = list(ctx.pc) + [b != 0 for b in dom.divs] + list(dom.side)
        def on_sat(model, S=S):
            vals = {k: float(model_value(model, t) or 0.0) for k, t in S.items()}
            ok, detail = native_constructor(name, vals)
            return ok, 'C16:constructor:%s' % name, detail, dict(kind='constructor', name=name, vals=vals)
        for c in C7:
            ob.prove("%s == d%s(from_orbit.%s)" % (c, ''.join('/d' + v for v in name.split('_')), c), got[c] == exprs[c], assum, axioms=dom.axioms, on_sat=on_sat, domain='REAL + trig atoms + symbolic differentiation')
        ob.witness("accepting path", assum, axioms=dom.axioms)
    if not acc: rep.vacuous.append(label + "no accepting path of reb_particle_from_orbit_err")
    bad, detail = native_constructor(name, None); rep.replays += 1
    if bad: rep.violations.append(dict(key='C16:constructor:%s' % name, what=detail, replay=dict(kind='constructor', name=name, vals=None), obligation=label + 'native twin'))
    return rep

def native_constructor(name, vals):
    """native: the constructor against central (mixed second) finite differences of the native reb_particle_from_orbit, at the model's
    element values when they describe a regular ellipse, and at two generic systems (G = 1 and G = 4 pi^2)"""
    import c11, math
    N_ = nat(); psz = N_.psize
    class Pt(ctypes.Structure): _fields_ = [('b', ctypes.c_ubyte * psz)]
    def F(G, mp, v):
        err, p = c11.native_particle(G, mp, v['m'], v['a'], v['e'], v['inc'], v['Omega'], v['omega'], v['f'])
        return None if err else [p[c] for c in C7]
    def Dn(G, mp, v):
        err, p = c11.native_particle(G, mp, v['m'], v['a'], v['e'], v['inc'], v['Omega'], v['omega'], v['f'])
        f = getattr(N_.lib, 'reb_particle_derivative_' + name); f.restype = Pt; f.argtypes = [ctypes.c_double, Pt, Pt]
        prim = Pt(); NView(N_, ctypes.addressof(prim), 'reb_particle').set('m', mp)
        po = Pt(); pv = NView(N_, ctypes.addressof(po), 'reb_particle')
        for c, x in p.items(): pv.set(c, x)
        out = f(G, prim, po); ov = NView(N_, ctypes.addressof(out), 'reb_particle')
        return [ov.get(c) for c in C7]
    def FD(G, mp, v):
        vs = name.split('_')
        if len(vs) == 1:
            h = 1e-6 * max(1.0, abs(v[vs[0]])); a = dict(v); b = dict(v); a[vs[0]] += h; b[vs[0]] -= h
            return [(x - y) / (2 * h) for x, y in zip(F(G, mp, a), F(G, mp, b))]
        h = 1e-4
        if vs[0] == vs[1]:
            a = dict(v); a[vs[0]] += h; b = dict(v); b[vs[0]] -= h
            return [(x - 2 * y + z) / (h * h) for x, y, z in zip(F(G, mp, a), F(G, mp, v), F(G, mp, b))]
        def sh(s1, s2):
            w = dict(v); w[vs[0]] += s1 * h * max(1.0, abs(v[vs[0]])); w[vs[1]] += s2 * h * max(1.0, abs(v[vs[1]])); return F(G, mp, w)
        den = 4 * h * h * max(1.0, abs(v[vs[0]])) * max(1.0, abs(v[vs[1]]))
        return [(a - b - c + d) / den for a, b, c, d in zip(sh(1, 1), sh(1, -1), sh(-1, 1), sh(-1, -1))]
    trials = [(1.0, 1.0, dict(m=1e-3, a=1.3, e=0.3, inc=0.4, Omega=0.7, omega=1.1, f=2.0)), (4 * math.pi ** 2, 0.8, dict(m=2e-3, a=0.7, e=0.55, inc=2.1, Omega=4.0, omega=0.3, f=5.1))]
    if vals and 0.05 < vals.get('e', 0) < 0.9 and 1e-3 < vals.get('a', 0) < 1e3 and 1e-6 < vals.get('G', 0) < 1e6 and 1e-6 < vals.get('mp', 0) < 1e6 and 0 <= vals.get('m', 0) < 1e3:
        trials.insert(0, (vals['G'], vals['mp'], {k: vals[k] for k in ('m', 'a', 'e', 'inc', 'Omega', 'omega', 'f')}))
    bad = []; worst = 0.0
    for G, mp, v in trials:
        d = Dn(G, mp, v); f_ = FD(G, mp, v)
        sc = max(abs(x) for x in f_) + max(abs(x) for x in d) + 1e-300
        e = max(abs(a - b) for a, b in zip(d, f_)) / sc; worst = max(worst, e)
        if e > 1e-4: bad.append((dict(G=G, mp=mp, **v), d, f_))
    return bool(bad), "native reb_particle_derivative_%s vs finite differences of reb_particle_from_orbit: %s" % (name, ("differs: elements %r constructor %r finite difference %r" % bad[0]) if bad else "agree (worst relative difference %.1e)" % worst)

def native_var(u):
    import random
    rnd = random.Random(3); N = u['N']; L = nat().L; tp = u.get('tp'); tpn = -1 if tp is None else tp; tpe = 0xffffffff if tp is None else tp
    vals = [[rnd.uniform(-1, 1) for _ in range(4)] for _ in range(4 * N)]
    def build_(create, call, setp, getp):
        pass
    # native
    ns = nat().create()
    for i in range(N): ns.add(m=1.0)
    ns.set('gravity', L.enumerators['REB_GRAVITY_' + u['gravity']])
    if u.get('na') is not None: ns.set('N_active', u['na']); ns.set('testparticle_type', u.get('tpt', 0))
    ia = ns.call('reb_simulation_add_variation_1st_order', ctypes.c_int(tpn), restype=ctypes.c_int)
    if u['order'] == 2:
        ib = ns.call('reb_simulation_add_variation_1st_order', ctypes.c_int(tpn), restype=ctypes.c_int)
        ic = ns.call('reb_simulation_add_variation_2nd_order', ctypes.c_int(tpn), ctypes.c_int(ia), ctypes.c_int(ib), restype=ctypes.c_int)
    ntot = ns.get('N')
    for j in range(ntot):
        for q, c in enumerate(('x', 'y', 'z', 'm')): ns.particle(j).set(c, vals[j % len(vals)][q] + (2.0 if c == 'm' and j < N else 0.0) + (3.0 * j if c == 'x' else 0.0))
    ns.call('reb_calculate_acceleration'); ns.call('reb_calculate_acceleration_var')
    nacc = [[ns.particle(j).get(a) for a in ('ax', 'ay', 'az')] for j in range(ntot)]
    ns.free()
    dom = Conc(); I = new_interp(dom); I.mem.on_uninit = 'zero'; sim = Sim(I)
    for i in range(N): sim.add(m=1.0)
    sim.set('gravity', L.enumerators['REB_GRAVITY_' + u['gravity']])
    if u.get('na') is not None: sim.set('N_active', u['na']); sim.set('testparticle_type', u.get('tpt', 0))
    ia = I.call('@reb_simulation_add_variation_1st_order', [sim.ptr, tpe])
    if u['order'] == 2:
        ib = I.call('@reb_simulation_add_variation_1st_order', [sim.ptr, tpe]); ic = I.call('@reb_simulation_add_variation_2nd_order', [sim.ptr, tpe, ia, ib])
    for j in range(ntot):
        for q, c in enumerate(('x', 'y', 'z', 'm')): sim.particle(j).set(c, vals[j % len(vals)][q] + (2.0 if c == 'm' and j < N else 0.0) + (3.0 * j if c == 'x' else 0.0))
    I.call('@reb_calculate_acceleration', [sim.ptr]); I.call('@reb_calculate_acceleration_var', [sim.ptr])
    eacc = [[sim.particle(j).get(a) for a in ('ax', 'ay', 'az')] for j in range(ntot)]
    bad = [(j, q) for j in range(ntot) for q in range(3) if not same_bits(eacc[j][q], nacc[j][q])]
    return repr(bad) if bad else ''

def run_rescale(u):
    rep = Report(); rep.paths = 1
    dom = Real(); ctx = PathCtx(); N = 2
    I, sim, V, G, ia, ib, ic = setup(dom, ctx, N, 'BASIC', 1)
    ib = I.call('@reb_simulation_add_variation_1st_order', [sim.ptr, 0xffffffff])
    W = {}
    for i in range(N):
        for c in C7[:6] + ['m']:
            W[(i, c)] = dom.fresh('w%s%d' % (c, i)); sim.particle(ib + i).set(c, W[(i, c)])
            if (('a', i, c) not in V): V[('a', i, c)] = dom.fresh('a%s%d' % (c, i)); sim.particle(ia + i).set(c, V[('a', i, c)])
    scale = dom.fresh('scale'); ctx.assume(scale > 0)
    vc = sim.get('var_config'); vsz = build.layout().structs['reb_variational_configuration']['size']
    l0 = dom.fresh('lrescale0'); SimView(I, Ptr(vc.obj, vc.off + vsz * 1), 'reb_variational_configuration').set('lrescale', l0)
    I.call('@reb_simulation_rescale_var', [sim.ptr, 1, scale]) if '@reb_simulation_rescale_var' in I.mod.funcs else None
    rep.add_interp(I)
    ob = Obligations(rep, Prover(t_inproc_ms=10000, use_external=False), 'rescale_var ')
    if '@reb_simulation_rescale_var' not in I.mod.funcs:
        rep.notes.append("reb_simulation_rescale_var not present in this tree: skipped"); return rep
    side = [b != 0 for b in dom.divs]
    for i in range(N):
        for c in C7[:6] + ['m']:
            ob.prove("configuration 1: %s[%d] scaled by 1/scale" % (c, i), dom.z(sim.particle(ib + i).get(c)) * scale == W[(i, c)], list(ctx.pc) + side, axioms=dom.axioms, domain='REAL')
            ob.prove("configuration 0: %s[%d] untouched" % (c, i), dom.z(sim.particle(ia + i).get(c)) == V[('a', i, c)], list(ctx.pc), domain='REAL')
            if c in ('x', 'y', 'z', 'm'): ob.prove("real particle %s[%d] untouched" % (c, i), dom.z(sim.particle(i).get(c)) == V[('r', i, c)], list(ctx.pc), domain='REAL')
    l1 = dom.z(SimView(I, Ptr(vc.obj, vc.off + vsz * 1), 'reb_variational_configuration').get('lrescale'))
    ob.prove("lrescale increased by log(scale)", l1 == l0 + dom.fn('log', 1)(scale), list(ctx.pc), domain='REAL (log uninterpreted)')
    return rep

def worker(u):
    if u['what'] == 'constructor': return run_constructor(u)
    return run_rescale(u) if u['what'] == 'rescale' else run_force(u)

def replay(data):
    if data.get('kind') == 'constructor': return native_constructor(data['name'], data['vals'])
    return native_fd(data['unit'], data['vals'])

def main():
    tier = os.environ.get('VERIF_TIER') or (sys.argv[1] if len(sys.argv) > 1 else 'quick')
    t0 = time.time()
    build.module(); build.layout(); build.build_native()
    us = [dict(what='force', gravity='BASIC', N=2, order=1), dict(what='force', gravity='COMPENSATED', N=2, order=1), dict(what='force', gravity='BASIC', N=2, order=2, t_ms=30000, ext=True)]
    # test particles (N_active < N): active-active, active-testparticle loops and the testparticle_type=1 back-reaction
    us += [dict(what='force', gravity='BASIC', N=2, order=1, na=1, tpt=0), dict(what='force', gravity='BASIC', N=2, order=1, na=1, tpt=1), dict(what='force', gravity='BASIC', N=2, order=2, na=1, tpt=0, t_ms=30000, ext=True)]
    # single-particle variations (the varied particle is a test particle: only its own coordinates vary)
    us += [dict(what='force', gravity='BASIC', N=2, order=1, tp=1), dict(what='force', gravity='BASIC', N=2, order=2, tp=1, t_ms=30000, ext=True)]
    if tier == 'thorough': us.append(dict(what='force', gravity='BASIC', N=3, order=1, tp=1, t_ms=60000, ext=True))
    if tier == 'thorough': us.append(dict(what='force', gravity='BASIC', N=3, order=1, na=2, tpt=0, t_ms=120000, ext=True))
    if tier == 'thorough': us += [dict(what='force', gravity='COMPENSATED', N=2, order=1, tp=0)]          # N=3 second order single-particle: all three obligations time out (tried, 120 s each)
    for nm in (['e', 'inc', 'Omega', 'omega', 'f', 'e_e', 'a_e', 'e_f', 'm_e', 'm_f', 'inc_Omega', 'omega_f'] if tier == 'quick' else CLASSICAL): us.append(dict(what='constructor', name=nm, t_ms=15000 if tier == 'quick' else 90000, t_ext=20 if tier == 'quick' else 120))
    if tier == 'thorough': us += [dict(what='force', gravity='BASIC', N=3, order=1, t_ms=60000, ext=True), dict(what='force', gravity='BASIC', N=3, order=2, t_ms=120000, ext=True)]
    rep = run_units(us, worker)
    code = finish(PID, tier, rep, t0,
        bounds=dict(real_particles='2' if tier == 'quick' else '2..3', orders=[1, 2], gravity=['BASIC', 'COMPENSATED'], test_particles='N_active in {N, N-1}, testparticle_type 0/1 (first order), 0 (second order)', single_particle_variations='var_config.testparticle = i: N = 2 (3 in the thorough tier, first order), orders 1 and 2'),
        assumptions=['real arithmetic; no coincident particles', 'differentiation rules d inv(b) = -inv(b)^2 db, d sqrt(A) = dA/(2 sqrt(A)) (the only non-ring atoms in the force terms)'],
        outside=['the integrators\' tangent maps (WHFast Kepler step derivatives, IAS15/BS propagation): agreement with finite differences over tens of orbits', 'the 35 Pal-element derivative constructors (a, lambda, h, k, ix, iy and their pairs; they go through the iterative reb_tools_solve_kepler_pal); of the 30 classical ones the quick tier covers 12', 'gravity_ignore_terms != 0; single-particle variations beyond N = 3', 'automatic rescaling (reb_simulation_rescale_var)', 'MEGNO -> 2 and Lyapunov -> 0 on regular orbits (long-run numerical statements)'],
        domain_note='REAL + symbolic differentiation; z3 NRA with inv/sqrt atoms')
    sys.exit(code)

if __name__ == '__main__':
    main()
