"""C03 (second part) — the bisection fallback of reb_whfast_kepler_solver starts from a bracket that is correct in both time directions.

The real reb_whfast_kepler_solver is executed from LLVM IR over the reals with a symbolic state (x, v), central mass M and step.
stiefel_Gs3 is replaced by a stub returning arbitrary reals G_k (the bracket does not depend on them) and every convergence test of the
Newton iteration is decided 'not converged', which drives the run into the bisection fallback on the hyperbolic branch.  The two
bracket ends are reconstructed from the first two bisection abscissae.  Proved for all inputs: (i) the bracket of a backward step is the
mirror image of the bracket of the forward step (time-reversal symmetry of the Kepler problem: X(-dt) = -X(dt), the bracket formulas
do not depend on the radial velocity), (ii) both ends have the sign of dt, (iii) the ends are |dt|/(r0 + v_q |dt|) and |dt|/q with q the
pericentre distance and v_q the pericentre speed computed from the angular momentum vector."""
import sys, os, re, math, random, ctypes
sys.path.insert(0, os.path.dirname(os.path.dirname(os.path.abspath(__file__))))
import z3
from fractions import Fraction
from llsym import build
from llsym.harness import *
from llsym.check import *
from llsym.engine import PathCtx
from llsym.solve import model_value

class Stop(Exception): pass

class PolicyCtx(PathCtx):
    """every symbolic branch is decided by a light solver that only knows the sign assumptions; undecided ones go the 'False' way
    (Newton: not converged).  The decisions taken are recorded in pc like any other path condition."""
    def __init__(s, facts):
        PathCtx.__init__(s); s.light = z3.Solver(); s.light.set('timeout', 500); s.forced = []
        for f in facts: s.light.add(f)
    def branch(s, c):
        if isinstance(c, int): return bool(c)
        c = z3.simplify(c)
        if z3.is_true(c): return True
        if z3.is_false(c): return False
        if s.forced: d = s.forced.pop(0)
        elif _mentions_G(c): d = False                       # a convergence test of the iteration: not converged
        else:
            t = s.light.check(c) != z3.unsat; f = s.light.check(z3.Not(c)) != z3.unsat
            d = True if (t and not f) else False
        s.decisions.append(d); s.pc.append(c if d else z3.Not(c)); return d

def nmax_newt():
    m = re.search(r'#define\s+WHFAST_NMAX_NEWT\s+(\d+)', open(os.path.join(build.REPO, 'src/integrator_whfast.c')).read())
    return int(m.group(1)) if m else 32

def bracket(sign):
    dom = Real(); d = z3.Real('d'); Mc = z3.Real('M')
    ctx = PolicyCtx([d > 0, Mc > 0]); I = new_interp(dom, ctx); I.loop_bound = 200
    sim = Sim(I); sim.add(m=1.0)
    V = {c: z3.Real(c) for c in ('x', 'y', 'z', 'vx', 'vy', 'vz')}
    L = build.layout(); psz = L.structs['reb_particle']['size']
    pj = I.mem.alloc(psz, 'p_j', 'harness', zero=True); pv = SimView(I, pj, 'reb_particle')
    for c, t in V.items(): pv.set(c, t)
    calls = []
    n_before = 1 + (nmax_newt() - 1)
    def gs3(I_, gs, beta, X):
        calls.append(X)
        if len(calls) == n_before + 2: raise Stop()
        if len(calls) == n_before + 1: ctx.forced = [False, True]     # first bisection step: s < 0 (X_min = X), then stay in the loop
        # the values of the G functions at this abscissa: arbitrary reals (the bracket must not depend on them)
        for k in range(4): I_.mem.store(Ptr(gs.obj, gs.off + 8 * k), F64, z3.Real('G%d_%d' % (k, len(calls))))
        return None
    I.stubs['@stiefel_Gs3'] = gs3
    I.stubs['@fastabs'] = lambda I_, x: (abs(x) if isinstance(x, Fraction) else z3.If(dom.z(x) >= 0, dom.z(x), -dom.z(x)))
    try: I.call('@reb_whfast_kepler_solver', [sim.ptr, pj, Mc, 0, d if sign > 0 else -d])
    except Stop: pass
    if len(calls) < n_before + 2: raise Unsupported("bisection fallback not reached (%d stiefel_Gs3 calls)" % len(calls))
    X0, X1 = dom.z(calls[n_before]), dom.z(calls[n_before + 1])
    # the first bisection decision was forced to 's < 0': X_min = X0, X1 = (X_max + X0)/2
    took_max = False
    if took_max: xmin = 2 * X1 - X0; xmax = 2 * X0 - xmin
    else: xmax = 2 * X1 - X0; xmin = 2 * X0 - xmax
    return I, dom, ctx, d, Mc, V, z3.simplify(xmin), z3.simplify(xmax)

def run_bracket(u):
    rep = Report(); label = "kepler_solver bisection bracket (hyperbolic) "
    try:
        I1, d1, c1, d, Mc, V, lo_f, hi_f = bracket(+1)
        I2, d2, c2, _, _, _, lo_b, hi_b = bracket(-1)
    except Unsupported as e:
        rep.errors.append(label + repr(e)); return rep
    rep.paths += 2; rep.add_interp(I1); rep.add_interp(I2)
    prover = Prover(t_inproc_ms=u.get('t_ms', 20000), use_external=True, t_ext_s=60)
    ob = Obligations(rep, prover, label)
    x, y, z_, vx, vy, vz = (V[c] for c in ('x', 'y', 'z', 'vx', 'vy', 'vz'))
    hvec = [y * vz - z_ * vy, z_ * vx - x * vz, x * vy - y * vx]; h2 = sum(c * c for c in hvec)
    base = [d > 0, Mc > 0, h2 > 0]
    ax = list(d1.axioms) + list(d2.axioms)
    nz = [b != 0 for b in d1.divs] + [b != 0 for b in d2.divs]
    side = list(d1.side) + list(d2.side)
    def on_sat(model):
        bad, detail = isolated(native_roundtrip, 4000, timeout=120)
        return bad, 'C03:kepler_solver:bisection-bracket', detail, dict(kind='bracket', n=4000)
    A = base + nz + side
    ob.prove("backward bracket is the mirror image of the forward bracket: X_min(-dt) == -X_max(dt)", lo_b == -hi_f, A, axioms=ax, on_sat=on_sat, domain='REAL (sqrt/inv atoms; G_k values arbitrary)')
    ob.prove("backward bracket is the mirror image of the forward bracket: X_max(-dt) == -X_min(dt)", hi_b == -lo_f, A, axioms=ax, on_sat=on_sat, domain='REAL (sqrt/inv atoms; G_k values arbitrary)')
    ob.prove("forward bracket lies on the positive side: 0 < X_min and 0 < X_max", z3.And(lo_f > 0, hi_f > 0), A + [p for p in c1.pc if not _mentions_G(p)], axioms=ax, on_sat=on_sat, domain='REAL')
    # closed form: textbook conic relations p = h^2/M, e^2 = 1 - beta h^2/M^2, q = p/(1+e), v_q = h/q, with h^2 = r0^2 v^2 - (r.v)^2
    r0 = d1.libm('sqrt', [x * x + y * y + z_ * z_]); v2 = vx * vx + vy * vy + vz * vz; eta0 = x * vx + y * vy + z_ * vz
    ob.prove("Lagrange identity: |r x v|^2 == r0^2 v^2 - (r.v)^2", h2 == r0 * r0 * v2 - eta0 * eta0, [], axioms=list(d1.axioms), domain='REAL')
    hh2 = r0 * r0 * v2 - eta0 * eta0
    beta = 2 * Mc * d1.fdiv(Fraction(1), r0) - v2
    ecc = d1.libm('sqrt', [1 - d1.fdiv(hh2 * beta, Mc * Mc)])
    q = d1.fdiv(d1.fdiv(hh2, Mc), 1 + ecc); vq = d1.fdiv(d1.libm('sqrt', [hh2]), q)
    ax2 = list(d1.axioms); nz2 = [b_ != 0 for b_ in d1.divs]
    ob.prove("X_max == dt / q (q = pericentre distance p/(1+e))", hi_f * q == d, A + nz2, axioms=ax2, on_sat=on_sat, domain='REAL')
    ob.prove("X_min == dt / (r0 + v_q dt) (v_q = h/q, the pericentre speed)", lo_f * (r0 + vq * d) == d, A + nz2, axioms=ax2, on_sat=on_sat, domain='REAL')
    ob.witness("inputs", base, axioms=[])
    bad, detail = isolated(native_roundtrip, 1500, timeout=120); rep.replays += 1
    if bad: rep.violations.append(dict(key='C03:kepler_solver:bisection-bracket', what=detail, replay=dict(kind='bracket', n=1500), obligation=label + 'native twin'))
    return rep

def _mentions_G(t):
    seen = set(); stack = [t]
    while stack:
        u = stack.pop()
        if u.get_id() in seen: continue
        seen.add(u.get_id())
        if z3.is_const(u) and u.decl().kind() == z3.Z3_OP_UNINTERPRETED and re.match(r'G\d_\d+$', u.decl().name()): return True
        stack.extend(u.children())
    return False

_nat = None
def native_roundtrip(n):
    """native reb_whfast_kepler_solver on hyperbolic orbits that start near pericentre: a step dt followed by a step -dt must return to
    the start (both directions first); e in [1.5, 3], |dt| up to 3 dynamical times — a regime in which the unmodified solver is sound"""
    global _nat
    if _nat is None: _nat = Native()
    N_ = _nat; L = N_.L; psz = N_.psize
    f = N_.lib.reb_whfast_kepler_solver; f.restype = None
    f.argtypes = [ctypes.c_void_p, ctypes.c_void_p, ctypes.c_double, ctypes.c_uint, ctypes.c_double]
    ns = N_.create(); rnd = random.Random(11); bad = []; worst = 0.0
    try:
        buf = (ctypes.c_char * psz)(); pv = NView(N_, ctypes.addressof(buf), 'reb_particle')
        for k in range(n):
            e = rnd.uniform(1.5, 3.0); a = -rnd.uniform(0.5, 2.0); M = rnd.uniform(0.5, 2.0); fa = rnd.uniform(-0.6, 0.6)
            p = a * (1 - e * e); r = p / (1 + e * math.cos(fa)); hh = math.sqrt(M * p)
            x, y = r * math.cos(fa), r * math.sin(fa); vx, vy = -M / hh * math.sin(fa), M / hh * (e + math.cos(fa))
            inc = rnd.uniform(0, 1.0); st = dict(x=x, y=y * math.cos(inc), z=y * math.sin(inc), vx=vx, vy=vy * math.cos(inc), vz=vy * math.sin(inc))
            tdyn = math.sqrt(abs(a) ** 3 / M); dt = rnd.choice((-1, 1)) * rnd.uniform(0.05, 3.0) * tdyn
            for c in ('x', 'y', 'z', 'vx', 'vy', 'vz'): pv.set(c, st[c])
            f(ns.addr, ctypes.addressof(buf), M, 0, dt); f(ns.addr, ctypes.addressof(buf), M, 0, -dt)
            err = max(abs(pv.get(c) - st[c]) for c in st) / max(abs(v) for v in st.values())
            worst = max(worst, err) if err == err else float('inf')
            if not err < 1e-7: bad.append((dict(e=e, a=a, M=M, f=fa, dt=dt), err))
        return bool(bad), "native reb_whfast_kepler_solver, %d hyperbolic steps dt then -dt from near pericentre: %s" % (n, ("%d do not return to the start, first %r" % (len(bad), bad[0])) if bad else "all return to the start (worst relative deviation %.2e)" % worst)
    finally:
        ns.free()

def replay(data):
    return isolated(native_roundtrip, data.get('n', 4000), timeout=300)

# ------------------------------------------------------------------------------------------------------------------------------
# termination of the argument-reduction loops of the Stumpff kernels, on full binary64

class AllTrueCtx(PathCtx):
    def branch(s, c):
        if isinstance(c, int): return bool(c)
        c = z3.simplify(c)
        if z3.is_true(c): return True
        if z3.is_false(c): return False
        s.decisions.append(True); s.pc.append(c); return True

HANG_INPUT = dict(m0=2.5893497258725438, a=-250.00114392285425, e=1.0000133034032341, dt_periods=-0.00295)

def native_hang(inp=HANG_INPUT, seconds=20):
    """public API: WHFast, one star + one massless body on a barely hyperbolic orbit at pericentre, one backward step.  Newton's
    iteration diverges to X = -inf and the next stiefel_Gs3 call spins in the argument-reduction loop."""
    def go():
        import c11
        N_ = c11.nat(); L = N_.L
        ns = N_.create(); ns.add(m=inp['m0'])
        err, p = c11.native_particle(1.0, inp['m0'], 0.0, inp['a'], inp['e'], 0.0, 0.0, 0.0, 0.0)
        ns.add(**p)
        P_ = 2 * math.pi * math.sqrt(abs(inp['a']) ** 3 / inp['m0'])
        ns.set('integrator', L.enumerators['REB_INTEGRATOR_WHFAST']); ns.set('dt', inp['dt_periods'] * P_)
        ns.call('reb_simulation_step')
        return [ns.particle(1).get(c) for c in ('x', 'y', 'z', 'vx', 'vy', 'vz')]
    try:
        out = isolated(go, timeout=seconds)
        bad = any(v != v for v in out)
        return bad, "native WHFast step of %r returns %r" % (inp, out)
    except NativeCrash as e:
        return True, "native WHFast step of %r (public API, one reb_simulation_step) does not return within %d s (killed): the argument-reduction loop of the Stumpff kernel spins on a non-finite argument" % (inp, seconds)

def native_many_periods():
    """public API: one WHFast step of hundreds of orbital periods on an elliptic orbit (the Stumpff argument needs > 10 halvings)
    against the closed-form Kepler solution"""
    import c11
    N_ = c11.nat(); L = N_.L; bad = []; n = 0
    for e in (0.0, 0.3, 0.9):
        for periods in (417.3, -911.7, 911.7):
            a = 1.0; M0 = 0.7; m0 = 1.0
            ns = N_.create()
            try:
                ns.add(m=m0)
                err, p = c11.native_particle(1.0, m0, 0.0, a, e, 0.2, 0.3, 0.4, 0.0)
                # start at true anomaly 0 (pericentre) for a simple reference: after dt the mean anomaly is n dt
                ns.add(**p)
                P_ = 2 * math.pi * math.sqrt(a ** 3 / m0); dt = periods * P_
                ns.set('integrator', L.enumerators['REB_INTEGRATOR_WHFAST']); ns.set('dt', dt)
                ns.call('reb_simulation_step'); n += 1
                s1 = {c: ns.particle(1).get(c) - ns.particle(0).get(c) for c in ('x', 'y', 'z', 'vx', 'vy', 'vz')}
                err2, o = c11.native_orbit(dict(s1, m=0.0), dict(m=m0))
                Mexp = math.fmod(2 * math.pi * periods, 2 * math.pi)
                dM = math.fmod(o['M'] - Mexp, 2 * math.pi); dM = min(abs(dM), abs(abs(dM) - 2 * math.pi))
                if not (abs(o['a'] - a) < 1e-6 and abs(o['e'] - e) < 1e-6 and (e == 0.0 or dM < 1e-4 * abs(periods) / 100)): bad.append((dict(e=e, periods=periods), dict(a=o['a'], e=o['e'], M=o['M'], M_expected=Mexp % (2 * math.pi))))
            finally:
                ns.free()
    return bool(bad), "native WHFast steps of hundreds of periods vs the closed-form orbit (%d cases): %s" % (n, ("off the orbit: %r" % (bad[0],)) if bad else "all on the orbit")

def run_termination(u):
    fn = u['fn']; rep = Report(); label = "%s argument-reduction loop " % fn
    dom = FP(); seen = []
    CAP = u.get('cap', 20)
    class Done(Exception): pass
    def note(t):
        if not any(t is q or (z3.is_expr(t) and z3.is_expr(q) and t.eq(q)) for q in seen): seen.append(t)
        if len(seen) >= CAP: raise Done()
    orig = dom.libm
    def libm(name, args):
        if name == 'fabs' and not isinstance(args[0], float): note(args[0])
        return orig(name, args)
    dom.libm = libm
    ctx = AllTrueCtx(); I = new_interp(dom, ctx); I.loop_bound = 4 * CAP + 50
    I.stubs['@fastabs'] = lambda I_, x: (abs(x) if isinstance(x, float) else (note(x), z3.fpAbs(x))[1])
    z = dom.fresh('z')
    cs = I.mem.alloc(8 * 6, 'cs', 'harness', zero=True)
    returned = False
    try:
        I.call('@' + fn, [cs, z]); returned = True
    except Done: pass
    rep.paths += 1; rep.add_interp(I)
    if len(seen) < 2:
        rep.errors.append(label + "loop not entered twice"); return rep
    z0, z1 = seen[0], seen[1]
    ob = Obligations(rep, Prover(t_inproc_ms=u.get('t_ms', 60000), use_external=True, t_ext_s=120), label)
    def on_sat(model):
        bad, detail = native_hang()
        return bad, 'C03:stumpff:nonterminating-reduction', detail + " (solver model: z = %s)" % model[z], dict(kind='hang')
    # ranking argument: while the loop continues |z| strictly decreases; there are finitely many doubles, so it terminates
    first_iter = [c for c in ctx.pc if True][:8]
    ob.prove("whenever the loop body runs, |z| strictly decreases (ranking function on binary64: termination for EVERY double, including inf and NaN)", z3.fpLT(z3.fpAbs(z1), z3.fpAbs(z0)), first_iter[:_first_iteration_conditions(ctx.pc, z1)], on_sat=on_sat, domain='FP(11,53)', sample=dict(loop_conditions=[str(c)[:120] for c in ctx.pc[:4]]))
    if returned:
        # every data-dependent loop condition was decided 'continue', yet the loop ended after len(seen)-1 halvings: the exit must be
        # justified by the argument having become small (or non-finite)
        zl = seen[-1]
        def on_sat2(model):
            bad, detail = native_many_periods()
            return bad, 'C03:stumpff:reduction-stops-early', detail + " (solver model: z = %s, %d halvings)" % (model[z], len(seen) - 1), dict(kind='many_periods')
        ob.prove("the reduction only stops once |z| <= 0.1 (or z is not finite): after %d halvings with every loop condition still true the code leaves the loop" % (len(seen) - 1),
                 z3.Or(z3.fpLEQ(z3.fpAbs(zl), z3.FPVal(0.1, dom.sort)), z3.fpIsInf(zl), z3.fpIsNaN(zl)), list(ctx.pc), on_sat=on_sat2, domain='FP(11,53)')
    ob.witness("loop entered", list(ctx.pc[:2]))
    return rep

def _first_iteration_conditions(pc, z1):
    """number of leading path conditions that do not mention the second abscissa (= the conditions under which the first loop body ran)"""
    s1 = str(z1)
    n = 0
    for c in pc:
        if s1 in str(c): break
        n += 1
    return max(n, 1)

def replay_hang(data):
    return native_hang()

# ------------------------------------------------------------------------------------------------------------------------------
# the bisection step when the Stiefel functions overflow (binary64 semantics)

class ForcedCtx(PathCtx):
    """Newton convergence tests: not converged; then a forced script of decisions for the first bisection iteration"""
    def __init__(s, facts):
        PathCtx.__init__(s); s.light = z3.Solver(); s.light.set('timeout', 2000); s.forced = None
        for f in facts: s.light.add(f)
    def branch(s, c):
        if isinstance(c, int): return bool(c)
        c = z3.simplify(c)
        if z3.is_true(c): return True
        if z3.is_false(c): return False
        if s.forced is not None:
            d = s.forced.pop(0) if s.forced else True
        elif _mentions_G(c): d = False
        else:
            t = s.light.check(c) != z3.unsat; f = s.light.check(z3.Not(c)) != z3.unsat
            d = True if (t and not f) else False
        s.decisions.append(d); s.pc.append(c if d else z3.Not(c)); return d

STATES = {   # a = -1, M = 1 hyperbolic orbits, e = 1.1: at pericentre (r.v = 0), incoming (r.v < 0), outgoing (r.v > 0)
    'pericentre': (0.10000000000000009, 0.0, 0.0, 0.0, 4.58257569495584, 0.0),
    'incoming': (-1.6212738415460744, -3.2906874570182433, 0.0, 0.9155960998571262, 0.7339739294101026, 0.0),
    'outgoing': (-1.6212738415460744, 3.2906874570182433, 0.0, -0.9155960998571262, 0.7339739294101026, 0.0),
}

def overflow_runs(state, sign):
    import itertools
    out = []
    nb = 1 + (nmax_newt() - 1)
    for script in itertools.product((True, False), repeat=3):
        dom = FP(); d = z3.FP('d', dom.sort)
        ctx = ForcedCtx([z3.fpGT(d, z3.FPVal(0.0, dom.sort)), z3.Not(z3.fpIsInf(d)), z3.Not(z3.fpIsNaN(d))]); I = new_interp(dom, ctx); I.loop_bound = 200
        orig = dom.libm
        sim = Sim(I); sim.add(m=1.0)
        L = build.layout(); psz = L.structs['reb_particle']['size']
        pj = I.mem.alloc(psz, 'p_j', 'harness', zero=True); pv = SimView(I, pj, 'reb_particle')
        for c, t in zip(('x', 'y', 'z', 'vx', 'vy', 'vz'), STATES[state]): pv.set(c, t)
        calls = []; G33 = {}
        def gs3(I_, gs, beta, X, ctx=ctx, calls=calls, G33=G33, dom=dom, script=script):
            calls.append(X)
            if len(calls) == nb + 2: raise Stop()
            if len(calls) == nb + 1: ctx.forced = list(script) + [True] * 4; G33['pcidx'] = len(ctx.pc)
            for k in range(4):
                g = z3.FP('G%d_%d' % (k, len(calls)), dom.sort)
                if len(calls) == nb + 1: G33[k] = g
                I_.mem.store(Ptr(gs.obj, gs.off + 8 * k), F64, g)
            return None
        I.stubs['@stiefel_Gs3'] = gs3
        I.stubs['@fastabs'] = lambda I_, x: (abs(x) if isinstance(x, float) else z3.fpAbs(x))
        try: I.call('@reb_whfast_kepler_solver', [sim.ptr, pj, 1.0, 0, d if sign > 0 else z3.fpNeg(d)])
        except Stop: pass
        if len(calls) < nb + 2: continue
        key = tuple(ctx.decisions)
        if any(key == o[0] for o in out): continue
        out.append((key, I, dom, ctx, d, calls[nb], calls[nb + 1], G33))
    return out

def exact_hyperbolic(a, e, M, t):
    n = math.sqrt(M / abs(a) ** 3); Ma = n * t
    H = math.asinh(Ma / e) if abs(Ma) < 5 else math.copysign(math.log(2 * abs(Ma) / e + 1.8), Ma)
    for _ in range(200):
        F = e * math.sinh(H) - H - Ma; H -= F / (e * math.cosh(H) - 1)
    r = abs(a) * (e * math.cosh(H) - 1)
    return (abs(a) * (e - math.cosh(H)), abs(a) * math.sqrt(e * e - 1) * math.sinh(H), -abs(a) * n * abs(a) * math.sinh(H) / r, abs(a) * math.sqrt(e * e - 1) * n * abs(a) * math.cosh(H) / r)

def native_long_steps():
    """native reb_whfast_kepler_solver against the closed-form hyperbolic solution: long steps (the bisection bracket reaches abscissae at
    which the Stiefel functions overflow) from pericentre, the incoming and the outgoing leg, both directions"""
    global _nat
    if _nat is None: _nat = Native()
    N_ = _nat
    f = N_.lib.reb_whfast_kepler_solver; f.restype = None; f.argtypes = [ctypes.c_void_p, ctypes.c_void_p, ctypes.c_double, ctypes.c_uint, ctypes.c_double]
    ns = N_.create(); bad = []; n = 0
    try:
        buf = (ctypes.c_char * N_.psize)(); pv = NView(N_, ctypes.addressof(buf), 'reb_particle')
        for e in (1.05, 1.1, 1.5):
            for k in (30, 100, 1000):
                for sg in (1, -1):
                    for t0 in (0.0, -3.0, 2.0):
                        dt = sg * k * 2 * math.pi
                        x0, y0, vx0, vy0 = exact_hyperbolic(-1.0, e, 1.0, t0)
                        for c, v in zip(('x', 'y', 'z', 'vx', 'vy', 'vz'), (x0, y0, 0.0, vx0, vy0, 0.0)): pv.set(c, v)
                        f(ns.addr, ctypes.addressof(buf), 1.0, 0, dt); n += 1
                        xe, ye, _, _ = exact_hyperbolic(-1.0, e, 1.0, t0 + dt)
                        err = max(abs(pv.get('x') - xe), abs(pv.get('y') - ye)) / math.hypot(xe, ye)
                        if not err <= 1e-8: bad.append((dict(a=-1.0, e=e, M=1.0, t0=t0, dt=dt), (pv.get('x'), pv.get('y')), (xe, ye)))
        return bool(bad), "native reb_whfast_kepler_solver vs the closed-form hyperbolic solution on %d long steps: %s" % (n, ("%d wrong, first: input %r gives %r instead of %r" % (len(bad), bad[0][0], bad[0][1], bad[0][2])) if bad else "all agree to 1e-8")
    finally:
        ns.free()

def run_overflow(u):
    rep = Report(); state, sign = u['state'], u['sign']
    label = "kepler_solver bisection step with overflowed Stiefel functions (%s, dt %s 0) " % (state, '>' if sign > 0 else '<')
    try: runs = overflow_runs(state, sign)
    except Unsupported as e:
        rep.errors.append(label + repr(e)); return rep
    if not runs: rep.errors.append(label + "bisection fallback not reached"); return rep
    prover = Prover(t_inproc_ms=u.get('t_ms', 60000), use_external=True, t_ext_s=120)
    far_feasible = 0
    for key, I, dom, ctx, d, X0, X1, G in runs:
        rep.paths += 1; rep.add_interp(I)
        ob = Obligations(rep, prover, label + "path%d " % rep.paths)
        X0 = dom.z(X0); X1 = dom.z(X1)
        # which end did this path replace?  evaluate the two abscissae at d = 1 (they do not depend on the G values)
        num = lambda t: z3.simplify(z3.substitute(t, (d, z3.FPVal(1.0, dom.sort))))
        x0n, x1n = num(X0), num(X1)
        if not (z3.is_fp_value(x0n) and z3.is_fp_value(x1n)):
            rep.errors.append(label + "abscissae depend on more than dt"); continue
        def fv(v):
            import struct
            bv = z3.simplify(z3.fpToIEEEBV(v))
            return struct.unpack('<d', struct.pack('<Q', bv.as_long()))[0]
        a0, a1 = fv(x0n), fv(x1n)
        moved_far = (abs(a1) < abs(a0))
        pinf = z3.fpPlusInfinity(dom.sort); ninf = z3.fpMinusInfinity(dom.sort)
        # overflow at abscissa X0: G_k = c_k(beta X^2) X^k with c_k = +inf  ->  G_0 = G_2 = +inf, G_1 = G_3 = sign(X) inf
        over = [z3.fpGT(d, z3.FPVal(0.0, dom.sort)), z3.fpLT(d, z3.FPVal(1e12, dom.sort)), G[0] == pinf, G[2] == pinf, G[1] == (pinf if sign > 0 else ninf), G[3] == (pinf if sign > 0 else ninf)]
        mine = list(ctx.pc[G['pcidx']:])          # every decision of the first bisection iteration
        pc = mine
        def on_sat(model):
            bad, detail = native_long_steps()
            return bad, 'C03:kepler_solver:bisection-overflow', detail, dict(kind='overflow')
        # reachability witness: existence only, so the step length may be fixed (dt = +-200)
        fix = lambda t: z3.substitute(t, (d, z3.FPVal(200.0, dom.sort)))
        chk = Prover(t_inproc_ms=60000, use_external=False).check([fix(t) for t in over + pc]); rep.queries += 1
        if chk.status == 'sat': far_feasible += 1
        if moved_far: pass
        else:
            ob.prove("when the Stiefel functions overflow at the trial abscissa (which then lies beyond the root) the bisection never replaces the NEAR end of the bracket (this path does: its condition must be unsatisfiable)",
                     z3.BoolVal(False), over + pc, on_sat=on_sat, domain='FP(11,53)', sample=dict(decisions=[bool(b) for b in key[-5:]], conditions=[str(c)[:160] for c in mine]))
    if far_feasible: rep.witnesses += 1
    else: rep.vacuous.append(label + "no explored path is feasible under the overflow assumption")
    bad, detail = native_long_steps(); rep.replays += 1
    if bad: rep.violations.append(dict(key='C03:kepler_solver:bisection-overflow', what=detail, replay=dict(kind='overflow'), obligation=label + 'native twin'))
    return rep
