"""C03 (second part) — the bisection fallback of reb_whfast_kepler_solver starts from a bracket that is correct in both time directions.

The real reb_whfast_kepler_solver is executed from LLVM IR over the reals with a symbolic state (x, v), central mass M and step.
stiefel_Gs3 is replaced by a stub returning arbitrary reals G_k (the bracket does not depend on them) and every convergence test of the
Newton iteration is decided 'not converged', which drives the run into the bisection fallback on the hyperbolic branch.  The two
bracket ends are reconstructed from the first two bisection abscissae.  Proved for all inputs: (i) the bracket of a backward step is the
mirror image of the bracket of the forward step (time-reversal symmetry of the Kepler problem: X(-dt) = -X(dt), the bracket formulas
do not depend on the radial velocity), (ii) both ends have the sign of dt, (iii) the ends are |dt|/(r0 + v_q |dt|) and |dt|/q with q the
pericentre distance and v_q the pericentre speed computed from the angular momentum vector."""
import sys, os, re, math, random, ctypes
sys.path.insert(0, os.path.dirname(os.path.dirname(os.path.abspath(__file__))))
import z3
from fractions import Fraction
from llsym import build
from llsym.harness import *
from llsym.check import *
from llsym.engine import PathCtx
from llsym.solve import model_value

class Stop(Exception): pass

class PolicyCtx(PathCtx):
    """every symbolic branch is decided by a light solver that only knows the sign assumptions; undecided ones go the 'False' way
    (Newton: not converged).  The decisions taken are recorded in pc like any other path condition."""
    def __init__(s, facts):
        PathCtx.__init__(s); s.light = z3.Solver(); s.light.set('timeout', 500); s.forced = []
        for f in facts: s.light.add(f)
    def branch(s, c):
        if isinstance(c, int): return bool(c)
        c = z3.simplify(c)
        if z3.is_true(c): return True
        if z3.is_false(c): return False
        if s.forced: d = s.forced.pop(0)
        elif _mentions_G(c): d = False                       # a convergence test of the iteration: not converged
        else:
            t = s.light.check(c) != z3.unsat; f = s.light.check(z3.Not(c)) != z3.unsat
            d = True if (t and not f) else False
        s.decisions.append(d); s.pc.append(c if d else z3.Not(c)); return d

def nmax_newt():
    m = re.search(r'#define\s+WHFAST_NMAX_NEWT\s+(\d+)', open(os.path.join(build.REPO, 'src/integrator_whfast.c')).read())
    return int(m.group(1)) if m else 32

def bracket(sign):
    dom = Real(); d = z3.Real('d'); Mc = z3.Real('M')
    ctx = PolicyCtx([d > 0, Mc > 0]); I = new_interp(dom, ctx); I.loop_bound = 200
    sim = Sim(I); sim.add(m=1.0)
    V = {c: z3.Real(c) for c in ('x', 'y', 'z', 'vx', 'vy', 'vz')}
    L = build.layout(); psz = L.structs['reb_particle']['size']
    pj = I.mem.alloc(psz, 'p_j', 'harness', zero=True); pv = SimView(I, pj, 'reb_particle')
    for c, t in V.items(): pv.set(c, t)
    calls = []
    n_before = 1 + (nmax_newt() - 1)
    def gs3(I_, gs, beta, X):
        calls.append(X)
        if len(calls) == n_before + 2: raise Stop()
        if len(calls) == n_before + 1: ctx.forced = [False, True]     # first bisection step: s < 0 (X_min = X), then stay in the loop
        # the values of the G functions at this abscissa: arbitrary reals (the bracket must not depend on them)
        for k in range(4): I_.mem.store(Ptr(gs.obj, gs.off + 8 * k), F64, z3.Real('G%d_%d' % (k, len(calls))))
        return None
    I.stubs['@stiefel_Gs3'] = gs3
    I.stubs['@fastabs'] = lambda I_, x: (abs(x) if isinstance(x, Fraction) else z3.If(dom.z(x) >= 0, dom.z(x), -dom.z(x)))
    try: I.call('@reb_whfast_kepler_solver', [sim.ptr, pj, Mc, 0, d if sign > 0 else -d])
    except Stop: pass
    if len(calls) < n_before + 2: raise Unsupported("bisection fallback not reached (%d stiefel_Gs3 calls)" % len(calls))
    X0, X1 = dom.z(calls[n_before]), dom.z(calls[n_before + 1])
    # the first bisection decision was forced to 's < 0': X_min = X0, X1 = (X_max + X0)/2
    took_max = False
    if took_max: xmin = 2 * X1 - X0; xmax = 2 * X0 - xmin
    else: xmax = 2 * X1 - X0; xmin = 2 * X0 - xmax
    return I, dom, ctx, d, Mc, V, z3.simplify(xmin), z3.simplify(xmax)

def run_bracket(u):
    rep = Report(); label = "kepler_solver bisection bracket (hyperbolic) "
    try:
        I1, d1, c1, d, Mc, V, lo_f, hi_f = bracket(+1)
        I2, d2, c2, _, _, _, lo_b, hi_b = bracket(-1)
    except Unsupported as e:
        rep.errors.append(label + repr(e)); return rep
    rep.paths += 2; rep.add_interp(I1); rep.add_interp(I2)
    prover = Prover(t_inproc_ms=u.get('t_ms', 20000), use_external=True, t_ext_s=60)
    ob = Obligations(rep, prover, label)
    x, y, z_, vx, vy, vz = (V[c] for c in ('x', 'y', 'z', 'vx', 'vy', 'vz'))
    hvec = [y * vz - z_ * vy, z_ * vx - x * vz, x * vy - y * vx]; h2 = sum(c * c for c in hvec)
    base = [d > 0, Mc > 0, h2 > 0]
    ax = list(d1.axioms) + list(d2.axioms)
    nz = [b != 0 for b in d1.divs] + [b != 0 for b in d2.divs]
    side = list(d1.side) + list(d2.side)
    def on_sat(model):
        bad, detail = isolated(native_roundtrip, 4000, timeout=120)
        return bad, 'C03:kepler_solver:bisection-bracket', detail, dict(kind='bracket', n=4000)
    A = base + nz + side
    ob.prove("backward bracket is the mirror image of the forward bracket: X_min(-dt) == -X_max(dt)", lo_b == -hi_f, A, axioms=ax, on_sat=on_sat, domain='REAL (sqrt/inv atoms; G_k values arbitrary)')
    ob.prove("backward bracket is the mirror image of the forward bracket: X_max(-dt) == -X_min(dt)", hi_b == -lo_f, A, axioms=ax, on_sat=on_sat, domain='REAL (sqrt/inv atoms; G_k values arbitrary)')
    ob.prove("forward bracket lies on the positive side: 0 < X_min and 0 < X_max", z3.And(lo_f > 0, hi_f > 0), A + [p for p in c1.pc if not _mentions_G(p)], axioms=ax, on_sat=on_sat, domain='REAL')
    # closed form: textbook conic relations p = h^2/M, e^2 = 1 - beta h^2/M^2, q = p/(1+e), v_q = h/q, with h^2 = r0^2 v^2 - (r.v)^2
    r0 = d1.libm('sqrt', [x * x + y * y + z_ * z_]); v2 = vx * vx + vy * vy + vz * vz; eta0 = x * vx + y * vy + z_ * vz
    ob.prove("Lagrange identity: |r x v|^2 == r0^2 v^2 - (r.v)^2", h2 == r0 * r0 * v2 - eta0 * eta0, [], axioms=list(d1.axioms), domain='REAL')
    hh2 = r0 * r0 * v2 - eta0 * eta0
    beta = 2 * Mc * d1.fdiv(Fraction(1), r0) - v2
    ecc = d1.libm('sqrt', [1 - d1.fdiv(hh2 * beta, Mc * Mc)])
    q = d1.fdiv(d1.fdiv(hh2, Mc), 1 + ecc); vq = d1.fdiv(d1.libm('sqrt', [hh2]), q)
    ax2 = list(d1.axioms); nz2 = [b_ != 0 for b_ in d1.divs]
    ob.prove("X_max == dt / q (q = pericentre distance p/(1+e))", hi_f * q == d, A + nz2, axioms=ax2, on_sat=on_sat, domain='REAL')
    ob.prove("X_min == dt / (r0 + v_q dt) (v_q = h/q, the pericentre speed)", lo_f * (r0 + vq * d) == d, A + nz2, axioms=ax2, on_sat=on_sat, domain='REAL')
    ob.witness("inputs", base, axioms=[])
    bad, detail = isolated(native_roundtrip, 1500, timeout=120); rep.replays += 1
    if bad: rep.violations.append(dict(key='C03:kepler_solver:bisection-bracket', what=detail, replay=dict(kind='bracket', n=1500), obligation=label + 'native twin'))
    return rep

def _mentions_G(t):
    seen = set(); stack = [t]
    while stack:
        u = stack.pop()
        if u.get_id() in seen: continue
        seen.add(u.get_id())
        if z3.is_const(u) and u.decl().kind() == z3.Z3_OP_UNINTERPRETED and re.match(r'G\d_\d+$', u.decl().name()): return True
        stack.extend(u.children())
    return False

_nat = None
def native_roundtrip(n):
    """native reb_whfast_kepler_solver on hyperbolic orbits that start near pericentre: a step dt followed by a step -dt must return to
    the start (both directions first); e in [1.5, 3], |dt| up to 3 dynamical times — a regime in which the unmodified solver is sound"""
    global _nat
    if _nat is None: _nat = Native()
    N_ = _nat; L = N_.L; psz = N_.psize
    f = N_.lib.reb_whfast_kepler_solver; f.restype = None
    f.argtypes = [ctypes.c_void_p, ctypes.c_void_p, ctypes.c_double, ctypes.c_uint, ctypes.c_double]
    ns = N_.create(); rnd = random.Random(11); bad = []; worst = 0.0
    try:
        buf = (ctypes.c_char * psz)(); pv = NView(N_, ctypes.addressof(buf), 'reb_particle')
        for k in range(n):
            e = rnd.uniform(1.5, 3.0); a = -rnd.uniform(0.5, 2.0); M = rnd.uniform(0.5, 2.0); fa = rnd.uniform(-0.6, 0.6)
            p = a * (1 - e * e); r = p / (1 + e * math.cos(fa)); hh = math.sqrt(M * p)
            x, y = r * math.cos(fa), r * math.sin(fa); vx, vy = -M / hh * math.sin(fa), M / hh * (e + math.cos(fa))
            inc = rnd.uniform(0, 1.0); st = dict(x=x, y=y * math.cos(inc), z=y * math.sin(inc), vx=vx, vy=vy * math.cos(inc), vz=vy * math.sin(inc))
            tdyn = math.sqrt(abs(a) ** 3 / M); dt = rnd.choice((-1, 1)) * rnd.uniform(0.05, 3.0) * tdyn
            for c in ('x', 'y', 'z', 'vx', 'vy', 'vz'): pv.set(c, st[c])
            f(ns.addr, ctypes.addressof(buf), M, 0, dt); f(ns.addr, ctypes.addressof(buf), M, 0, -dt)
            err = max(abs(pv.get(c) - st[c]) for c in st) / max(abs(v) for v in st.values())
            worst = max(worst, err) if err == err else float('inf')
            if not err < 1e-7: bad.append((dict(e=e, a=a, M=M, f=fa, dt=dt), err))
        return bool(bad), "native reb_whfast_kepler_solver, %d hyperbolic steps dt then -dt from near pericentre: %s" % (n, ("%d do not return to the start, first %r" % (len(bad), bad[0])) if bad else "all return to the start (worst relative deviation %.2e)" % worst)
    finally:
        ns.free()

def replay(data):
    return isolated(native_roundtrip, data.get('n', 4000), timeout=300)
