"""C09 — deferred synchronisation never changes the physics (DESIGN 5/C09).

Real part1 / part2 / synchronize control code from LLVM IR; the Kepler solver is a stub.
 (1) keep_unsynchronized is bit-transparent (UF domain, symbolic particle data, Kepler solver uninterpreted): a run with
     interleaved synchronize / energy / copy / save calls between the steps leaves p_jh, the flags and all later particle
     terms identical to the run without them (WHFast 4 coordinate systems, SABA).
 (2) synchronising twice == synchronising once on every persisted location (UF).
 (3) safe mode off + synchronise at the end == safe mode (REAL domain): the Kepler solver is replaced by an exactly composable
     one-parameter group (a linear drift x += v dt, for which K(a)K(b) = K(a+b) holds over the reals); the merging of
     half-drifts by the real control code must then give *identical* polynomials for the unsafe and the safe run, for
     symbolic particle data, masses and dt (WHFast all coordinate systems, SABA types, MERCURIUS without encounters)."""
import sys, os, time, ctypes
sys.path.insert(0, os.path.dirname(os.path.dirname(os.path.abspath(__file__))))
sys.path.insert(0, os.path.dirname(os.path.abspath(__file__)))
import z3
from llsym import build
from llsym.harness import *
from llsym.check import *
import persist as P
import c05

PID = 'C09'
C7 = ['x', 'y', 'z', 'vx', 'vy', 'vz', 'm']

def mk(dom, ctx, u, kepler):
    I = new_interp(dom, ctx); I.concrete_env = True
    I.stubs['@reb_whfast_kepler_solver'] = kepler(dom)
    L = build.layout(); sim = Sim(I)
    N = u['N']
    for p in P.particle_data(N): sim.add(**p)
    sim.set('integrator', L.enumerators['REB_INTEGRATOR_' + u['integ']])
    for k, v in u.get('set', {}).items(): sim.set(k, P.resolve_value(L, v))
    V = {}
    for i in range(N):
        for c in C7:
            V[(i, c)] = dom.fresh('%s%d' % (c, i)); sim.particle(i).set(c, V[(i, c)])
    return I, sim, V

def drift_stub(dom):
    """one-parameter group standing in for the Kepler flow: (x, v) -> (x + v dt, v)"""
    L = build.layout(); psize = L.structs['reb_particle']['size']
    offs = {m['name']: m['offset'] for m in L.structs['reb_particle']['members']}
    def stub(I, r, pj, M, i, dt):
        base = Ptr(pj.obj, pj.off + i * psize)
        for a, b in (('x', 'vx'), ('y', 'vy'), ('z', 'vz')):
            x = I.mem.load(Ptr(base.obj, base.off + offs[a]), F64); v = I.mem.load(Ptr(base.obj, base.off + offs[b]), F64)
            I.mem.store(Ptr(base.obj, base.off + offs[a]), F64, dom.fadd(x, dom.fmul(v, dt)))
        return None
    return stub

def persisted(I, sim, skip=()):
    tab = P.read_table(I)
    out = {}
    for lc in P.locations(I, sim, tab, []):
        if lc.field.startswith('walltime') or lc.field in skip: continue
        p = lc.ptr(I, sim)
        if p is not None: out[lc.label] = I.mem.load(p, lc.ty)
    return out

def run_transparent(u):
    rep = Report(); label = "keep_unsynchronized %s %s " % (u['integ'], u.get('set'))
    def run(extra):
        dom = UF(); ctx = P.StrictCtx()
        I, sim, V = mk(dom, ctx, u, c05.kepler_uf_stub)
        for k in range(u['steps']):
            I.call('@reb_simulation_step', [sim.ptr])
            if extra:
                I.call('@reb_simulation_synchronize', [sim.ptr])
                I.call('@reb_simulation_energy', [sim.ptr])
                cp = I.call('@reb_simulation_copy', [sim.ptr]); I.call('@reb_simulation_free', [cp])
                P.save(I, sim, 'snap%d.bin' % k)
        I.call('@reb_simulation_synchronize', [sim.ptr])
        return I, dom, sim
    try:
        I1, d1, s1 = run(False); I2, d2, s2 = run(True)
    except P.NeedConcrete as e:
        rep.errors.append(label + "symbolic branch on %r" % (e.names,)); return rep
    rep.paths += 2; rep.add_interp(I1); rep.add_interp(I2)
    ob = Obligations(rep, Prover(t_inproc_ms=10000, use_external=False), label)
    a = persisted(I1, s1); b = persisted(I2, s2)
    ob.prove("same set of persisted locations", set(a) == set(b), [], domain='UF')
    def on_sat(model):
        ok, detail = native_transparent(u)
        return ok, 'C09:keep_unsynchronized:%s' % u['integ'], detail, dict(unit=u, kind='transparent')
    for lab in a:
        if lab in b and not isinstance(a[lab], Ptr):
            ob.prove("%s identical with and without intermediate synchronize/energy/copy/save" % lab, P.vals_equal(d1, a[lab], b[lab]), [], on_sat=on_sat, domain='UF')
    ok, detail = native_transparent(u); rep.replays += 1; rep.witnesses += 1
    if ok: rep.violations.append(dict(key='C09:keep_unsynchronized:%s' % u['integ'], what=detail, replay=dict(unit=u, kind='transparent'), obligation=label))
    return rep

_nat = None
def nat():
    global _nat
    if _nat is None: _nat = Native()
    return _nat

def native_build(u):
    N_ = nat(); L = N_.L; ns = N_.create()
    for p in P.particle_data(u['N'] + 1): ns.add(**p)
    ns.set('integrator', L.enumerators['REB_INTEGRATOR_' + u['integ']])
    for k, v in u.get('set', {}).items(): ns.set(k, P.resolve_value(L, v))
    return ns

def native_transparent(u):
    outs = []
    for extra in (False, True):
        ns = native_build(u)
        for k in range(u['steps'] + 2):
            ns.call('reb_simulation_step')
            if extra:
                ns.call('reb_simulation_synchronize'); ns.call('reb_simulation_energy', restype=ctypes.c_double)
                cp = nat().lib.reb_simulation_copy(ns.addr); nat().lib.reb_simulation_free(cp)
        ns.call('reb_simulation_synchronize')
        outs.append([ns.particle(i).getbits(c) for i in range(ns.get('N')) for c in C7[:6]]); ns.free()
    return outs[0] != outs[1], "native %s %s: trajectories with and without intermediate synchronize/energy/copy %s" % (u['integ'], u.get('set'), 'differ bitwise' if outs[0] != outs[1] else 'are bit-identical')

def run_idempotent(u):
    rep = Report(); label = "synchronize twice %s %s " % (u['integ'], u.get('set'))
    dom = UF(); ctx = P.StrictCtx()
    try:
        I, sim, V = mk(dom, ctx, u, c05.kepler_uf_stub)
        for k in range(u['steps']): I.call('@reb_simulation_step', [sim.ptr])
        I.call('@reb_simulation_synchronize', [sim.ptr]); a = persisted(I, sim)
        I.call('@reb_simulation_synchronize', [sim.ptr]); b = persisted(I, sim)
    except P.NeedConcrete as e:
        rep.errors.append(label + "symbolic branch on %r" % (e.names,)); return rep
    rep.paths += 1; rep.add_interp(I)
    ob = Obligations(rep, Prover(t_inproc_ms=10000, use_external=False), label)
    for lab in a:
        if not isinstance(a[lab], Ptr): ob.prove("%s unchanged by a second synchronize" % lab, P.vals_equal(dom, a[lab], b.get(lab)), [], domain='UF')
    return rep

def run_safe_vs_unsafe(u):
    rep = Report(); label = "unsafe+sync == safe %s %s N=%d steps=%d " % (u['integ'], u.get('set'), u['N'], u['steps'])
    def run(safe):
        dom = Real(); ctx = PathCtx()
        uu = dict(u); s = dict(u.get('set', {})); s[u['safe_field']] = 1 if safe else 0; uu['set'] = s
        I, sim, V = mk(dom, ctx, uu, drift_stub)
        dt = dom.fresh('dt'); sim.set('dt', dt); G = dom.fresh('G'); sim.set('G', G)
        for k in range(u['steps']): I.call('@reb_simulation_step', [sim.ptr])
        I.call('@reb_simulation_synchronize', [sim.ptr])
        return I, dom, sim, ctx
    I1, d1, s1, c1 = run(True); I2, d2, s2, c2 = run(False)
    if c1.decisions or c2.decisions: rep.errors.append(label + "unexpected symbolic branch")
    rep.paths += 2; rep.add_interp(I1); rep.add_interp(I2)
    ob = Obligations(rep, Prover(t_inproc_ms=u.get('t_ms', 20000), use_external=u.get('ext', False), t_ext_s=60), label)
    N = u['N']
    def on_sat(model):
        ok, detail = native_safe_vs_unsafe(u)
        return ok, 'C09:unsafe-vs-safe:%s' % u['integ'], detail, dict(unit=u, kind='safe')
    assum = [b != 0 for b in d1.divs] + [b != 0 for b in d2.divs]
    axs = list(d1.axioms) + list(d2.axioms)
    for i in range(N):
        for c in C7[:6]:
            a = d1.z(s1.particle(i).get(c)); b = d2.z(s2.particle(i).get(c))
            ob.prove("particles[%d].%s: unsafe mode + synchronize == safe mode (exactly, with a composable drift)" % (i, c), a == b, assum, axioms=axs, on_sat=on_sat, domain='REAL (Kepler flow := linear drift group)')
    ob.prove("t equal", d1.z(s1.get('t')) == d2.z(s2.get('t')), [], domain='REAL')
    ok, detail = native_safe_vs_unsafe(u); rep.replays += 1; rep.witnesses += 1
    if ok: rep.violations.append(dict(key='C09:unsafe-vs-safe:%s' % u['integ'], what=detail, replay=dict(unit=u, kind='safe'), obligation=label))
    return rep

def native_safe_vs_unsafe(u):
    """natively (real Kepler solver): unsafe+synchronize vs safe agree to rounding error"""
    outs = []
    for safe in (1, 0):
        uu = dict(u); s = dict(u.get('set', {})); s[u['safe_field']] = safe; uu['set'] = s; uu['N'] = u['N']
        ns = native_build(uu)
        ns.set('dt', 0.01)
        for k in range(u['steps'] + 3): ns.call('reb_simulation_step')
        ns.call('reb_simulation_synchronize')
        outs.append([ns.particle(i).get(c) for i in range(ns.get('N')) for c in C7[:6]]); ns.free()
    err = max(abs(a - b) for a, b in zip(*outs)); scale = max(abs(a) for a in outs[0]) + 1e-300
    return err > 1e-9 * scale, "native %s %s: safe vs unsafe+synchronize differ by %.3g (scale %.3g)" % (u['integ'], u.get('set'), err, scale)

def run_eos_words(u):
    """EOS: its deferred synchronisation is checked at the level of operator words (unit shared with C01): two unsynchronised steps +
    synchronize apply the same word of shell drifts and interactions as two synchronised steps, for every outer scheme"""
    import c01
    rep = c01.run_eos(dict(what='eos', phi0=u['phi0'], phi1=u.get('phi1', 'REB_EOS_LF'), n=1, unsync=True))
    for v in rep.violations: v['key'] = v['key'].replace('C01:', 'C09:'); v['replay'] = dict(kind='eos_words', unit=dict(what='eos', phi0=u['phi0'], phi1=u.get('phi1', 'REB_EOS_LF'), n=1, unsync=True), index=v['replay'].get('index'))
    return rep

def worker(u):
    if u['what'] == 'eos_words': return run_eos_words(u)
    return {'transparent': run_transparent, 'idempotent': run_idempotent, 'safe': run_safe_vs_unsafe}[u['what']](u)

def replay(data):
    if data.get('kind') == 'eos_words':
        import c01
        return c01.replay(dict(unit=data['unit'], index=data['index']))
    return native_transparent(data['unit']) if data['kind'] == 'transparent' else native_safe_vs_unsafe(data['unit'])

def main():
    tier = os.environ.get('VERIF_TIER') or (sys.argv[1] if len(sys.argv) > 1 else 'quick')
    t0 = time.time()
    build.module(); build.layout(); build.build_native()
    us = []
    coords = ['JACOBI', 'DEMOCRATICHELIOCENTRIC', 'WHDS', 'BARYCENTRIC']
    for co in coords:
        st = {'dt': 0.01, 'ri_whfast.coordinates': 'REB_WHFAST_COORDINATES_' + co}
        us.append(dict(what='transparent', integ='WHFAST', N=2, steps=2, set=dict(st, **{'ri_whfast.safe_mode': 0, 'ri_whfast.keep_unsynchronized': 1})))
        us.append(dict(what='idempotent', integ='WHFAST', N=2, steps=2, set=dict(st, **{'ri_whfast.safe_mode': 0})))
        us.append(dict(what='safe', integ='WHFAST', N=2, steps=2 if tier == 'quick' else 3, set=st, safe_field='ri_whfast.safe_mode', ext=(tier == 'thorough'), t_ms=(5000 if tier == 'quick' else 20000)))
    for p0 in ('LF', 'LF4', 'LF6', 'LF8', 'LF4_2', 'LF8_6_4', 'PLF7_6_4', 'PMLF4', 'PMLF6'): us.append(dict(what='eos_words', phi0='REB_EOS_' + p0))
    us.append(dict(what='transparent', integ='SABA', N=2, steps=2, set={'dt': 0.01, 'ri_saba.safe_mode': 0, 'ri_saba.keep_unsynchronized': 1}))
    us.append(dict(what='idempotent', integ='SABA', N=2, steps=2, set={'dt': 0.01, 'ri_saba.safe_mode': 0}))
    for ty in (('REB_SABA_1', 'REB_SABA_2') if tier == 'quick' else ('REB_SABA_1', 'REB_SABA_2', 'REB_SABA_4', 'REB_SABA_10_4', 'REB_SABA_10_6_4', 'REB_SABA_H_8_4_4')):
        us.append(dict(what='safe', integ='SABA', N=2, steps=2, set={'dt': 0.01, 'ri_saba.type': ty}, safe_field='ri_saba.safe_mode', ext=(tier == 'thorough')))
    if tier == 'thorough':
        us.append(dict(what='safe', integ='WHFAST', N=3, steps=2, set={'dt': 0.01}, safe_field='ri_whfast.safe_mode', ext=False, t_ms=30000))          # obligations that do not close in 30 s did not close in 120 s either (sequential time-outs made this unit run for an hour)
        us.append(dict(what='safe', integ='WHFAST', N=2, steps=2, set={'dt': 0.01, 'ri_whfast.corrector': 3}, safe_field='ri_whfast.safe_mode', ext=False, t_ms=30000))
    rep = run_units(us, worker)
    code = finish(PID, tier, rep, t0,
        bounds=dict(units=len(us), particles='2' if tier == 'quick' else '2..3', steps='2..3', integrators=['WHFAST (4 coordinate systems)', 'SABA']),
        assumptions=['(1),(2): Kepler solver is an uninterpreted pure function of (state, mass, dt); particle data arbitrary bit patterns; flags concrete',
                     '(3): the Kepler flow is replaced by a linear drift, an exactly composable one-parameter group; the obligation is that the control code merges half-drifts correctly, over the reals', 'no coincident particles'],
        outside=['EOS on particle data (its merged drift is only approximately composable): decided at the level of operator words only', 'MERCURIUS', 'WHFast512', 'histories longer than 3 steps', 'the accuracy of the real Kepler solver (C03)'],
        domain_note='UF for bit-transparency/idempotence; REAL for safe-vs-unsafe')
    sys.exit(code)

if __name__ == '__main__':
    main()
