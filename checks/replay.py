"""replay a recorded counterexample against a library built natively from /repo's current tree: python3-vt checks/replay.py <file>"""
import sys, os, json, importlib
sys.path.insert(0, os.path.dirname(os.path.dirname(os.path.abspath(__file__))))
sys.path.insert(0, os.path.dirname(os.path.abspath(__file__)))
d = json.load(open(sys.argv[1]))
mod = importlib.import_module(d['property'].lower())
from llsym import build
build.module(); build.layout(); build.build_native()
ok, detail = mod.replay(d['replay'])
print(("REPRODUCED: " if ok else "not reproduced: ") + detail)
sys.exit(1 if ok else 0)
