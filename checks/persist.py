"""Shared machinery for the persistence properties (C05, C06, C07, C17): building reachable simulation states through the
real API inside the engine and natively, reading the library's own field-descriptor table, making persisted data
symbolic, and comparing states entry by entry."""
import os, re, sys, ctypes, struct, json
import z3
from llsym import build
from llsym.harness import *
from llsym.engine import *

# ------------------------------------------------------------------------------------------ descriptor table (from the module itself)
DT = {}
def dtype_names():
    if not DT:
        L = build.layout()
        for k, v in L.enumerators.items():
            if k in ('REB_DOUBLE', 'REB_INT', 'REB_UINT', 'REB_UINT32', 'REB_INT64', 'REB_UINT64', 'REB_VEC3D', 'REB_PARTICLE', 'REB_POINTER',
                     'REB_POINTER_ALIGNED', 'REB_DP7', 'REB_OTHER', 'REB_FIELD_END', 'REB_FIELD_NOT_FOUND', 'REB_PARTICLE4', 'REB_POINTER_FIXED_SIZE'):
                DT[v] = k
    return DT

def read_table(I):
    """the descriptor table as the *current* library defines it, read from the IR global"""
    L = build.layout()
    st = L.structs['reb_binary_field_descriptor']
    offs = {m['name']: m['offset'] for m in st['members']}
    size = st['size']
    p = I.global_ptr('@reb_binary_field_descriptor_list')
    o = I.mem.objs[p.obj]
    names = dtype_names()
    out = []
    k = 0
    while True:
        b = k * size
        def u(name, n): return int.from_bytes(o.base[b + offs[name]: b + offs[name] + n], 'little')
        dtype = names.get(u('dtype', 4), '?')
        nm = bytes(o.base[b + offs['name']: b + offs['name'] + 1024]).split(b'\0')[0].decode()
        out.append(dict(type=u('type', 4), dtype=dtype, name=nm, offset=u('offset', 8), offset_N=u('offset_N', 8), element_size=u('element_size', 8)))
        if dtype == 'REB_FIELD_END': break
        k += 1
        if k > 2000: raise Unsupported("descriptor table without END")
    return out

SCALAR_SIZE = {'REB_DOUBLE': 8, 'REB_INT': 4, 'REB_UINT': 4, 'REB_UINT32': 4, 'REB_INT64': 8, 'REB_UINT64': 8, 'REB_VEC3D': 24}

def documented_options():
    """user-settable scalar options: members of the integrator structs that precede the '// Internal use' marker in rebound.h,
    plus the simulation variables documented in docs/simulationvariables.md (regenerated from the current tree)"""
    h = open(os.path.join(build.REPO, 'src', 'rebound.h')).read()
    out = []
    for m in re.finditer(r'^struct (reb_integrator_\w+)\s*\{(.*?)^\};', h, re.S | re.M):
        pub = m.group(2).split('// Internal use')[0]
        pre = 'ri_' + m.group(1)[len('reb_integrator_'):]
        pub = re.sub(r'enum\s*\{[^}]*\}\s*(\w+);', r'int \1;', pub, flags=re.S)
        for fm in re.finditer(r'^\s*(?:const\s+)?(?:unsigned\s+|struct\s+|enum\s+)?[\w]+\s+(\w+)\s*;', pub, re.M):
            out.append(pre + '.' + fm.group(1))
    doc = os.path.join(build.REPO, 'docs', 'simulationvariables.md')
    top = []
    if os.path.exists(doc):
        for m in re.finditer(r'`#!c\s+(?:unsigned\s+|struct\s+|enum\s+)?[\w]+\s+(\w+)`', open(doc).read()):
            top.append(m.group(1))
    L = build.layout()
    names = {m['name'] for m in L.structs['reb_simulation']['members']}
    out += [t for t in top if t in names]
    return out

# ------------------------------------------------------------------------------------------ configurations (reachable states via the real API)
def particle_data(n, seed=0):
    import random
    rnd = random.Random(1234 + seed)
    ps = [dict(m=1.0, x=0.0, y=0.0, z=0.0, vx=0.0, vy=0.0, vz=0.0, r=0.01)]
    for i in range(1, n):
        a = 1.0 + 0.7 * i
        ps.append(dict(m=1e-3 * (1 + 0.3 * i), x=a, y=0.05 * i, z=0.01 * i, vx=-0.02 * i, vy=1.0 / a ** 0.5, vz=0.003 * i, r=0.001 * i))
    return ps

CONFIGS = {
    'ias15': dict(integrator='IAS15', steps=2),
    'whfast': dict(integrator='WHFAST', steps=2, set={'dt': 0.01}),
    'whfast_unsync': dict(integrator='WHFAST', steps=2, set={'dt': 0.01, 'ri_whfast.safe_mode': 0, 'ri_whfast.corrector': 3}),
    'whfast_dh_kernel': dict(integrator='WHFAST', steps=1, set={'dt': 0.01, 'ri_whfast.coordinates': 'REB_WHFAST_COORDINATES_DEMOCRATICHELIOCENTRIC', 'ri_whfast.safe_mode': 0, 'ri_whfast.keep_unsynchronized': 1}),
    'saba': dict(integrator='SABA', steps=1, set={'dt': 0.01, 'ri_saba.safe_mode': 0}),
    'eos': dict(integrator='EOS', steps=1, set={'dt': 0.01, 'ri_eos.safe_mode': 0}),
    'leapfrog': dict(integrator='LEAPFROG', steps=2, set={'dt': 0.01}),
    'janus': dict(integrator='JANUS', steps=2, set={'dt': 0.01}),
    'mercurius': dict(integrator='MERCURIUS', steps=2, set={'dt': 0.01}),
    'mercurius_unsync': dict(integrator='MERCURIUS', steps=2, set={'dt': 0.01, 'ri_mercurius.safe_mode': 0}),
    'trace': dict(integrator='TRACE', steps=2, set={'dt': 0.01}),
    'bs': dict(integrator='BS', steps=2, set={'dt': 0.01}),
    'sei': dict(integrator='SEI', steps=2, set={'dt': 0.01, 'ri_sei.OMEGA': 1.0}),
    'none': dict(integrator='NONE', steps=1, set={'dt': 0.01}),
    'fresh': dict(integrator='IAS15', steps=0),
    'whfast_var': dict(integrator='WHFAST', steps=1, set={'dt': 0.01}, var=1),
    'ias15_var': dict(integrator='IAS15', steps=1, var=1),
    # the particle number dropped after the integrator allocated its arrays (merge / remove): N_allocated > 3 N at the save point
    'ias15_removed': dict(integrator='IAS15', steps=2, remove_last_after=1, twin_add=1),
}

def resolve_value(L, v):
    if isinstance(v, str): return L.enumerators[v]
    return v

def build_engine_state(I, cfg, n=2):
    """create + add + options + k real steps, all on concrete data (fast path of the same interpreter)"""
    L = build.layout()
    sim = Sim(I)
    for p in particle_data(n): sim.add(**p)
    sim.set('integrator', L.enumerators['REB_INTEGRATOR_' + cfg['integrator']])
    for k, v in cfg.get('set', {}).items(): sim.set(k, resolve_value(L, v))
    if cfg.get('var'):
        I.call('@reb_simulation_add_variation_1st_order', [sim.ptr, 0xffffffff])      # sret? returns struct by value -> see below
    for _ in range(cfg.get('steps', 0)):
        I.call('@reb_simulation_step', [sim.ptr])
    if cfg.get('remove_last_after'): I.call('@reb_simulation_remove_particle', [sim.ptr, sim.get('N') - 1, 1])
    return sim

def build_native_state(nat, cfg, n=2):
    L = nat.L
    ns = nat.create()
    for p in particle_data(n): ns.add(**p)
    ns.set('integrator', L.enumerators['REB_INTEGRATOR_' + cfg['integrator']])
    for k, v in cfg.get('set', {}).items(): ns.set(k, resolve_value(L, v))
    if cfg.get('var'):
        ns.call('reb_simulation_add_variation_1st_order', ctypes.c_int(-1), restype=ctypes.c_int)
    for _ in range(cfg.get('steps', 0)): ns.call('reb_simulation_step')
    if cfg.get('remove_last_after'): ns.call('reb_simulation_remove_particle', ctypes.c_int(ns.get('N') - 1), ctypes.c_int(1), restype=ctypes.c_int)
    return ns

# ------------------------------------------------------------------------------------------ symbolisation
class Entry:
    """one persisted location: (where, IR type, original value, label)"""
    __slots__ = ('label', 'ptr', 'ty', 'val', 'field', 'index', 'sub')
    def __init__(s, label, ptr, ty, val, field, index=None, sub=None):
        s.label = label; s.ptr = ptr; s.ty = ty; s.val = val; s.field = field; s.index = index; s.sub = sub

def particle_cells():
    L = build.layout()
    out = []
    for m in L.structs['reb_particle']['members']:
        cls = L.type_class(m['base'])
        if cls[0] == 'float': out.append((m['name'], m['offset'], F64))
        elif cls[0] == 'int': out.append((m['name'], m['offset'], intT(8 * cls[1])))
    return out

class Loc:
    """one persisted scalar location.  recipe = (offset in struct reb_simulation, deref?, inner offset) works for engine and native"""
    __slots__ = ('label', 'ty', 'field', 'recipe', 'option')
    def __init__(s, label, ty, field, recipe, option=False):
        s.label = label; s.ty = ty; s.field = field; s.recipe = recipe; s.option = option
    def ptr(s, I, sim):
        off, deref, inner = s.recipe
        p = Ptr(sim.ptr.obj, sim.ptr.off + off)
        if deref:
            q = I.mem.load(p, PtrT(I8))
            if q == NULL: return None
            return Ptr(q.obj, q.off + inner)
        return p
    def naddr(s, ns):
        off, deref, inner = s.recipe
        a = ns.addr + off
        if deref:
            q = ctypes.c_void_p.from_address(a).value
            if not q: return None
            return q + inner
        return a

def locations(I, sim, tab, options=()):
    """enumerate every persisted scalar location of the live simulation (+ documented options not in the table)"""
    L = build.layout(); out = []
    psize = L.structs['reb_particle']['size']
    base = sim.ptr
    seen = set()
    def ld(off, ty): return I.mem.load(Ptr(base.obj, base.off + off), ty)
    for e in tab:
        dt = e['dtype']; nm = e['name']; off = e['offset']
        if dt == 'REB_DOUBLE': out.append(Loc(nm, F64, nm, (off, False, 0)))
        elif dt in ('REB_INT', 'REB_UINT', 'REB_UINT32'): out.append(Loc(nm, I32, nm, (off, False, 0)))
        elif dt in ('REB_INT64', 'REB_UINT64'): out.append(Loc(nm, I64, nm, (off, False, 0)))
        elif dt == 'REB_VEC3D':
            for k, c in enumerate('xyz'): out.append(Loc(nm + '.' + c, F64, nm, (off + 8 * k, False, 0)))
        elif dt in ('REB_POINTER', 'REB_POINTER_FIXED_SIZE', 'REB_POINTER_ALIGNED'):
            if dt != 'REB_POINTER_FIXED_SIZE' and ('count', e['offset_N']) not in seen:
                seen.add(('count', e['offset_N']))
                out.append(Loc('count:' + nm, I32, 'count:' + nm, (e['offset_N'], False, 0)))      # the element counter belongs to the persisted state
            p = ld(off, PtrT(I8))
            if p == NULL: continue
            cnt = ld(e['offset_N'], I32) if dt != 'REB_POINTER_FIXED_SIZE' else 1
            es = e['element_size']
            for i in range(cnt):
                if es == psize:
                    for f, poff, ty in particle_cells():
                        out.append(Loc("%s[%d].%s" % (nm, i, f), ty, nm, (off, True, i * es + poff)))
                elif nm == 'var_config':
                    vm = L.structs['reb_variational_configuration']['members']
                    for m in vm:
                        cls = L.type_class(m['base'])
                        if cls[0] == 'int': out.append(Loc("%s[%d].%s" % (nm, i, m['name']), intT(8 * cls[1]), nm, (off, True, i * es + m['offset'])))
                        elif cls[0] == 'float': out.append(Loc("%s[%d].%s" % (nm, i, m['name']), F64, nm, (off, True, i * es + m['offset'])))
                elif nm == 'display_settings':
                    for k in range(es // 4):
                        out.append(Loc("%s+%d" % (nm, 4 * k), I32, nm, (off, True, 4 * k)))
                elif es % 8 == 0:
                    for k in range(es // 8):
                        out.append(Loc("%s[%d]+%d" % (nm, i, 8 * k), F64 if nm != 'ri_janus.p_int' else I64, nm, (off, True, i * es + 8 * k)))
                else:
                    for k in range(es // 4):
                        out.append(Loc("%s[%d]+%d" % (nm, i, 4 * k), I32, nm, (off, True, i * es + 4 * k)))
        elif dt == 'REB_DP7':
            if ('count', e['offset_N']) not in seen:
                seen.add(('count', e['offset_N'])); out.append(Loc('count:' + nm, I32, 'count:' + nm, (e['offset_N'], False, 0)))
            cnt = ld(e['offset_N'], I32)
            for q in range(7):
                p = ld(off + 8 * q, PtrT(I8))
                if p == NULL: continue
                for i in range(cnt):
                    out.append(Loc("%s.p%d[%d]" % (nm, q, i), F64, nm, (off + 8 * q, True, 8 * i)))
        elif dt == 'REB_PARTICLE4':
            for i in range(4):
                for f, poff, ty in particle_cells():
                    out.append(Loc("%s[%d].%s" % (nm, i, f), ty, nm, (off + i * psize + poff, False, 0)))
        seen.add(nm)
    # every name that the table or the documentation mentions denotes a struct member: that member's own bytes (offset from
    # the headers' debug info, not from the table) must be among the persisted locations
    have = {(lc.recipe, lc.ty.bits) for lc in out}          # same place but another width is another claim (a table entry narrower than the member)
    names = list(options) + [e['name'] for e in tab if e['dtype'] in SCALAR_SIZE]
    done = set()
    for nm in names:
        if nm in done: continue
        done.add(nm)
        try:
            off, size, m = L.member('reb_simulation', nm)
        except KeyError:
            continue
        cls = L.type_class(m['base'])
        if cls[0] == 'float': cand = [Loc(nm if nm not in seen else 'member:' + nm, F64, nm, (off, False, 0), True)]
        elif cls[0] in ('int', 'enum'): cand = [Loc(nm if nm not in seen else 'member:' + nm, intT(8 * (cls[1] if cls[0] == 'int' else cls[2])), nm, (off, False, 0), True)]
        elif cls[0] == 'struct' and cls[1] == 'reb_vec3d':
            cand = [Loc((nm if nm not in seen else 'member:' + nm) + '.' + c, F64, nm, (off + 8 * k, False, 0), True) for k, c in enumerate('xyz')]
        else: cand = []
        for lc in cand:
            if (lc.recipe, lc.ty.bits) not in have:
                have.add((lc.recipe, lc.ty.bits)); out.append(lc)
    return out

def symbolise(I, sim, locs, keep=()):
    """overwrite every location (except names in keep) by a fresh symbol; returns {label: (value now stored, original, symbolic?)}"""
    sy = {}
    for lc in locs:
        p = lc.ptr(I, sim)
        if p is None: continue
        orig = I.mem.load(p, lc.ty)
        if lc.field in keep or lc.label in keep:
            sy[lc.label] = (orig, orig, False); continue
        nm = 'S!' + lc.label
        v = I.dom.fresh(nm) if lc.ty.kind == 'fp' else z3.BitVec(nm, lc.ty.bits)
        I.mem.store(p, lc.ty, v)
        sy[lc.label] = (v, orig, True)
    return sy

def read_locations(I, sim, locs):
    out = {}
    for lc in locs:
        p = lc.ptr(I, sim)
        out[lc.label] = None if p is None else I.mem.load(p, lc.ty)
    return out

class NeedConcrete(Exception):
    def __init__(s, names): s.names = names

class StrictCtx(PathCtx):
    """path context that refuses to fork: a branch on symbolic data names the symbols so that the harness can keep them concrete"""
    def branch(s, c):
        if isinstance(c, int): return bool(c)
        c2 = z3.simplify(c)
        if z3.is_true(c2): return True
        if z3.is_false(c2): return False
        # decided by the assumptions made so far?
        ft = s.feasible(c2); ff = s.feasible(z3.Not(c2))
        if ft and not ff: return True
        if ff and not ft: return False
        if not ft and not ff: raise PathInfeasible()
        raise NeedConcrete(sorted(symbols_of(c2)))
    def concretize(s, bv, what='value'):
        if isinstance(bv, int): return bv
        b2 = z3.simplify(bv)
        if z3.is_bv_value(b2): return b2.as_long()
        raise NeedConcrete(sorted(symbols_of(b2)))

def symbols_of(t):
    out = set(); stack = [t]; seen = set()
    while stack:
        e = stack.pop()
        if e.get_id() in seen: continue
        seen.add(e.get_id())
        if z3.is_const(e) and e.decl().kind() == z3.Z3_OP_UNINTERPRETED: out.add(e.decl().name())
        stack.extend(e.children())
    return out

def vals_equal(dom, a, b):
    """z3 Bool / python bool: are two loaded values the same bits?"""
    if isinstance(a, Ptr) or isinstance(b, Ptr): return a == b
    if isinstance(a, float) and isinstance(b, float): return same_bits(a, b)
    if isinstance(a, int) and isinstance(b, int): return a == b
    za = dom.z(a) if not isinstance(a, int) else a; zb = dom.z(b) if not isinstance(b, int) else b
    if isinstance(za, int) and isinstance(zb, int): return za == zb
    if isinstance(za, int): za = z3.BitVecVal(za, zb.size())
    if isinstance(zb, int): zb = z3.BitVecVal(zb, za.size())
    if za.eq(zb): return True
    return za == zb

# ------------------------------------------------------------------------------------------ save / load through the real API on the model file system
def save(I, sim, fname):
    I.call('@reb_simulation_save_to_file', [sim.ptr, I.cstr(fname)])
def load(I, fname, snapshot=0):
    p = I.call('@reb_simulation_create_from_file', [I.cstr(fname), snapshot & ((1 << 64) - 1)])
    return None if p == NULL else Sim(I, p)
def file_cells(I, fname):
    from llsym import stubs as ST
    node = ST.file_node(I, fname)
    o = I.mem.objs[node.ptr.obj]
    return node.length, bytes(o.base[:node.length]) if isinstance(node.length, int) else None, {k: v for k, v in o.cells.items() if isinstance(node.length, int) and k < node.length}

def files_diff(I, fa, fb):
    """byte-wise comparison of two model files: returns (len_a, len_b, concrete differing offsets, [(offset, z3 condition 'bytes equal')])"""
    from llsym import stubs as ST
    na = ST.file_node(I, fa); nb = ST.file_node(I, fb)
    oa = I.mem.objs[na.ptr.obj]; ob_ = I.mem.objs[nb.ptr.obj]
    la, lb = na.length, nb.length
    if la != lb: return la, lb, [], []
    diff = []; conds = []
    k = 0
    while k < la:
        ca = oa.cells.get(k); cb = ob_.cells.get(k)
        if ca is not None and cb is not None and ca[0] == cb[0]:
            x, y = ca[1], cb[1]
            if isinstance(x, Ptr) and x == NULL: x = 0
            if isinstance(y, Ptr) and y == NULL: y = 0
            if isinstance(x, Ptr) or isinstance(y, Ptr):
                k += ca[0]; continue        # non-null pointer members (particles[i].sim ...): masked on load (documented)
            e = vals_equal(I.dom, x, y)
            if e is True: k += ca[0]; continue
            if e is False: diff.append(k); k += ca[0]; continue
            conds.append((k, e)); k += ca[0]; continue
        x = I.mem.byte_at(oa, k); y = I.mem.byte_at(ob_, k)
        if isinstance(x, int) and isinstance(y, int):
            if x != y: diff.append(k)
        elif x is UNINIT or y is UNINIT:
            if not (x is UNINIT and y is UNINIT): diff.append(k)
        else:
            if isinstance(x, int): x = z3.BitVecVal(x, 8)
            if isinstance(y, int): y = z3.BitVecVal(y, 8)
            e = z3.simplify(x == y)
            if z3.is_false(e): diff.append(k)
            elif not z3.is_true(e): conds.append((k, e))
        k += 1
    return la, lb, diff, conds
