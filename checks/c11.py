"""C11 — orbital elements and Cartesian coordinates are consistent (the decidable parts; DESIGN 5/C11).

REAL domain with trigonometric atoms (sin^2 + cos^2 = 1), real code from LLVM IR, all paths:
 * reb_particle_from_orbit_err: the rejection branches are exactly the invalid inputs; on the accepting path no division by
   zero and no square root of a negative number can occur for any accepted input (otherwise a NaN/inf particle is produced
   silently), and the produced particle satisfies the defining relations: distance r = a(1-e^2)/(1+e cos f), specific
   angular momentum h^2 = mu a (1-e^2), vis-viva v^2 = mu (2/r - 1/a), position and velocity relative to the primary.
 * reb_M_to_E: the start value and the Newton update contain no division by zero for any valid (e, M), elliptic and hyperbolic
   (in particular at pericentre passage M = 0).
 * reb_orbit_from_particle_err, all paths, symbolic particle and primary: error codes only for a massless primary / coincident
   particles; the reported angles satisfy the documented defining relations modulo 2 pi (pomega = Omega +- omega,
   theta = pomega +- f, l = pomega +- M for prograde / retrograde orbits in the planar and the inclined branch) and lie in
   [0, 2 pi); d and v are the relative distance and speed.  Refuted relations are replayed on native representatives of the
   same path class (planar/inclined x prograde/retrograde x circular/eccentric x bound/unbound).
 * reb_mod2pi returns a value in [0, 2 pi) congruent to its argument (fmod by its defining relation)."""
import sys, os, time, ctypes, math
sys.path.insert(0, os.path.dirname(os.path.dirname(os.path.abspath(__file__))))
import z3
from llsym import build
from llsym.harness import *
from llsym.check import *
from llsym.solve import model_value

PID = 'C11'
_nat = None
def nat():
    global _nat
    if _nat is None: _nat = Native()
    return _nat

EL = ['G', 'Mp', 'm', 'a', 'e', 'inc', 'Omega', 'omega', 'f']

def run_from_orbit(u):
    rep = Report(); label = "from_orbit_err "
    prover = Prover(t_inproc_ms=u.get('t_ms', 15000), use_external=u.get('ext', True), t_ext_s=u.get('t_ext', 30))
    L = build.layout(); psz = L.structs['reb_particle']['size']
    def run(ctx):
        dom = Real(); I = new_interp(dom, ctx)
        v = {k: dom.fresh(k) for k in EL}
        prim = I.mem.alloc(psz, 'primary', 'harness', zero=True); pv = SimView(I, prim, 'reb_particle')
        P0 = {c: dom.fresh('p_' + c) for c in ('x', 'y', 'z', 'vx', 'vy', 'vz')}
        for c, t in P0.items(): pv.set(c, t)
        pv.set('m', v['Mp'])
        ctx.assume(v['G'] > 0); ctx.assume(v['m'] >= 0)          # documented: G > 0, masses >= 0
        out = I.mem.alloc(psz, 'out', 'harness', zero=True); err = I.mem.alloc(4, 'err', 'harness', zero=True)
        I.call('@reb_particle_from_orbit_err', [out, v['G'], prim, v['m'], v['a'], v['e'], v['inc'], v['Omega'], v['omega'], v['f'], err])
        return I, dom, v, P0, SimView(I, out, 'reb_particle'), I.mem.load(err, I32)
    ex = Explorer(run, max_paths=64, timeout_ms=4000); ex.explore()
    rep.queries += ex.nqueries; rep.solver_time += ex.qtime
    for ctx, (I, dom, v, P0, out, err) in ex.results:
        rep.paths += 1; rep.add_interp(I)
        ob = Obligations(rep, prover, label + "path%d err=%s " % (rep.paths, err))
        pc = list(ctx.pc); ax = list(dom.axioms)
        cf = dom.sincos(dom.z(v['f']))[1]
        valid = z3.And(v['e'] >= 0, v['e'] != 1, z3.Implies(v['e'] > 1, v['a'] < 0), z3.Implies(v['e'] < 1, v['a'] > 0), v['e'] * cf > -1, v['Mp'] >= z3.RealVal('1e-308'))
        def on_sat_factory(kind, b=None):
            def on_sat(model):
                vals = {k: float(model_value(model, t)) for k, t in v.items()}
                vals['cosf'] = float(model_value(model, cf))
                ok, detail, key = native_from_orbit(vals, kind)
                return ok, key, detail, dict(kind='from_orbit', sub=kind, vals=vals)
            return on_sat
        if err != 0:
            ob.prove("an error code is returned only for invalid input", z3.Not(valid), pc, axioms=ax, on_sat=on_sat_factory('reject'), domain='REAL+trig')
            continue
        ob.prove("accepted input is valid", valid, pc, axioms=ax, on_sat=on_sat_factory('accept'), domain='REAL+trig')
        # no division by zero / sqrt of a negative number for any accepted input
        for k_, b in enumerate(dom.divs):
            ob.prove("accepted input never divides by zero (denominator %d: %s)" % (k_, str(b)[:60]), b != 0, pc, axioms=ax, on_sat=on_sat_factory('div0'), domain='REAL+trig')
        for k_, sc in enumerate(dom.side):
            ob.prove("accepted input never takes the square root of a negative number (%d)" % k_, sc, pc + [b != 0 for b in dom.divs], axioms=ax, on_sat=on_sat_factory('sqrtneg'), domain='REAL+trig')
        # defining relations (denominators non-zero assumed from here on: the failing cases are reported above)
        nz = [b != 0 for b in dom.divs]
        e, a, G = v['e'], v['a'], v['G']; mu = G * (v['m'] + v['Mp'])
        X = [dom.z(out.get(c)) - P0[c] for c in ('x', 'y', 'z')]; U = [dom.z(out.get(c)) - P0[c] for c in ('vx', 'vy', 'vz')]
        r2 = sum(c * c for c in X); v2 = sum(c * c for c in U)
        ob.prove("r^2 (1 + e cos f)^2 == a^2 (1-e^2)^2", r2 * (1 + e * cf) ** 2 == a * a * (1 - e * e) ** 2, pc + nz, axioms=ax, on_sat=on_sat_factory('relation'), domain='REAL+trig')
        h = [X[1] * U[2] - X[2] * U[1], X[2] * U[0] - X[0] * U[2], X[0] * U[1] - X[1] * U[0]]
        ob.prove("|h|^2 == mu a (1-e^2)", sum(c * c for c in h) == mu * a * (1 - e * e), pc + nz, axioms=ax, on_sat=on_sat_factory('relation'), domain='REAL+trig')
        ci = dom.sincos(dom.z(v['inc']))[1]
        ob.prove("h_z^2 == cos^2(inc) |h|^2", h[2] * h[2] == ci * ci * sum(c * c for c in h), pc + nz, axioms=ax, on_sat=on_sat_factory('relation'), domain='REAL+trig')
        ob.prove("vis-viva: v^2 a (1-e^2) == mu (1 + 2 e cos f + e^2)", v2 * a * (1 - e * e) == mu * (1 + 2 * e * cf + e * e), pc + nz, axioms=ax, on_sat=on_sat_factory('relation'), domain='REAL+trig')
        ob.prove("mass is passed through", dom.z(out.get('m')) == v['m'], pc, domain='REAL')
        ob.witness("accept path", pc + nz, axioms=ax)
    return rep

def native_from_orbit(vals, kind):
    N_ = nat(); L = N_.L; psz = L.structs['reb_particle']['size']
    class Pt(ctypes.Structure): _fields_ = [('b', ctypes.c_ubyte * psz)]
    f = N_.lib.reb_particle_from_orbit_err; f.restype = Pt
    f.argtypes = [ctypes.c_double, Pt] + [ctypes.c_double] * 7 + [ctypes.POINTER(ctypes.c_int)]
    def call(e, a, fa, Mp):
        prim = Pt(); pv = NView(N_, ctypes.addressof(prim), 'reb_particle'); pv.set('m', Mp)
        err = ctypes.c_int(0)
        p = f(vals['G'] if vals['G'] > 0 else 1.0, prim, max(vals['m'], 0.0), a, e, vals['inc'], vals['Omega'], vals['omega'], fa, ctypes.byref(err))
        pv2 = NView(N_, ctypes.addressof(p), 'reb_particle')
        return err.value, [pv2.get(c) for c in ('x', 'y', 'z', 'vx', 'vy', 'vz')]
    if kind == 'div0' or kind == 'sqrtneg' or kind == 'accept':
        # the model is a real-number witness; look for a nearby double input that is accepted and yields a non-finite particle
        cands = []
        e0, a0 = vals['e'], vals['a']
        if abs(a0) < 1e-300: cands.append((min(max(e0, 0.0), 0.5) if e0 < 1 else 0.5, 0.0, vals['f'], 'a == 0'))
        if abs(1 + e0 * vals.get('cosf', 0)) < 1e-6:
            import random
            rnd = random.Random(7)
            for _ in range(4000):
                fa = rnd.uniform(1.7, 3.1); c = math.cos(fa)
                if c >= 0: continue
                e = -1.0 / c
                if e * math.cos(fa) == -1.0 and e > 1: cands.append((e, -abs(a0) if a0 else -1.0, fa, 'e cos f == -1')); break
        for e, a, fa, why in cands:
            err, p = call(e, a, fa, max(vals['Mp'], 1.0))
            if err == 0 and any((x != x) or abs(x) == float('inf') for x in p):
                return True, "reb_particle_from_orbit_err(a=%r, e=%r, f=%r) returns err=0 and the non-finite particle %r" % (a, e, fa, p), 'C11:from_orbit:accepts-degenerate:' + why.replace(' ', '')
        return False, "no accepted double input with a non-finite result found near the model", ''
    return False, "relation/branch counterexamples are not replayed natively", ''

def run_M_to_E(u):
    rep = Report(); hyper = u['hyper']
    label = "reb_M_to_E %s " % ('hyperbolic' if hyper else 'elliptic')
    prover = Prover(t_inproc_ms=10000, use_external=False)
    def run(ctx):
        dom = Real(); I = new_interp(dom, ctx); I.loop_bound = 2
        events = []
        orig_libm = dom.libm
        def libm(name, args):
            r = orig_libm(name, args)
            if name in ('fmod', 'sin', 'sinh'): events.append((name, r if name == 'fmod' else args[0]))
            return r
        dom.libm = libm
        e, M = dom.fresh('e'), dom.fresh('M')
        ctx.assume(e > 1 if hyper else z3.And(e >= 0, e < 1))
        try:
            I.call('@reb_M_to_E', [e, M]); done = True
        except BoundExceeded:
            done = False
        return I, dom, e, M, done, events
    ex = Explorer(run, max_paths=64, timeout_ms=3000); ex.explore()
    rep.queries += ex.nqueries; rep.solver_time += ex.qtime
    for ctx, (I, dom, e, M, done, events) in ex.results:
        rep.paths += 1; rep.add_interp(I)
        ob = Obligations(rep, prover, label + "path%d " % rep.paths)
        def on_sat(model):
            ev, Mv = float(model_value(model, e)), float(model_value(model, M))
            g = nat().lib.reb_M_to_E; g.restype = ctypes.c_double; g.argtypes = [ctypes.c_double, ctypes.c_double]
            r = g(ev, Mv)
            return (r != r), 'C11:M_to_E:%s:M==%s' % ('hyperbolic' if hyper else 'elliptic', '0' if Mv == 0 else 'x'), "reb_M_to_E(e=%r, M=%r) = %r" % (ev, Mv, r), dict(kind='M_to_E', e=ev, M=Mv)
        if not hyper:
            # the anomaly handed to the iteration: result of the last fmod before the first sin (the code reduces M 'to avoid numerical
            # artefacts for negative numbers'; the start values E = M resp. E = pi are only safe for a reduced anomaly in [0, 2 pi))
            red = None
            for nm, v in events:
                if nm == 'sin': break
                if nm == 'fmod': red = v
            def on_sat_red(model):
                bad, detail = native_kepler_grid()
                return bad, 'C11:M_to_E:reduction', detail, dict(kind='M_to_E_grid')
            from fractions import Fraction as _F
            if red is None: ob.prove("the mean anomaly is reduced before the iteration", False, [], on_sat=on_sat_red, domain='control')
            else: ob.prove("the reduced mean anomaly lies in [0, 2 pi) for EVERY M", z3.And(dom.z(red) >= 0, dom.z(red) < 2 * z3.RealVal(_F(math.pi))), list(ctx.pc), axioms=dom.axioms, on_sat=on_sat_red, domain='REAL + fmod (integer quotient)')
        seen = set()
        for b in dom.divs:
            if b.get_id() in seen: continue
            seen.add(b.get_id())
            # 1 - e cos E (resp. 1 - e cosh E) vanishing is a property of the iterate, not of the input: only input-determined denominators are claimed
            if 'cos' in str(b): continue
            ob.prove("no division by zero for any valid (e, M): denominator %s" % str(b)[:50], b != 0, list(ctx.pc), axioms=dom.axioms, on_sat=on_sat, domain='REAL')
    return rep

def native_kepler_grid():
    """native reb_M_to_E on a grid of bound orbits and (mostly negative, several revolutions) mean anomalies: Kepler's equation must hold"""
    g = nat().lib.reb_M_to_E; g.restype = ctypes.c_double; g.argtypes = [ctypes.c_double, ctypes.c_double]
    bad = []; n = 0
    for e in (0.1, 0.5, 0.79, 0.8, 0.85, 0.9, 0.95, 0.99):
        for k in range(4000):
            M = -20.0 + 0.0085 * k
            E = g(e, M); n += 1
            res = math.fmod(E - e * math.sin(E) - M, 2 * math.pi)
            res = min(abs(res), abs(abs(res) - 2 * math.pi))
            if not res < 1e-9: bad.append((e, M, E, res))
    return bool(bad), "native reb_M_to_E on %d (e, M) pairs with M in [-20, 14]: %s" % (n, ("%d do not satisfy Kepler's equation, first (e, M, E, residual) = %r" % (len(bad), bad[0])) if bad else "all satisfy Kepler's equation to 1e-9")

def run_mod2pi(u):
    rep = Report(); rep.paths = 1
    dom = Real(); ctx = PathCtx(); I = new_interp(dom, ctx)
    f = dom.fresh('f'); r = dom.z(I.call('@reb_mod2pi', [f]))
    rep.add_interp(I)
    ob = Obligations(rep, Prover(t_inproc_ms=10000, use_external=False), 'reb_mod2pi ')
    pi2 = z3.RealVal(Fraction(2 * math.pi))
    ob.prove("0 <= mod2pi(f) < 2 pi", z3.And(r >= 0, r < pi2), list(dom.axioms), domain='REAL (fmod by its defining relation)')
    k = z3.Int('k')
    qs = [t for t in (z3.Int('fmodq!1'), z3.Int('fmodq!2'))]
    ob.prove("mod2pi(f) - f is a whole multiple of 2 pi", r - f == z3.ToReal(1 - qs[0] - qs[1]) * pi2, list(dom.axioms), domain='REAL')
    g = nat().lib.reb_mod2pi; g.restype = ctypes.c_double; g.argtypes = [ctypes.c_double]
    for x in (-7.0, -1e-3, 0.0, 3.0, 6.283185307179586, 100.0):
        y = g(x); rep.replays += 1
        if not (0 <= y < 2 * math.pi + 1e-15) or abs(math.remainder(y - x, 2 * math.pi)) > 1e-9: rep.errors.append("native reb_mod2pi(%r) = %r" % (x, y))
    return rep

TWO_PI = 2 * math.pi
OEL = ['d', 'v', 'h', 'P', 'n', 'a', 'e', 'inc', 'Omega', 'omega', 'pomega', 'f', 'M', 'l', 'theta', 'T']

def path_class(inc, e):
    return ('planar' if (inc < 1e-8 or inc > math.pi - 1e-8) else 'inclined', 'prograde' if inc < math.pi / 2 else 'retrograde', 'eccentric' if e > 1e-8 else 'circular', 'bound' if e < 1 else 'unbound')

def native_orbit(p, prim, G=1.0):
    """native reb_orbit_from_particle_err on particle dicts -> (err, dict of elements)"""
    N_ = nat(); L = N_.L; psz = L.structs['reb_particle']['size']; osz = L.structs['reb_orbit']['size']
    class Pt(ctypes.Structure): _fields_ = [('b', ctypes.c_ubyte * psz)]
    class Ob(ctypes.Structure): _fields_ = [('b', ctypes.c_ubyte * osz)]
    f = N_.lib.reb_orbit_from_particle_err; f.restype = Ob; f.argtypes = [ctypes.c_double, Pt, Pt, ctypes.POINTER(ctypes.c_int)]
    a, b = Pt(), Pt()
    for st, d in ((a, p), (b, prim)):
        v = NView(N_, ctypes.addressof(st), 'reb_particle')
        for k, x in d.items(): v.set(k, x)
    err = ctypes.c_int(0)
    o = f(G, a, b, ctypes.byref(err))
    ov = NView(N_, ctypes.addressof(o), 'reb_orbit')
    return err.value, {k: ov.get(k) for k in OEL}

def native_particle(G, Mp, m, a, e, inc, Omega, omega, f):
    N_ = nat(); L = N_.L; psz = L.structs['reb_particle']['size']
    class Pt(ctypes.Structure): _fields_ = [('b', ctypes.c_ubyte * psz)]
    fn = N_.lib.reb_particle_from_orbit_err; fn.restype = Pt
    fn.argtypes = [ctypes.c_double, Pt] + [ctypes.c_double] * 7 + [ctypes.POINTER(ctypes.c_int)]
    prim = Pt(); NView(N_, ctypes.addressof(prim), 'reb_particle').set('m', Mp)
    err = ctypes.c_int(0)
    p = fn(G, prim, m, a, e, inc, Omega, omega, f, ctypes.byref(err))
    pv = NView(N_, ctypes.addressof(p), 'reb_particle')
    return err.value, {c: pv.get(c) for c in ('x', 'y', 'z', 'vx', 'vy', 'vz', 'm')}

def angle_off(x):
    """distance of x from the nearest multiple of 2 pi"""
    r = math.fmod(x, TWO_PI)
    return min(abs(r), abs(abs(r) - TWO_PI))

def relation_defects(o):
    sg = 1.0 if o['inc'] < math.pi / 2 else -1.0
    out = []
    if angle_off(o['pomega'] - o['Omega'] - sg * o['omega']) > 1e-7: out.append('pomega = Omega %s omega' % ('+' if sg > 0 else '-'))
    if angle_off(o['theta'] - o['pomega'] - sg * o['f']) > 1e-7: out.append('theta = pomega %s f' % ('+' if sg > 0 else '-'))
    if o['e'] > 1e-8 and angle_off(o['l'] - o['pomega'] - sg * o['M']) > 1e-7: out.append('l = pomega %s M' % ('+' if sg > 0 else '-'))
    for k in ('f', 'l', 'M', 'theta', 'omega'):
        if not (0 <= o[k] < TWO_PI + 1e-12): out.append('%s in [0, 2pi)' % k)
    return out

_POOL = None
def pool():
    """native representatives of every path class of reb_orbit_from_particle_err: particles built by the native
    reb_particle_from_orbit_err from an element grid, classified by the elements the native inverse reports"""
    global _POOL
    if _POOL is None:
        _POOL = {}
        for inc in (0.0, 3e-9, 0.4, 1.3, math.pi / 2 + 0.3, 2.8, math.pi - 3e-9, math.pi):
            for e, a in ((0.0, 1.3), (3e-9, 1.3), (0.3, 0.8), (0.85, 2.0), (1.7, -1.1)):
                for Om, om, f in ((0.3, 0.9, 0.5), (2.5, 4.0, 3.9), (5.1, 0.2, 2.2), (0.0, 1.1, 6.0), (4.4, 5.9, 1.0)):
                    if e > 1 and abs(f) > 2.0: f = 0.7 * (1 if f < 3.14 else -1)
                    err, p = native_particle(1.0, 1.0, 1e-3, a, e, inc, Om, om, f)
                    if err: continue
                    err2, o = native_orbit(p, dict(m=1.0))
                    if err2: continue
                    _POOL.setdefault(path_class(o['inc'], o['e']), []).append((p, o, dict(a=a, e=e, inc=inc, Omega=Om, omega=om, f=f)))
    return _POOL

def native_to_orbit(cls):
    """replay on the native representatives of a path class"""
    bad = []
    for p, o, el in pool().get(tuple(cls), []):
        d = relation_defects(o)
        # round trip of the shape elements through the native pair from_orbit -> orbit_from_particle
        if abs(o['a'] - el['a']) > 1e-9 * abs(el['a']): d.append('a read back')
        if abs(o['e'] - el['e']) > 1e-9: d.append('e read back')
        if abs(o['inc'] - el['inc']) > 1e-7: d.append('inc read back')
        if d: bad.append((el, d, {k: o[k] for k in ('inc', 'Omega', 'omega', 'pomega', 'f', 'theta', 'l', 'M')}))
    n = len(pool().get(tuple(cls), []))
    return bool(bad), "native reb_orbit_from_particle on %d %s orbits: %s" % (n, '/'.join(cls), ("defining relation violated: %r" % (bad[0],)) if bad else "all defining relations hold")

class Lineariser:
    """abstraction for obligations that are linear in the atoms: every application of an uninterpreted function (sqrt, inv, acos2,
    sin, ...) and every genuinely non-linear product / power / division is replaced by a fresh real constant (the same term always
    by the same constant).  Proving the abstracted obligation proves the original (the abstraction only forgets facts)."""
    def __init__(s): s.cache = {}; s.n = 0
    def fresh(s, t):
        s.n += 1; return z3.Real('lin!%d' % s.n)
    def __call__(s, t):
        t = z3.simplify(t) if z3.is_expr(t) else t
        return s.go(t)
    def go(s, t):
        k = t.get_id()
        if k in s.cache: return s.cache[k][1]
        r = s._go(t); s.cache[k] = (t, r); return r           # keep t alive: z3 recycles ast ids
    def _go(s, t):
        if z3.is_const(t) or z3.is_rational_value(t) or z3.is_int_value(t): return t
        kind = t.decl().kind(); ch = t.children()
        if kind == z3.Z3_OP_UNINTERPRETED: return s.fresh(t) if t.sort() == z3.RealSort() else t
        if kind == z3.Z3_OP_MUL:
            nonnum = [c for c in ch if not (z3.is_rational_value(c) or z3.is_int_value(c))]
            if len(nonnum) > 1 and not all(c.sort() == z3.IntSort() for c in nonnum) and not (len(nonnum) == 2 and any(c.decl().kind() == z3.Z3_OP_TO_REAL for c in nonnum) and False): return s.fresh(t)
        if kind in (z3.Z3_OP_POWER, z3.Z3_OP_DIV) and not (kind == z3.Z3_OP_DIV and (z3.is_rational_value(ch[1]))): return s.fresh(t)
        nch = [s.go(c) for c in ch]
        return t.decl()(*nch) if nch else t

def run_to_orbit(u):
    """reb_orbit_from_particle_err from LLVM IR, all paths, symbolic particle and primary.  acos2 (the code's own arccos-with-
    disambiguation helper) is an uninterpreted function: the relations proved hold whatever it returns."""
    rep = Report(); label = "orbit_from_particle_err "
    prover = Prover(t_inproc_ms=u.get('t_ms', 10000), use_external=u.get('ext', False), t_ext_s=30)
    L = build.layout(); psz = L.structs['reb_particle']['size']; osz = L.structs['reb_orbit']['size']
    def run(ctx):
        dom = Real(); I = new_interp(dom, ctx)
        I.stubs['@acos2'] = lambda I_, a, b, c: dom.fn('acos2', 3)(dom.z(a), dom.z(b), dom.z(c))
        G = dom.fresh('G'); ctx.assume(G > 0)
        P = {}
        pp = I.mem.alloc(psz, 'p', 'harness', zero=True); pr = I.mem.alloc(psz, 'primary', 'harness', zero=True)
        for tag, obj in (('p', pp), ('q', pr)):
            v = SimView(I, obj, 'reb_particle')
            for c in ('x', 'y', 'z', 'vx', 'vy', 'vz', 'm'):
                P[(tag, c)] = dom.fresh('%s_%s' % (tag, c)); v.set(c, P[(tag, c)])
        ctx.assume(P[('p', 'm')] >= 0); ctx.assume(P[('q', 'm')] >= 0)
        out = I.mem.alloc(osz, 'orbit', 'harness', zero=True); err = I.mem.alloc(4, 'err', 'harness', zero=True)
        I.call('@reb_orbit_from_particle_err', [out, G, pp, pr, err])
        return I, dom, G, P, SimView(I, out, 'reb_orbit'), I.mem.load(err, I32)
    ex = Explorer(run, max_paths=200, timeout_ms=150)         # feasibility is only a pruning aid here: unknown = keep the path
    try: ex.explore()
    except BoundExceeded as e: rep.bound_exceeded.append(label + str(e))
    rep.queries += ex.nqueries; rep.solver_time += ex.qtime
    from fractions import Fraction
    done_dv = []
    PI = z3.RealVal(Fraction(math.pi)); PI2 = 2 * PI          # the code's M_PI, exactly
    for ctx, (I, dom, G, P, out, err) in ex.results:
        rep.paths += 1; rep.add_interp(I)
        ob = Obligations(rep, prover, label + "path%d err=%s " % (rep.paths, err))
        pc = list(ctx.pc); ax = list(dom.axioms); nz = [b != 0 for b in dom.divs]
        d2 = sum((P[('p', c)] - P[('q', c)]) ** 2 for c in ('x', 'y', 'z'))
        if err != 0:
            ob.prove("an error code is returned only without a primary mass or on top of the primary", z3.Or(P[('q', 'm')] <= z3.RealVal('1e-308'), d2 <= z3.RealVal('1e-308') ** 2), pc, axioms=ax, domain='REAL')
            continue
        o = {k: dom.z(out.get(k)) for k in OEL}
        def mk(model_terms=(o['inc'], o['e'])):
            def on_sat(model):
                inc = float(model_value(model, model_terms[0]) or 0.0); e = float(model_value(model, model_terms[1]) or 0.0)
                cls = path_class(inc, e)
                ok, detail = native_to_orbit(cls)
                return ok, 'C11:to_orbit:' + '/'.join(cls), detail, dict(kind='to_orbit', cls=list(cls))
            return on_sat
        lin = Lineariser()
        lpc = [lin(c) for c in pc + ax]
        pro = o['inc'] < PI / 2
        def cong(t): return z3.IsInt(t / PI2)
        ECC = z3.RealVal(Fraction(1e-8))                      # the code's MIN_ECC, exactly
        # the prograde / retrograde case split is done here (two obligations) rather than with an if-then-else inside IsInt
        for nm, sg, side in (('prograde', 1, pro), ('retrograde', -1, z3.Not(pro))):
            A = lpc + [lin(side)]
            ob.prove("%s: pomega == Omega %s omega modulo 2 pi" % (nm, '+' if sg > 0 else '-'), lin(cong(o['pomega'] - o['Omega'] - sg * o['omega'])), A, on_sat=mk(), domain='LRA+LIA after abstraction of non-linear terms and uninterpreted atoms')
            ob.prove("%s: theta == pomega %s f modulo 2 pi" % (nm, '+' if sg > 0 else '-'), lin(cong(o['theta'] - o['pomega'] - sg * o['f'])), A, on_sat=mk(), domain='LRA+LIA after abstraction of non-linear terms and uninterpreted atoms')
            ob.prove("%s: l == pomega %s M modulo 2 pi when e > MIN_ECC" % (nm, '+' if sg > 0 else '-'), lin(cong(o['l'] - o['pomega'] - sg * o['M'])), A + [lin(o['e'] > ECC)], on_sat=mk(), domain='LRA+LIA after abstraction of non-linear terms and uninterpreted atoms')
        for k in ('f', 'l', 'M', 'theta', 'omega'):
            ob.prove("%s is reported in [0, 2 pi)" % k, lin(z3.And(o[k] >= 0, o[k] < PI2)), lpc, on_sat=mk(), domain='REAL+Int (linearised)')
        if not done_dv:
          done_dv.append(1)          # the same terms on every path: once
          ob.prove("d^2 == |r - r_primary|^2 and v^2 == |v - v_primary|^2", z3.And(o['d'] * o['d'] == d2, o['v'] * o['v'] == sum((P[('p', c)] - P[('q', c)]) ** 2 for c in ('vx', 'vy', 'vz'))), [], axioms=ax, domain='REAL')
        ob.witness("path (linearised)", lpc)
    # every path class has native representatives and they satisfy the relations (also the reachability twin of the replays)
    for cls, items in sorted(pool().items()):
        bad, detail = native_to_orbit(cls); rep.replays += 1
        if bad: rep.violations.append(dict(key='C11:to_orbit:' + '/'.join(cls), what=detail, replay=dict(kind='to_orbit', cls=list(cls)), obligation=label + 'native twin'))
        else: rep.witnesses += 1
    return rep

def worker(u):
    return {'from_orbit': run_from_orbit, 'M_to_E': run_M_to_E, 'mod2pi': run_mod2pi, 'to_orbit': run_to_orbit}[u['what']](u)

def replay(data):
    if data['kind'] == 'to_orbit': return native_to_orbit(data['cls'])
    if data['kind'] == 'M_to_E_grid': return native_kepler_grid()
    if data['kind'] == 'M_to_E':
        g = nat().lib.reb_M_to_E; g.restype = ctypes.c_double; g.argtypes = [ctypes.c_double, ctypes.c_double]
        r = g(data['e'], data['M']); return (r != r), "reb_M_to_E(e=%r, M=%r) = %r" % (data['e'], data['M'], r)
    r = native_from_orbit(data['vals'], data['sub']); return r[0], r[1]

def main():
    tier = os.environ.get('VERIF_TIER') or (sys.argv[1] if len(sys.argv) > 1 else 'quick')
    t0 = time.time()
    build.module(); build.layout(); build.build_native()
    us = [dict(what='from_orbit', t_ms=10000 if tier == 'quick' else 60000, t_ext=20 if tier == 'quick' else 120), dict(what='M_to_E', hyper=0), dict(what='M_to_E', hyper=1), dict(what='mod2pi'), dict(what='to_orbit', t_ms=10000 if tier == 'quick' else 60000)]
    rep = run_units(us, worker)
    code = finish(PID, tier, rep, t0,
        bounds=dict(functions=['reb_particle_from_orbit_err', 'reb_orbit_from_particle_err (all 18 paths; acos2 stubbed as uninterpreted)', 'reb_M_to_E (start value + first Newton update)', 'reb_mod2pi'], newton_iterations=2),
        assumptions=['G > 0, m >= 0 (documented)', 'angles enter through (sin, cos) atoms with sin^2+cos^2=1', 'real arithmetic'],
        outside=['convergence and accuracy of the Kepler / Pal Newton iterations', 'reb_orbit_from_particle: values of the inverse trigonometric functions (acos2 is an uninterpreted function; the relations among the reported angles are proved for whatever it returns) and hence the symbolic round trip; vis-viva for the reported a (NRA query inconclusive, dropped)', 'the Pal-element constructors', 'equivalence of the Python and C front ends (argument combination logic)', 'behaviour within rounding of the planar/circular thresholds'],
        domain_note='REAL + trig atoms; z3 NRA portfolio')
    sys.exit(code)

if __name__ == '__main__':
    main()
