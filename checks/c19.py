"""C19 — concurrent simulations do not interfere; serving is trajectory-neutral (the sequential obligations; DESIGN 5/C19).

The schedule quantifier of the property ("for all thread interleavings") is NOT decided by anything installed here.  What is
decided are the sequential facts from which non-interference follows by a frame argument (stated, not solver-proved):
 (1) footprint confinement: on every run (symbolic particle data in the UF domain for the fixed-step integrators, i.e. for all
     inputs on the path; concrete data for the adaptive ones) one step of every integrator and create / copy / save / load /
     free write to no mutable global or function-static object and read none except reb_sigint and constant tables (the
     memory model logs every access), and reach no non-reentrant libc function;
 (2) serving is trajectory-neutral: reb_simulation_save_to_stream (what the web server sends) on a mid-run state followed by a
     step gives identical terms to the step without it (UF twin), for every integrator configuration;
 (3) lock discipline: in reb_simulation_integrate with a server attached, reb_simulation_step and the heartbeat run only while
     the server mutex is held and the mutex is released once per iteration (real code, model mutex that rejects relock /
     unlock-without-lock)."""
import sys, os, time, ctypes
sys.path.insert(0, os.path.dirname(os.path.dirname(os.path.abspath(__file__))))
sys.path.insert(0, os.path.dirname(os.path.abspath(__file__)))
import z3
from llsym import build
from llsym.harness import *
from llsym.check import *
import persist as P
import c05

PID = 'C19'
REENTRANT_OK = {'@atoi', '@strncpy', '@strtol', '@strdup', '@strchr', '@strcasecmp', '@strncasecmp', '@strtok_r', '@rand_r', '@malloc', '@calloc', '@realloc', '@free', '@memcmp', '@strlen', '@strcmp', '@strncmp', '@strcpy', '@strcat', '@sprintf', '@snprintf', '@asprintf', '@printf', '@fprintf',
                '@fopen', '@fclose', '@fwrite', '@fread', '@fseek', '@ftell', '@fflush', '@stat', '@gettimeofday', '@usleep', '@getpid', '@qsort', '@nan', '@fmemopen', '@signal',
                '@pthread_mutex_lock', '@pthread_mutex_unlock', '@reb_simulation_warning', '@reb_simulation_error', '@reb_message', '@reb_whfast_kepler_solver',
                '@sqrt', '@cbrt', '@sin', '@cos', '@tan', '@atan', '@atan2', '@acos', '@acosh', '@sinh', '@cosh', '@tanh', '@exp', '@log', '@log10', '@pow', '@fmod', '@floor', '@fabs'}
NONREENTRANT = {'@rand', '@srand', '@strtok', '@localtime', '@gmtime', '@asctime', '@ctime', '@getenv', '@setenv', '@strerror', '@tmpnam', '@readdir'}
SYMBOLIC_CFGS = ['leapfrog', 'whfast', 'whfast_unsync', 'whfast_dh_kernel', 'saba', 'janus', 'sei', 'none']

def run_footprint(u):
    rep = Report(); cfgname = u['cfg']; symbolic = cfgname in SYMBOLIC_CFGS
    label = "footprint %s (%s data) " % (cfgname, 'symbolic' if symbolic else 'concrete')
    dom = UF(); ctx = P.StrictCtx(); I = new_interp(dom, ctx); I.concrete_env = True
    if symbolic: I.stubs['@reb_whfast_kepler_solver'] = c05.kepler_uf_stub(dom)
    I.mem.log_globals = True
    try:
        sim = P.build_engine_state(I, P.CONFIGS[cfgname], 2)
        if symbolic:
            for i in range(2):
                for c in ('x', 'y', 'z', 'vx', 'vy', 'vz', 'm'): sim.particle(i).set(c, dom.fresh('p%d_%s' % (i, c)))
        I.call('@reb_simulation_step', [sim.ptr])
        cp = I.call('@reb_simulation_copy', [sim.ptr])
        I.call('@reb_simulation_step', [cp])
        P.save(I, sim, 'f.bin'); s2 = P.load(I, 'f.bin', 0)
        I.call('@reb_simulation_synchronize', [sim.ptr])
        I.call('@reb_simulation_free', [cp]); I.call('@reb_simulation_free', [s2.ptr])
    except P.NeedConcrete as e:
        rep.errors.append(label + "symbolic branch on %r" % (e.names,)); return rep
    rep.paths += 1; rep.add_interp(I)
    ob = Obligations(rep, Prover(t_inproc_ms=5000, use_external=False), label)
    writes = sorted({w[0] for w in I.mem.global_writes})
    reads = sorted(I.mem.global_reads)
    def on_sat(model):
        return True, 'C19:footprint:%s' % cfgname, "global objects written %r / read %r during step+copy+save+load+free" % (writes, reads), dict(cfg=cfgname, writes=writes, reads=reads)
    ob.prove("no mutable global or function-static object is written", not writes, [], on_sat=on_sat, domain='memory-model footprint log', sample=dict(writes=writes))
    # reads of globals that no run ever writes are race-free; they are recorded for the evidence
    rep.notes.append(label + "non-constant globals read (never written by any run): %s" % reads)
    called = {f for f in I.called if f in I.stubs}
    ob.prove("no non-reentrant libc function is reached", not (called & NONREENTRANT), [], on_sat=on_sat, domain='stub log')
    ext = {f for f in called if f in I.mod.declared}
    ob.prove("every external (libc/libm/pthread) function reached is on the re-entrant allow-list", ext <= REENTRANT_OK, [], on_sat=on_sat, domain='stub log', sample=dict(unexpected=sorted(ext - REENTRANT_OK)))
    rep.witnesses += 1
    return rep

def run_neutral(u):
    rep = Report(); cfgname = u['cfg']
    label = "save_to_stream neutral %s " % cfgname
    def run(serve):
        dom = UF(); ctx = P.StrictCtx(); I = new_interp(dom, ctx); I.concrete_env = True
        I.stubs['@reb_whfast_kepler_solver'] = c05.kepler_uf_stub(dom)
        sim = P.build_engine_state(I, P.CONFIGS[cfgname], 2)
        for i in range(2):
            for c in ('x', 'y', 'z', 'vx', 'vy', 'vz', 'm'): sim.particle(i).set(c, dom.fresh('p%d_%s' % (i, c)))
        if serve:
            bufp = I.mem.alloc(8, 'bufp', 'harness', zero=True); szp = I.mem.alloc(8, 'sizep', 'harness', zero=True)
            I.call('@reb_simulation_save_to_stream', [sim.ptr, bufp, szp])
            I.call('@free', [I.mem.load(bufp, PtrT(I8))])
        I.call('@reb_simulation_step', [sim.ptr])
        return I, dom, sim
    try:
        I1, d1, s1 = run(False); I2, d2, s2 = run(True)
    except P.NeedConcrete as e:
        rep.errors.append(label + "symbolic branch on %r" % (e.names,)); return rep
    rep.paths += 2; rep.add_interp(I1); rep.add_interp(I2)
    ob = Obligations(rep, Prover(t_inproc_ms=5000, use_external=False), label)
    tab = P.read_table(I1)
    a = {lc.label: (lc, lc.ptr(I1, s1)) for lc in P.locations(I1, s1, tab, [])}
    b = {lc.label: (lc, lc.ptr(I2, s2)) for lc in P.locations(I2, s2, tab, [])}
    def on_sat(model):
        ok, detail = native_neutral(cfgname)
        return ok, 'C19:serve-neutral:%s' % cfgname, detail, dict(cfg=cfgname)
    for lab, (lc, p1) in a.items():
        if lc.field.startswith('walltime') or p1 is None or lab not in b or b[lab][1] is None: continue
        x = I1.mem.load(p1, lc.ty); y = I2.mem.load(b[lab][1], lc.ty)
        if isinstance(x, Ptr): continue
        if all(isinstance(v_, z3.ExprRef) and P.symbols_of(v_) and all(n_.startswith('uninit!') for n_ in P.symbols_of(v_)) for v_ in (x, y)): continue     # never-written junk in both runs
        ob.prove("%s after a step is identical with and without a preceding save_to_stream" % lab, P.vals_equal(d1, x, y), [], on_sat=on_sat, domain='UF')
    ok, detail = native_neutral(cfgname); rep.replays += 1; rep.witnesses += 1
    if ok: rep.violations.append(dict(key='C19:serve-neutral:%s' % cfgname, what=detail, replay=dict(cfg=cfgname), obligation=label))
    return rep

_nat = None
def nat():
    global _nat
    if _nat is None: _nat = Native()
    return _nat

def native_neutral(cfgname):
    outs = []
    for serve in (False, True):
        ns = P.build_native_state(nat(), P.CONFIGS[cfgname], 3)
        for k in range(3):
            if serve:
                buf = ctypes.c_void_p(); sz = ctypes.c_size_t()
                f = nat().lib.reb_simulation_save_to_stream; f.argtypes = [ctypes.c_void_p, ctypes.POINTER(ctypes.c_void_p), ctypes.POINTER(ctypes.c_size_t)]; f.restype = None
                f(ns.addr, ctypes.byref(buf), ctypes.byref(sz))
                fr = nat().lib.reb_simulation_output_free_stream; fr.argtypes = [ctypes.c_void_p]; fr(buf)
            ns.call('reb_simulation_step')
        outs.append([ns.particle(i).getbits(c) for i in range(3) for c in ('x', 'y', 'z', 'vx', 'vy', 'vz')]); ns.free()
    return outs[0] != outs[1], "native %s: trajectory %s when a snapshot is taken before every step" % (cfgname, 'changes' if outs[0] != outs[1] else 'is bit-identical')

def run_locks(u):
    """integrate with a server attached: step and heartbeat only under the server mutex"""
    rep = Report(); label = "lock discipline "
    L = build.layout()
    def run(ctx):
        dom = Real(); I = new_interp(dom, ctx); I.concrete_env = True; I.loop_bound = 60
        sim = Sim(I); sim.add(m=1.0)
        sim.set('integrator', L.enumerators['REB_INTEGRATOR_LEAPFROG']); sim.set('gravity', L.enumerators['REB_GRAVITY_NONE'])
        sd = I.mem.alloc(L.structs['reb_server_data']['size'], 'server_data', 'heap', zero=True)
        sim.set('server_data', sd)
        t0, dt, tmax = dom.fresh('t0'), dom.fresh('dt'), dom.fresh('tmax')
        sim.set('t', t0); sim.set('dt', dt); ctx.assume(dt > 0); ctx.assume(z3.And(tmax > t0, tmax - t0 <= 3 * dt))
        events = []
        moff = L.off('reb_server_data', 'mutex')
        def hb(I_, r):
            events.append(('heartbeat', bool(getattr(I_, 'locks', {}).get((sd.obj, moff))))); return None
        I.stubs['@verif_hb'] = hb; sim.set('heartbeat', I.global_ptr('@verif_hb'))
        real_step = I.mod.funcs['@reb_simulation_step']
        def step(I_, r):
            events.append(('step', bool(getattr(I_, 'locks', {}).get((sd.obj, moff)))))
            return I_.run_function(real_step, [r])
        I.stubs['@reb_simulation_step'] = step
        I.call('@reb_simulation_integrate', [sim.ptr, tmax])
        return I, events, list(getattr(I, 'lock_log', [])), dict(getattr(I, 'locks', {}))
    ex = Explorer(run, max_paths=200, timeout_ms=3000)
    try: ex.explore()
    except BoundExceeded as e: rep.bound_exceeded.append(label + str(e))
    except MemError as e:
        rep.violations.append(dict(key='C19:locks', what="mutex misuse: %s" % e, replay={}, obligation=label))
    rep.queries += ex.nqueries; rep.solver_time += ex.qtime
    prover = Prover(t_inproc_ms=5000, use_external=False)
    for ctx, (I, events, log, locks) in ex.results:
        rep.paths += 1; rep.add_interp(I)
        ob = Obligations(rep, prover, label + "path%d " % rep.paths)
        steps = [e for e in events if e[0] == 'step']
        ob.prove("every reb_simulation_step runs with the server mutex held", all(h for _, h in steps) and len(steps) >= 1, [], domain='lock log')
        hbs = [h for k, h in events if k == 'heartbeat']
        ob.prove("every heartbeat after the first runs with the mutex held", all(hbs[1:]), [], domain='lock log')
        ob.prove("one lock and one unlock per iteration, none held at return", len([1 for k, _ in log if k == 'lock']) == len(steps) and len([1 for k, _ in log if k == 'unlock']) == len(steps) and not any(locks.values()), [], domain='lock log')
    return rep

def socket_env(I, request):
    """scripted socket environment for one run of the real reb_server_start: one connection whose byte stream is `request`, then
    accept() fails (which is how the main thread stops the server) and the function returns"""
    from llsym import stubs as S
    fs = S._fs(I)
    node = S.file_node(I, 'socket:7', True); I.mem.set_bytes(node.ptr, request); node.length = len(request)
    fs.files['rebound.html'] = S.file_node(I, 'rebound.html', True)
    state = dict(accepts=0, node=node)
    I.stubs['@access'] = lambda I_, p, m: 0
    for f in ('@pthread_setcancelstate', '@pthread_setcanceltype', '@setsockopt', '@bind', '@listen', '@close', '@system'): I.stubs[f] = lambda I_, *a: 0
    I.stubs['@socket'] = lambda I_, *a: 5
    I.stubs['@htonl'] = lambda I_, v: v; I.stubs['@htons'] = lambda I_, v: v
    def accept(I_, *a):
        state['accepts'] += 1
        return 7 if state['accepts'] == 1 else 0xffffffff
    I.stubs['@accept'] = accept
    def fdopen(I_, fd, mode):
        h = S._open(I_, node, 'r+'); h_ = S._fs(I_).handles[h.obj]; h_['append'] = False
        # a socket stream: what is written does not land behind the read position of the request but goes to the peer
        out = S.file_node(I_, 'socket:7:out', True); state['out'] = out; state['handle'] = h.obj
        return h
    I.stubs['@fdopen'] = fdopen
    real_fwrite = I.stubs.get('@fwrite') or S.st_fwrite
    def fwrite(I_, p, size, n, f):
        if isinstance(f, Ptr) and f.obj == state.get('handle'):
            hh = S._fs(I_).handles[f.obj]; keep = (hh['node'], hh['pos'])
            hh['node'] = state['out']; hh['pos'] = state['out'].length
            try: return S.st_fwrite(I_, p, size, n, f)
            finally: hh['node'], hh['pos'] = keep
        return S.st_fwrite(I_, p, size, n, f)
    I.stubs['@fwrite'] = fwrite
    def sscanf(I_, buf, fmt, *args):
        b = I_.mem.cstring(buf).decode('latin1'); f = I_.mem.cstring(fmt).decode()
        if f == "%s %s %s\n":
            parts = b.split()
            for dst, w in zip(args, parts[:3]): I_.mem.set_bytes(dst, w.encode('latin1') + b'\0')
            return min(3, len(parts))
        if f == "Content-Length: %s\n":
            if not b.startswith("Content-Length:"): return 0
            w = b[len("Content-Length:"):].split()
            if not w: return 0xffffffff
            I_.mem.set_bytes(args[0], w[0].encode() + b'\0'); return 1
        if f == "/keyboard/%d":
            if not b.startswith("/keyboard/"): return 0
            import re as _re
            m_ = _re.match(r'\s*([+-]?\d+)', b[len("/keyboard/"):])
            if not m_: return 0
            I_.mem.store(args[0], I32, int(m_.group(1)) & 0xffffffff); return 1
        raise Unsupported("sscanf format %r" % f)
    I.stubs['@__isoc99_sscanf'] = sscanf
    def strncasecmp(I_, a, b, n):
        x = I_.mem.cstring(a).decode('latin1').lower()[:n]; y = I_.mem.cstring(b).decode('latin1').lower()[:n]
        return 0 if x == y else (1 if x > y else 0xffffffff)
    I.stubs['@strncasecmp'] = strncasecmp
    def strtol(I_, p, end, base):
        import re as _re
        m_ = _re.match(r'\s*([+-]?\d+)', I_.mem.cstring(p).decode('latin1'))
        return (int(m_.group(1)) if m_ else 0) & 0xffffffffffffffff
    I.stubs['@strtol'] = strtol
    return state

def run_handler(u):
    """the real reb_server_start serving ONE scripted HTTP request against a simulation that has just taken a step (for the
    *_unsync configurations: in the middle of a deferred synchronisation): every persisted location of the simulation must be
    the same term before and after the request, the server mutex must be held exactly around the access to the simulation, and a
    /simulation response must be the header followed by exactly the bytes reb_simulation_save_to_stream produces afterwards"""
    rep = Report(); cfgname, uri = u['cfg'], u['uri']
    label = "server request %s on %s " % (uri, cfgname)
    L = build.layout()
    dom = UF(); ctx = P.StrictCtx(); I = new_interp(dom, ctx); I.concrete_env = True
    I.stubs['@reb_whfast_kepler_solver'] = c05.kepler_uf_stub(dom)
    sim = P.build_engine_state(I, P.CONFIGS[cfgname], 2)
    for i in range(2):
        for c in ('x', 'y', 'z', 'vx', 'vy', 'vz', 'm'): sim.particle(i).set(c, dom.fresh('p%d_%s' % (i, c)))
    try:
        I.call('@reb_simulation_step', [sim.ptr])
        sd = I.mem.alloc(L.structs['reb_server_data']['size'], 'server_data', 'heap', zero=True)
        sdv = SimView(I, sd, 'reb_server_data'); sdv.set('r', sim.ptr); sdv.set('port', 1234)
        sim.set('server_data', sd)
        tab = P.read_table(I)
        locs = list(P.locations(I, sim, tab, []))
        before = {}
        for lc in locs:
            p = lc.ptr(I, sim)
            if p is not None: before[lc.label] = (lc, I.mem.load(p, lc.ty))
        env = socket_env(I, ("GET %s HTTP/1.1\r\nHost: localhost\r\n\r\n" % uri).encode())
        moff = L.off('reb_server_data', 'mutex')
        I.lock_log = []
        I.call('@reb_server_start', [sd])
    except P.NeedConcrete as e:
        rep.errors.append(label + "symbolic branch on %r" % (e.names,)); return rep
    rep.paths += 1; rep.add_interp(I)
    ob = Obligations(rep, Prover(t_inproc_ms=5000, use_external=False), label)
    def on_sat(model):
        ok, detail = native_request(cfgname, uri)
        return ok, 'C19:request:%s:%s' % (uri, cfgname), detail, dict(kind='request', cfg=cfgname, uri=uri)
    n = 0
    for lab, (lc, x) in before.items():
        if lc.field.startswith('walltime') or lc.field.startswith('server_data'): continue
        if uri.startswith('/keyboard/') and lc.field == 'status': continue        # documented effect of the key commands (Q: quit, space: pause)
        p = lc.ptr(I, sim)
        if p is None:
            ob.prove("%s still exists after the request" % lab, False, [], on_sat=on_sat, domain='UF'); continue
        y = I.mem.load(p, lc.ty)
        if isinstance(x, Ptr) or isinstance(y, Ptr):
            ob.prove("%s (pointer) is unchanged by the request" % lab, isinstance(x, Ptr) and isinstance(y, Ptr) and (x.obj, x.off) == (y.obj, y.off), [], on_sat=on_sat, domain='UF'); continue
        n += 1
        ob.prove("%s is unchanged by serving the request" % lab, P.vals_equal(dom, x, y), [], on_sat=on_sat, domain='UF')
    log = list(getattr(I, 'lock_log', [])); locks = dict(getattr(I, 'locks', {}))
    nl = len([1 for k, _ in log if k == 'lock']); nu = len([1 for k, _ in log if k == 'unlock'])
    want = 1 if (uri == '/simulation' or uri.startswith('/keyboard/')) else 0
    ob.prove("the server mutex is taken and released exactly around the access to the simulation (%d time(s)) and not held at return" % want, nl == want and nu == want and not any(locks.values()), [], domain='lock log')
    out = env.get('out')
    if uri == '/simulation':
        hdr = I.mem.cstring(I.mem.load(I.global_ptr('@reb_server_header'), PtrT(I8)))
        bufp = I.mem.alloc(8, 'bufp', 'harness', zero=True); szp = I.mem.alloc(8, 'sizep', 'harness', zero=True)
        I.call('@reb_simulation_save_to_stream', [sim.ptr, bufp, szp])
        size = I.mem.load(szp, I64)
        ob.prove("response length == header + snapshot size", out is not None and out.length == len(hdr) + size, [], on_sat=on_sat, domain='control', sample=dict(response_bytes=out.length if out else None, header=len(hdr), snapshot=size))
        if out is not None and out.length == len(hdr) + size:
            from llsym import stubs as S
            ref = S.file_node(I, 'reference-response', True)
            I.mem.set_bytes(ref.ptr, hdr); I.mem.copy(Ptr(ref.ptr.obj, ref.ptr.off + len(hdr)), I.mem.load(bufp, PtrT(I8)), size); ref.length = len(hdr) + size
            la, lb, diff, conds = P.files_diff(I, 'socket:7:out', 'reference-response')
            ob.prove("the response is byte for byte the HTTP header followed by the snapshot reb_simulation_save_to_stream produces at this step boundary", la == lb and not diff, [], on_sat=on_sat, domain='UF bytes', sample=dict(differing_offsets=diff[:8]))
            for k_, e in conds[:200]: ob.prove("response byte %d equals the snapshot byte" % k_, e, [], on_sat=on_sat, domain='UF bytes')
    rep.witnesses += 1 if n else 0
    if not n: rep.vacuous.append(label + "no location compared")
    return rep

def native_request(cfgname, uri):
    """native: real server thread + a real HTTP request over the loopback interface against a simulation sitting between two steps;
    the continued trajectory must be bit-identical to that of a twin that was never asked"""
    import socket as pysock, time as _t, random
    outs = []; note = ''
    for serve in (False, True):
        ns = P.build_native_state(nat(), P.CONFIGS[cfgname], 3)
        try:
            ns.call('reb_simulation_step')
            if serve:
                port = 20000 + random.Random(os.getpid()).randrange(20000)
                f = nat().lib.reb_simulation_start_server; f.argtypes = [ctypes.c_void_p, ctypes.c_int]; f.restype = ctypes.c_int
                if f(ns.addr, port) != 0: return False, "native server could not be started (no loopback?)"
                try:
                    ok = False
                    for _ in range(50):
                        try:
                            c = pysock.create_connection(('127.0.0.1', port), timeout=2); ok = True; break
                        except OSError: _t.sleep(0.05)
                    if not ok: return False, "native server not reachable on the loopback interface"
                    c.sendall(("GET %s HTTP/1.1\r\nHost: localhost\r\n\r\n" % uri).encode())
                    data = b''
                    c.settimeout(2)
                    try:
                        while True:
                            chunk = c.recv(65536)
                            if not chunk: break
                            data += chunk
                    except OSError: pass
                    c.close(); note = "%d response bytes" % len(data)
                finally:
                    g = nat().lib.reb_simulation_stop_server; g.argtypes = [ctypes.c_void_p]; g.restype = None; g(ns.addr)
            for k in range(2): ns.call('reb_simulation_step')
            ns.call('reb_simulation_synchronize')
            outs.append([ns.particle(i).getbits(c) for i in range(3) for c in ('x', 'y', 'z', 'vx', 'vy', 'vz')])
        finally:
            ns.free()
    return outs[0] != outs[1], "native %s: trajectory %s when a client fetches %s between two steps (%s)" % (cfgname, 'changes' if outs[0] != outs[1] else 'is bit-identical', uri, note)

def run_neutral_native(u):
    """adaptive integrators cannot be run on symbolic data: serve-neutrality is checked on the concrete engine state (every persisted
    location identical before and after reb_simulation_save_to_stream, ground obligations) and by the native twin"""
    rep = Report(); cfgname = u['cfg']; label = "save_to_stream leaves the live simulation untouched (%s, concrete data) " % cfgname
    dom = Conc(); I = new_interp(dom, P.StrictCtx()); I.concrete_env = True
    sim = P.build_engine_state(I, P.CONFIGS[cfgname], 3)
    tab = P.read_table(I)
    before = {lc.label: (lc, I.mem.load(lc.ptr(I, sim), lc.ty)) for lc in P.locations(I, sim, tab, []) if lc.ptr(I, sim) is not None}
    bufp = I.mem.alloc(8, 'bufp', 'harness', zero=True); szp = I.mem.alloc(8, 'sizep', 'harness', zero=True)
    I.call('@reb_simulation_save_to_stream', [sim.ptr, bufp, szp])
    rep.paths += 1; rep.add_interp(I)
    ob = Obligations(rep, Prover(t_inproc_ms=2000, use_external=False), label)
    def on_sat(model):
        ok, detail = native_neutral(cfgname)
        return ok, 'C19:serve-neutral:%s' % cfgname, detail, dict(cfg=cfgname)
    after = {lc.label: lc for lc in P.locations(I, sim, tab, [])}
    for lab, (lc, x) in before.items():
        if lc.field.startswith('walltime'): continue
        lc2 = after.get(lab); p2 = lc2.ptr(I, sim) if lc2 is not None else None
        # arrays the integrator does not use beyond 3N may be dropped from the persisted set by the save (documented compression): only
        # locations that exist before AND after are compared, and the element counters are among them
        if p2 is None: continue
        y = I.mem.load(p2, lc.ty)
        if isinstance(x, Ptr) or isinstance(y, Ptr): continue
        same = (x == y) or (isinstance(x, float) and isinstance(y, float) and x != x and y != y)
        if (lc.field.endswith('N_allocated') or lc.label.startswith('count:ri_ias15')) and cfgname.startswith('ias15'):
            # the save may shrink IAS15's allocation count to what N particles (INCLUDING variational ones) need, never below
            same = same or (isinstance(y, int) and y >= 3 * sim.get('N'))
        ob.prove("%s unchanged by taking a snapshot" % lab, bool(same), [], on_sat=on_sat, domain='concrete engine state')
    ok, detail = native_neutral(cfgname); rep.replays += 1; rep.witnesses += 1
    if ok: rep.violations.append(dict(key='C19:serve-neutral:%s' % cfgname, what=detail, replay=dict(cfg=cfgname), obligation=label))
    return rep

def worker(u):
    if u['what'] == 'neutral_native': return run_neutral_native(u)
    return {'footprint': run_footprint, 'neutral': run_neutral, 'locks': run_locks, 'handler': run_handler}[u['what']](u)

def replay(data):
    if data.get('kind') == 'request': return native_request(data['cfg'], data['uri'])
    if 'writes' in data: return bool(data['writes']), "recorded footprint %r" % (data,)
    return native_neutral(data['cfg'])

def main():
    tier = os.environ.get('VERIF_TIER') or (sys.argv[1] if len(sys.argv) > 1 else 'quick')
    t0 = time.time()
    build.module(); build.layout(); build.build_native()
    cfgs = [c for c in P.CONFIGS if not P.CONFIGS[c].get('var')]
    us = [dict(what='footprint', cfg=c) for c in cfgs]
    us += [dict(what='neutral', cfg=c) for c in ['leapfrog', 'whfast', 'whfast_unsync', 'whfast_dh_kernel', 'saba', 'sei', 'none', 'janus']]
    us += [dict(what='neutral_native', cfg=c) for c in ('ias15', 'ias15_var', 'ias15_removed', 'bs', 'mercurius', 'trace')]
    us.append(dict(what='locks'))
    for c in (['whfast', 'whfast_unsync', 'saba', 'leapfrog'] if tier == 'quick' else ['leapfrog', 'whfast', 'whfast_unsync', 'whfast_dh_kernel', 'saba', 'sei', 'none', 'janus']):
        us.append(dict(what='handler', cfg=c, uri='/simulation'))
    us.append(dict(what='handler', cfg='whfast_unsync', uri='/keyboard/81')); us.append(dict(what='handler', cfg='whfast_unsync', uri='/nonexistent'))
    rep = run_units(us, worker)
    code = finish(PID, tier, rep, t0,
        bounds=dict(configurations=len(cfgs), particles=2, steps=1, integrate_iterations='<= 3'),
        assumptions=['frame argument (stated, not solver-proved): two simulations whose footprints are confined to their own heap objects commute at instruction granularity, whatever the schedule',
                     'footprints of adaptive integrators (IAS15, BS, MERCURIUS, TRACE) are observed on concrete data only', 'model mutex: relock and unlock-without-lock are errors'],
        outside=['THE INTERLEAVING QUANTIFIER ITSELF: pre-emption inside a step, the need_copy busy-wait, fairness, data races on status / messages between the server thread and the integration thread, the display thread, real sockets',
                 'request handling beyond one scripted request per run (/simulation, one /keyboard key, an unknown uri); POST bodies, screenshots'],
        domain_note='memory-model access logs; UF twin; REAL paths for the integrate loop')
    sys.exit(code)

if __name__ == '__main__':
    main()
