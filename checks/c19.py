"""C19 — concurrent simulations do not interfere; serving is trajectory-neutral (the sequential obligations; DESIGN 5/C19).

The schedule quantifier of the property ("for all thread interleavings") is NOT decided by anything installed here.  What is
decided are the sequential facts from which non-interference follows by a frame argument (stated, not solver-proved):
 (1) footprint confinement: on every run (symbolic particle data in the UF domain for the fixed-step integrators, i.e. for all
     inputs on the path; concrete data for the adaptive ones) one step of every integrator and create / copy / save / load /
     free write to no mutable global or function-static object and read none except reb_sigint and constant tables (the
     memory model logs every access), and reach no non-reentrant libc function;
 (2) serving is trajectory-neutral: reb_simulation_save_to_stream (what the web server sends) on a mid-run state followed by a
     step gives identical terms to the step without it (UF twin), for every integrator configuration;
 (3) lock discipline: in reb_simulation_integrate with a server attached, reb_simulation_step and the heartbeat run only while
     the server mutex is held and the mutex is released once per iteration (real code, model mutex that rejects relock /
     unlock-without-lock)."""
import sys, os, time, ctypes
sys.path.insert(0, os.path.dirname(os.path.dirname(os.path.abspath(__file__))))
sys.path.insert(0, os.path.dirname(os.path.abspath(__file__)))
import z3
from llsym import build
from llsym.harness import *
from llsym.check import *
import persist as P
import c05

PID = 'C19'
REENTRANT_OK = {'@atoi', '@strncpy', '@strtol', '@strdup', '@strchr', '@strcasecmp', '@strncasecmp', '@strtok_r', '@rand_r', '@malloc', '@calloc', '@realloc', '@free', '@memcmp', '@strlen', '@strcmp', '@strncmp', '@strcpy', '@strcat', '@sprintf', '@snprintf', '@asprintf', '@printf', '@fprintf',
                '@fopen', '@fclose', '@fwrite', '@fread', '@fseek', '@ftell', '@fflush', '@stat', '@gettimeofday', '@usleep', '@getpid', '@qsort', '@nan', '@fmemopen', '@signal',
                '@pthread_mutex_lock', '@pthread_mutex_unlock', '@reb_simulation_warning', '@reb_simulation_error', '@reb_message', '@reb_whfast_kepler_solver',
                '@sqrt', '@cbrt', '@sin', '@cos', '@tan', '@atan', '@atan2', '@acos', '@acosh', '@sinh', '@cosh', '@tanh', '@exp', '@log', '@log10', '@pow', '@fmod', '@floor', '@fabs'}
NONREENTRANT = {'@rand', '@srand', '@strtok', '@localtime', '@gmtime', '@asctime', '@ctime', '@getenv', '@setenv', '@strerror', '@tmpnam', '@readdir'}
SYMBOLIC_CFGS = ['leapfrog', 'whfast', 'whfast_unsync', 'whfast_dh_kernel', 'saba', 'janus', 'sei', 'none']

def run_footprint(u):
    rep = Report(); cfgname = u['cfg']; symbolic = cfgname in SYMBOLIC_CFGS
    label = "footprint %s (%s data) " % (cfgname, 'symbolic' if symbolic else 'concrete')
    dom = UF(); ctx = P.StrictCtx(); I = new_interp(dom, ctx); I.concrete_env = True
    if symbolic: I.stubs['@reb_whfast_kepler_solver'] = c05.kepler_uf_stub(dom)
    I.mem.log_globals = True
    try:
        sim = P.build_engine_state(I, P.CONFIGS[cfgname], 2)
        if symbolic:
            for i in range(2):
                for c in ('x', 'y', 'z', 'vx', 'vy', 'vz', 'm'): sim.particle(i).set(c, dom.fresh('p%d_%s' % (i, c)))
        I.call('@reb_simulation_step', [sim.ptr])
        cp = I.call('@reb_simulation_copy', [sim.ptr])
        I.call('@reb_simulation_step', [cp])
        P.save(I, sim, 'f.bin'); s2 = P.load(I, 'f.bin', 0)
        I.call('@reb_simulation_synchronize', [sim.ptr])
        I.call('@reb_simulation_free', [cp]); I.call('@reb_simulation_free', [s2.ptr])
    except P.NeedConcrete as e:
        rep.errors.append(label + "symbolic branch on %r" % (e.names,)); return rep
    rep.paths += 1; rep.add_interp(I)
    ob = Obligations(rep, Prover(t_inproc_ms=5000, use_external=False), label)
    writes = sorted({w[0] for w in I.mem.global_writes})
    reads = sorted(I.mem.global_reads)
    def on_sat(model):
        return True, 'C19:footprint:%s' % cfgname, "global objects written %r / read %r during step+copy+save+load+free" % (writes, reads), dict(cfg=cfgname, writes=writes, reads=reads)
    ob.prove("no mutable global or function-static object is written", not writes, [], on_sat=on_sat, domain='memory-model footprint log', sample=dict(writes=writes))
    # reads of globals that no run ever writes are race-free; they are recorded for the evidence
    rep.notes.append(label + "non-constant globals read (never written by any run): %s" % reads)
    called = {f for f in I.called if f in I.stubs}
    ob.prove("no non-reentrant libc function is reached", not (called & NONREENTRANT), [], on_sat=on_sat, domain='stub log')
    ext = {f for f in called if f in I.mod.declared}
    ob.prove("every external (libc/libm/pthread) function reached is on the re-entrant allow-list", ext <= REENTRANT_OK, [], on_sat=on_sat, domain='stub log', sample=dict(unexpected=sorted(ext - REENTRANT_OK)))
    rep.witnesses += 1
    return rep

def run_neutral(u):
    rep = Report(); cfgname = u['cfg']
    label = "save_to_stream neutral %s " % cfgname
    def run(serve):
        dom = UF(); ctx = P.StrictCtx(); I = new_interp(dom, ctx); I.concrete_env = True
        I.stubs['@reb_whfast_kepler_solver'] = c05.kepler_uf_stub(dom)
        sim = P.build_engine_state(I, P.CONFIGS[cfgname], 2)
        for i in range(2):
            for c in ('x', 'y', 'z', 'vx', 'vy', 'vz', 'm'): sim.particle(i).set(c, dom.fresh('p%d_%s' % (i, c)))
        if serve:
            bufp = I.mem.alloc(8, 'bufp', 'harness', zero=True); szp = I.mem.alloc(8, 'sizep', 'harness', zero=True)
            I.call('@reb_simulation_save_to_stream', [sim.ptr, bufp, szp])
            I.call('@free', [I.mem.load(bufp, PtrT(I8))])
        I.call('@reb_simulation_step', [sim.ptr])
        return I, dom, sim
    try:
        I1, d1, s1 = run(False); I2, d2, s2 = run(True)
    except P.NeedConcrete as e:
        rep.errors.append(label + "symbolic branch on %r" % (e.names,)); return rep
    rep.paths += 2; rep.add_interp(I1); rep.add_interp(I2)
    ob = Obligations(rep, Prover(t_inproc_ms=5000, use_external=False), label)
    tab = P.read_table(I1)
    a = {lc.label: (lc, lc.ptr(I1, s1)) for lc in P.locations(I1, s1, tab, [])}
    b = {lc.label: (lc, lc.ptr(I2, s2)) for lc in P.locations(I2, s2, tab, [])}
    def on_sat(model):
        ok, detail = native_neutral(cfgname)
        return ok, 'C19:serve-neutral:%s' % cfgname, detail, dict(cfg=cfgname)
    for lab, (lc, p1) in a.items():
        if lc.field.startswith('walltime') or p1 is None or lab not in b or b[lab][1] is None: continue
        x = I1.mem.load(p1, lc.ty); y = I2.mem.load(b[lab][1], lc.ty)
        if isinstance(x, Ptr): continue
        if all(isinstance(v_, z3.ExprRef) and P.symbols_of(v_) and all(n_.startswith('uninit!') for n_ in P.symbols_of(v_)) for v_ in (x, y)): continue     # never-written junk in both runs
        ob.prove("%s after a step is identical with and without a preceding save_to_stream" % lab, P.vals_equal(d1, x, y), [], on_sat=on_sat, domain='UF')
    ok, detail = native_neutral(cfgname); rep.replays += 1; rep.witnesses += 1
    if ok: rep.violations.append(dict(key='C19:serve-neutral:%s' % cfgname, what=detail, replay=dict(cfg=cfgname), obligation=label))
    return rep

_nat = None
def nat():
    global _nat
    if _nat is None: _nat = Native()
    return _nat

def native_neutral(cfgname):
    outs = []
    for serve in (False, True):
        ns = P.build_native_state(nat(), P.CONFIGS[cfgname], 3)
        for k in range(3):
            if serve:
                buf = ctypes.c_void_p(); sz = ctypes.c_size_t()
                f = nat().lib.reb_simulation_save_to_stream; f.argtypes = [ctypes.c_void_p, ctypes.POINTER(ctypes.c_void_p), ctypes.POINTER(ctypes.c_size_t)]; f.restype = None
                f(ns.addr, ctypes.byref(buf), ctypes.byref(sz))
                fr = nat().lib.reb_simulation_output_free_stream; fr.argtypes = [ctypes.c_void_p]; fr(buf)
            ns.call('reb_simulation_step')
        outs.append([ns.particle(i).getbits(c) for i in range(3) for c in ('x', 'y', 'z', 'vx', 'vy', 'vz')]); ns.free()
    return outs[0] != outs[1], "native %s: trajectory %s when a snapshot is taken before every step" % (cfgname, 'changes' if outs[0] != outs[1] else 'is bit-identical')

def run_locks(u):
    """integrate with a server attached: step and heartbeat only under the server mutex"""
    rep = Report(); label = "lock discipline "
    L = build.layout()
    def run(ctx):
        dom = Real(); I = new_interp(dom, ctx); I.concrete_env = True; I.loop_bound = 60
        sim = Sim(I); sim.add(m=1.0)
        sim.set('integrator', L.enumerators['REB_INTEGRATOR_LEAPFROG']); sim.set('gravity', L.enumerators['REB_GRAVITY_NONE'])
        sd = I.mem.alloc(L.structs['reb_server_data']['size'], 'server_data', 'heap', zero=True)
        sim.set('server_data', sd)
        t0, dt, tmax = dom.fresh('t0'), dom.fresh('dt'), dom.fresh('tmax')
        sim.set('t', t0); sim.set('dt', dt); ctx.assume(dt > 0); ctx.assume(z3.And(tmax > t0, tmax - t0 <= 3 * dt))
        events = []
        moff = L.off('reb_server_data', 'mutex')
        def hb(I_, r):
            events.append(('heartbeat', bool(getattr(I_, 'locks', {}).get((sd.obj, moff))))); return None
        I.stubs['@verif_hb'] = hb; sim.set('heartbeat', I.global_ptr('@verif_hb'))
        real_step = I.mod.funcs['@reb_simulation_step']
        def step(I_, r):
            events.append(('step', bool(getattr(I_, 'locks', {}).get((sd.obj, moff)))))
            return I_.run_function(real_step, [r])
        I.stubs['@reb_simulation_step'] = step
        I.call('@reb_simulation_integrate', [sim.ptr, tmax])
        return I, events, list(getattr(I, 'lock_log', [])), dict(getattr(I, 'locks', {}))
    ex = Explorer(run, max_paths=200, timeout_ms=3000)
    try: ex.explore()
    except BoundExceeded as e: rep.bound_exceeded.append(label + str(e))
    except MemError as e:
        rep.violations.append(dict(key='C19:locks', what="mutex misuse: %s" % e, replay={}, obligation=label))
    rep.queries += ex.nqueries; rep.solver_time += ex.qtime
    prover = Prover(t_inproc_ms=5000, use_external=False)
    for ctx, (I, events, log, locks) in ex.results:
        rep.paths += 1; rep.add_interp(I)
        ob = Obligations(rep, prover, label + "path%d " % rep.paths)
        steps = [e for e in events if e[0] == 'step']
        ob.prove("every reb_simulation_step runs with the server mutex held", all(h for _, h in steps) and len(steps) >= 1, [], domain='lock log')
        hbs = [h for k, h in events if k == 'heartbeat']
        ob.prove("every heartbeat after the first runs with the mutex held", all(hbs[1:]), [], domain='lock log')
        ob.prove("one lock and one unlock per iteration, none held at return", len([1 for k, _ in log if k == 'lock']) == len(steps) and len([1 for k, _ in log if k == 'unlock']) == len(steps) and not any(locks.values()), [], domain='lock log')
    return rep

def worker(u):
    return {'footprint': run_footprint, 'neutral': run_neutral, 'locks': run_locks}[u['what']](u)

def replay(data):
    if 'writes' in data: return bool(data['writes']), "recorded footprint %r" % (data,)
    return native_neutral(data['cfg'])

def main():
    tier = os.environ.get('VERIF_TIER') or (sys.argv[1] if len(sys.argv) > 1 else 'quick')
    t0 = time.time()
    build.module(); build.layout(); build.build_native()
    cfgs = [c for c in P.CONFIGS if not P.CONFIGS[c].get('var')]
    us = [dict(what='footprint', cfg=c) for c in cfgs]
    us += [dict(what='neutral', cfg=c) for c in ['leapfrog', 'whfast', 'whfast_unsync', 'whfast_dh_kernel', 'saba', 'sei', 'none', 'janus']]
    us.append(dict(what='locks'))
    rep = run_units(us, worker)
    code = finish(PID, tier, rep, t0,
        bounds=dict(configurations=len(cfgs), particles=2, steps=1, integrate_iterations='<= 3'),
        assumptions=['frame argument (stated, not solver-proved): two simulations whose footprints are confined to their own heap objects commute at instruction granularity, whatever the schedule',
                     'footprints of adaptive integrators (IAS15, BS, MERCURIUS, TRACE) are observed on concrete data only', 'model mutex: relock and unlock-without-lock are errors'],
        outside=['THE INTERLEAVING QUANTIFIER ITSELF: pre-emption inside a step, the need_copy busy-wait, fairness, data races on status / messages between the server thread and the integration thread, the display thread, real sockets',
                 'reb_server_start request handling (scripted socket run not built)'],
        domain_note='memory-model access logs; UF twin; REAL paths for the integrate loop')
    sys.exit(code)

if __name__ == '__main__':
    main()
