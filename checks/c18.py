"""C18 — the Python classes mirror the C structures and options exactly (DESIGN 5/C18).

Finite domain, decided as bounded-quantifier SMT queries over two tables regenerated on every run:
  C truth      : DWARF metadata of the current headers (clang -g): member name / offset / size / type class, enumerators.
  Python truth : introspection of the ctypes classes of a scratch copy of the package loaded against a freshly built
                 library (run under /venv/bin/python), plus a dynamic probe of every named option: set by name through the
                 Python property, read the raw bytes of the C member (offset from DWARF), read back through the property.
Both tables become SMT arrays; the obligation 'exists struct s, member index i: offset/size/kind/name differ' must be unsat;
a model names the offending member and is re-checked against the raw tables (replay)."""
import sys, os, time, json, subprocess, re, tempfile
sys.path.insert(0, os.path.dirname(os.path.dirname(os.path.abspath(__file__))))
import z3
from llsym import build
from llsym.check import *

PID = 'C18'

CLASS_MAP = {
    'Simulation': 'reb_simulation', 'Particle': 'reb_particle', 'Orbit': 'reb_orbit', 'Rotation': 'reb_rotation',
    'Vec3dBasic': 'reb_vec3d', 'Vec6d': 'reb_vec6d', 'Variation': 'reb_variational_configuration',
    'Simulationarchive': 'reb_simulationarchive', 'ODE': 'reb_ode', 'reb_dp7': 'reb_dp7', 'ParticleInt': 'reb_particle_int',
    'CollisionS': 'reb_collision', 'HashPointerPair': 'reb_hash_pointer_pair', 'BinaryFieldDescriptor': 'reb_binary_field_descriptor',
    'ServerData': 'reb_server_data',
    'IntegratorBS': 'reb_integrator_bs', 'IntegratorEOS': 'reb_integrator_eos', 'IntegratorIAS15': 'reb_integrator_ias15',
    'IntegratorJanus': 'reb_integrator_janus', 'IntegratorMercurius': 'reb_integrator_mercurius', 'IntegratorSABA': 'reb_integrator_saba',
    'IntegratorSEI': 'reb_integrator_sei', 'IntegratorTRACE': 'reb_integrator_trace', 'IntegratorWHFast': 'reb_integrator_whfast',
    'IntegratorWHFast512': 'reb_integrator_whfast512',
}
# Python spells a few members differently from C (checked to be the same bytes by offset/size/kind); names compare modulo
# case, underscores and this list
RENAMES = {'Simulation._odes_warnings': 'ode_warnings', 'Simulation.max_radius': ('max_radius0', 'max_radius1'), 'Simulation._display_view': 'display_settings', 'Simulation.gravity_ignore': 'gravity_ignore_terms', 'IntegratorIAS15._map_allocated_n': 'N_allocated_map', 'IntegratorIAS15.map_allocated_n': 'N_allocated_map'}

PROBE = r'''
import sys, json, ctypes, importlib, pkgutil, inspect
import rebound
from rebound import clibrebound
out = {"classes": {}, "options": {}, "shadow": []}
def kind(t):
    if isinstance(t, type) and issubclass(t, ctypes.Structure): return ["struct", t.__name__, ctypes.sizeof(t)]
    if isinstance(t, type) and issubclass(t, ctypes.Union): return ["struct", t.__name__, ctypes.sizeof(t)]
    if isinstance(t, type) and issubclass(t, ctypes.Array): return ["array", kind(t._type_), t._length_, ctypes.sizeof(t)]
    if isinstance(t, type) and issubclass(t, ctypes._Pointer): return ["ptr"]
    if isinstance(t, type) and issubclass(t, ctypes._CFuncPtr): return ["fnptr"]
    nm = getattr(t, "_type_", None)
    if nm in ("d",): return ["float", 8]
    if nm in ("f",): return ["float", 4]
    if nm in ("P", "z", "Z", "O"): return ["ptr"]
    if nm in ("i", "l", "q", "h", "b"): return ["int", ctypes.sizeof(t), True]
    if nm in ("I", "L", "Q", "H", "B", "c", "?"): return ["int", ctypes.sizeof(t), False]
    return ["?", str(t)]
mods = [rebound] + [importlib.import_module(m.name) for m in pkgutil.walk_packages(rebound.__path__, "rebound.") if "tests" not in m.name and "widget" not in m.name and "plotting" not in m.name and "horizons" not in m.name]
seen = set()
for m in mods:
    for nm, c in inspect.getmembers(m, inspect.isclass):
        if issubclass(c, ctypes.Structure) and c is not ctypes.Structure and c.__module__.startswith("rebound") and nm not in seen:
            seen.add(nm)
            fs = []
            for fn, ft in getattr(c, "_fields_", []):
                d = getattr(c, fn)
                shadow = type(c.__dict__.get(fn, None)).__name__ if fn in c.__dict__ else "inherited"
                fs.append(dict(name=fn, offset=getattr(d, "offset", None), size=getattr(d, "size", None), kind=kind(ft), attr_type=type(d).__name__))
            out["classes"][nm] = dict(size=ctypes.sizeof(c), fields=fs)
offs = json.loads(sys.argv[1])
def raw_u32(sim, off): return ctypes.c_uint32.from_address(ctypes.addressof(sim) + off).value
def raw_ptr(sim, off): return ctypes.c_void_p.from_address(ctypes.addressof(sim) + off).value
from rebound import simulation as S
from rebound.integrators import whfast, saba, eos, trace
specs = [
    ("integrator", S.INTEGRATORS, lambda s: s, "integrator", "integrator"),
    ("gravity", S.GRAVITIES, lambda s: s, "gravity", "gravity"),
    ("collision", S.COLLISIONS, lambda s: s, "collision", "collision"),
    ("boundary", S.BOUNDARIES, lambda s: s, "boundary", "boundary"),
    ("ri_whfast.kernel", whfast.WHFAST_KERNELS, lambda s: s.ri_whfast, "kernel", "ri_whfast.kernel"),
    ("ri_whfast.coordinates", whfast.WHFAST_COORDINATES, lambda s: s.ri_whfast, "coordinates", "ri_whfast.coordinates"),
    ("ri_saba.type", saba.SABA_TYPES, lambda s: s.ri_saba, "type", "ri_saba.type"),
    ("ri_eos.phi0", eos.EOS_TYPES, lambda s: s.ri_eos, "phi0", "ri_eos.phi0"),
    ("ri_eos.phi1", eos.EOS_TYPES, lambda s: s.ri_eos, "phi1", "ri_eos.phi1"),
    ("ri_trace.peri_mode", trace.TRACE_PERI_MODES, lambda s: s.ri_trace, "peri_mode", "ri_trace.peri_mode"),
]
for label, table, holder, attr, cname in specs:
    rows = []
    for name, val in table.items():
        row = dict(name=name, pyvalue=val)
        try:
            sim = rebound.Simulation()
            setattr(holder(sim), attr, name)
            row["c_value"] = raw_u32(sim, offs[cname])
            back = getattr(holder(sim), attr)
            row["readback"] = back if isinstance(back, (int, str)) else repr(back)
            # the same option set by its integer value (documented: "int or string"): must land in the same C member and nowhere else
            sim2 = rebound.Simulation()
            nbytes = ctypes.sizeof(sim2)
            before = ctypes.string_at(ctypes.addressof(sim2), nbytes)
            setattr(holder(sim2), attr, int(val))
            after = ctypes.string_at(ctypes.addressof(sim2), nbytes)
            row["c_value_int"] = raw_u32(sim2, offs[cname])
            back2 = getattr(holder(sim2), attr)
            row["readback_int"] = back2 if isinstance(back2, (int, str)) else repr(back2)
            row["other_bytes_changed_int"] = [k for k in range(nbytes) if before[k] != after[k] and not (offs[cname] <= k < offs[cname] + 4)][:8]
            sim3 = rebound.Simulation()
            before = ctypes.string_at(ctypes.addressof(sim3), nbytes)
            setattr(holder(sim3), attr, name)
            after = ctypes.string_at(ctypes.addressof(sim3), nbytes)
            row["other_bytes_changed_name"] = [k for k in range(nbytes) if before[k] != after[k] and not (offs[cname] <= k < offs[cname] + 4)][:8]
        except Exception as e:
            row["error"] = "%s: %s" % (type(e).__name__, e)
        rows.append(row)
    out["options"][label] = rows
# function-valued options: compare the stored pointer with the address of the C function of the same meaning
fnspecs = [
    ("collision_resolve", ["merge", "hardsphere", "halt"], lambda s: s, "collision_resolve", "collision_resolve", "reb_collision_resolve_%s"),
    ("ri_mercurius.L", ["mercury", "C4", "C5", "infinity"], lambda s: s.ri_mercurius, "L", "ri_mercurius.L", "reb_integrator_mercurius_L_%s"),
    ("ri_trace.S", ["default"], lambda s: s.ri_trace, "S", "ri_trace.S", "reb_integrator_trace_switch_%s"),
    ("ri_trace.S_peri", ["default", "none"], lambda s: s.ri_trace, "S_peri", "ri_trace.S_peri", "reb_integrator_trace_switch_peri_%s"),
]
for label, names, holder, attr, cname, sym in fnspecs:
    rows = []
    for name in names:
        row = dict(name=name)
        try:
            sim = rebound.Simulation()
            setattr(holder(sim), attr, name)
            row["c_value"] = raw_ptr(sim, offs[cname])
            row["expected"] = ctypes.cast(getattr(clibrebound, sym % name), ctypes.c_void_p).value
        except Exception as e:
            row["error"] = "%s: %s" % (type(e).__name__, e)
        rows.append(row)
    out["options"][label] = rows
print(json.dumps(out))
'''

ENUM_PREFIX = {
    'integrator': 'REB_INTEGRATOR_', 'gravity': 'REB_GRAVITY_', 'collision': 'REB_COLLISION_', 'boundary': 'REB_BOUNDARY_',
    'ri_whfast.kernel': 'REB_WHFAST_KERNEL_', 'ri_whfast.coordinates': 'REB_WHFAST_COORDINATES_', 'ri_saba.type': 'REB_SABA_',
    'ri_eos.phi0': 'REB_EOS_', 'ri_eos.phi1': 'REB_EOS_', 'ri_trace.peri_mode': 'REB_TRACE_PERI_',
}
def enumerator_for(label, name, enums):
    """the C enumerator 'of the same meaning': same spelling modulo case and punctuation"""
    pre = ENUM_PREFIX[label]
    norm = lambda s: re.sub(r'[^a-z0-9]', '', s.lower())
    cands = [k for k in enums if k.startswith(pre) and norm(k[len(pre):]) == norm(name)]
    return cands[0] if len(cands) == 1 else None

def norm_name(s): return re.sub(r'_', '', s.lower())

def ckind(L, m):
    if m.get('composite'):
        k0 = m['composite'][0]
        return ['array', k0, len(m['composite']), m['size']] if all(k == k0 for k in m['composite']) else ['?']
    c = L.type_class(m['base'])
    if c[0] == 'int': return ['int', c[1], bool(c[2])]
    if c[0] == 'enum': return ['int', c[2], None]
    if c[0] == 'float': return ['float', c[1]]
    if c[0] == 'ptr': return ['ptr']
    if c[0] == 'fnptr': return ['fnptr']
    if c[0] == 'struct': return ['struct', c[1], c[2]]
    if c[0] == 'array': return ['array', None, c[2], m['size']]
    return ['?']

def kinds_match(pk, ck):
    if ck[0] == 'int':
        return pk[0] == 'int' and pk[1] == ck[1] and (ck[2] is None or pk[2] == ck[2])
    if ck[0] == 'float': return pk[0] == 'float' and pk[1] == ck[1]
    if ck[0] in ('ptr', 'fnptr'): return pk[0] in ('ptr', 'fnptr')
    if ck[0] == 'struct': return pk[0] == 'struct' and pk[2] == ck[2]
    if ck[0] == 'array': return pk[0] == 'array' and pk[3] == ck[3]
    return False

def main():
    tier = os.environ.get('VERIF_TIER') or (sys.argv[1] if len(sys.argv) > 1 else 'quick')
    t0 = time.time()
    L = build.layout()
    pkg = build.scratch_package()
    rep = Report(); rep.paths = 1; rep.instr = 1
    names = ['integrator', 'gravity', 'collision', 'boundary', 'ri_whfast.kernel', 'ri_whfast.coordinates', 'ri_saba.type', 'ri_eos.phi0', 'ri_eos.phi1', 'ri_trace.peri_mode',
             'collision_resolve', 'ri_mercurius.L', 'ri_trace.S', 'ri_trace.S_peri']
    offs = {n: L.off('reb_simulation', n) for n in names}
    script = os.path.join(build.scratch(), 'probe.py'); open(script, 'w').write(PROBE)
    r = subprocess.run(['/venv/bin/python', script, json.dumps(offs)], capture_output=True, text=True, env=dict(os.environ, PYTHONPATH=pkg), cwd=build.scratch(), timeout=600)
    if r.returncode != 0:
        rep.errors.append("python probe failed: " + r.stderr[-1500:])
        sys.exit(finish(PID, tier, rep, t0, {}, [], [], ''))
    py = json.loads(r.stdout.strip().splitlines()[-1])
    rep.replays += 1
    prover = Prover(t_inproc_ms=20000, use_external=False)
    ob = Obligations(rep, prover, '')
    # ---- structures
    unmapped = [c for c in py['classes'] if c not in CLASS_MAP and c not in ('timeval', 'Vec3d')]
    nfields = 0
    for cls, cname in sorted(CLASS_MAP.items()):
        if cls not in py['classes']:
            rep.notes.append("python class %s not found" % cls); continue
        if cname not in L.structs:
            ob.prove("C struct %s exists for python class %s" % (cname, cls), False, [], domain='finite'); continue
        pf = py['classes'][cls]['fields']; cf = [m for m in L.structs[cname]['members'] if m['name']]
        byname = {norm_name(m['name']): m for m in cf}
        exact = {m['name']: m for m in cf}
        n = len(pf); nfields += n
        # row i = python field i and the C member *of the same name* (modulo case/underscores/renames); -2 marks "no such member"
        OffP = z3.Array('offp_' + cls, z3.IntSort(), z3.IntSort()); OffC = z3.Array('offc_' + cls, z3.IntSort(), z3.IntSort())
        SzP = z3.Array('szp_' + cls, z3.IntSort(), z3.IntSort()); SzC = z3.Array('szc_' + cls, z3.IntSort(), z3.IntSort())
        KdOK = z3.Array('kind_' + cls, z3.IntSort(), z3.BoolSort())
        defs = []; pairs = []
        for i, p in enumerate(pf):
            want = RENAMES.get(cls + '.' + p['name'], p['name'])
            if isinstance(want, tuple):
                ms = [exact.get(w) for w in want]
                c_ = None
                if all(ms) and all(ms[k]['offset'] + ms[k]['size'] == ms[k + 1]['offset'] for k in range(len(ms) - 1)):
                    c_ = dict(name='+'.join(want), offset=ms[0]['offset'], size=sum(m_['size'] for m_ in ms), base=ms[0]['base'], composite=[ckind(L, m_) for m_ in ms])
            else:
                c_ = exact.get(want) or exact.get(want.lstrip('_')) or byname.get(norm_name(want))
            pairs.append((p, c_))
            defs += [OffP[i] == p['offset'], OffC[i] == (c_['offset'] if c_ else -2), SzP[i] == p['size'], SzC[i] == (c_['size'] if c_ else -2)]
            defs.append(KdOK[i] == (bool(c_ and kinds_match(p['kind'], ckind(L, c_)))))
        i = z3.Int('i')
        bad = z3.And(i >= 0, i < n, z3.Or(OffP[i] != OffC[i], SzP[i] != SzC[i], z3.Not(KdOK[i])))
        def on_sat(model, pairs=pairs, cls=cls, cname=cname):
            k = model.eval(i, model_completion=True).as_long()
            p, c_ = pairs[k]
            real = not (c_ and p['offset'] == c_['offset'] and p['size'] == c_['size'] and kinds_match(p['kind'], ckind(L, c_)))
            return real, "C18:mirror:%s.%s" % (cname, p['name']), "python %s.%s (offset %s, size %s, %s) does not mirror C struct %s: %s" % (cls, p['name'], p['offset'], p['size'], p['kind'], cname, ("member %s at offset %d, size %d, %s" % (c_['name'], c_['offset'], c_['size'], ckind(L, c_))) if c_ else "no member of that name"), dict(cls=cls, field=p['name'], index=k)
        blocked = []
        for _round in range(12):
            nv = len(rep.violations)
            st_ = ob.prove("every field of %s refers to the bytes, size and type of the member of struct %s with the same name (%d fields)%s" % (cls, cname, n, '' if not blocked else ' [excluding %d already reported]' % len(blocked)),
                           z3.Not(bad), defs + [i != b_ for b_ in blocked], on_sat=on_sat, domain='finite tables as SMT arrays', sample=dict(python_class=cls, c_struct=cname, fields=n))
            if st_ != 'violation' or len(rep.violations) == nv: break
            blocked.append(rep.violations[-1]['replay']['index'])
        embedded = any(f['kind'][0] == 'struct' and f['kind'][1] == cls for cc in py['classes'].values() for f in cc['fields']) or any(f['kind'][0] == 'array' and f['kind'][1][:2] == ['struct', cls] for cc in py['classes'].values() for f in cc['fields']) or cls in ('Particle', 'Simulation', 'Orbit', 'Rotation', 'Vec3dBasic', 'Variation', 'Simulationarchive')
        if not embedded and py['classes'][cls]['size'] < L.structs[cname]['size']:
            rep.notes.append("%s mirrors only a prefix of struct %s (accessed through pointers only): trailing C members are not visible from Python" % (cls, cname))
            continue
        ob.prove("sizeof(%s) == sizeof(struct %s)" % (cls, cname), py['classes'][cls]['size'] == L.structs[cname]['size'], [], domain='finite')
        # no _fields_ entry is shadowed by a non-field attribute (e.g. a property of the same name)
        for p in pf:
            def on_sat2(model, cls=cls, p=p):
                return True, "C18:shadow:%s.%s" % (cls, p['name']), "the ctypes field %s.%s is shadowed by a %s of the same name: reading/writing the attribute does not access the C member" % (cls, p['name'], p['attr_type']), dict(cls=cls, field=p['name'])
            ob.prove("%s.%s is a ctypes field descriptor" % (cls, p['name']), p['attr_type'] == 'CField', [], on_sat=on_sat2, domain='finite')
    if unmapped: rep.notes.append("python Structure classes without a C counterpart in the map (not checked): %s" % unmapped)
    # ---- named options
    enums = L.enumerators
    for label, rows in py['options'].items():
        for row in rows:
            nm = row['name']
            def on_sat3(model, label=label, row=row):
                return True, "C18:option:%s=%s" % (label, row['name']), "option %s = %r: %s" % (label, row['name'], json.dumps(row)), dict(label=label, row=row)
            if 'error' in row:
                ob.prove("setting %s = %r by name succeeds" % (label, nm), False, [], on_sat=on_sat3, domain='finite'); continue
            if label in ENUM_PREFIX:
                en = enumerator_for(label, nm, enums)
                ob.prove("option %s=%r has a C enumerator of the same meaning" % (label, nm), en is not None, [], on_sat=on_sat3, domain='finite')
                if en is None: continue
                v = z3.Int('v')
                ob.prove("setting %s=%r stores %s in the C member and reads back as the same name" % (label, nm, en),
                         z3.And(row['c_value'] == enums[en], row['pyvalue'] == enums[en], z3.BoolVal(str(row['readback']).lower() == nm.lower())), [], on_sat=on_sat3, domain='finite')
                ob.prove("setting %s=%d (the integer value of %r) stores it in the same C member, reads back as that name and changes no other byte of the simulation" % (label, enums[en], nm),
                         z3.And(row.get('c_value_int') == enums[en], z3.BoolVal(str(row.get('readback_int')).lower() == nm.lower()), z3.BoolVal(not row.get('other_bytes_changed_int'))), [], on_sat=on_sat3, domain='finite', sample=dict(row=row))
                ob.prove("setting %s=%r by name changes no other byte of the simulation" % (label, nm), z3.BoolVal(not row.get('other_bytes_changed_name')), [], on_sat=on_sat3, domain='finite')
            else:
                ob.prove("setting %s=%r stores the address of the C function of the same meaning" % (label, nm), row['c_value'] == row['expected'], [], on_sat=on_sat3, domain='finite')
    code = finish(PID, tier, rep, t0,
        bounds=dict(mirrored_structs=len(CLASS_MAP), members_compared=nfields, option_values=sum(len(v) for v in py['options'].values()), platform='build host (x86-64 Linux, clang-14 DWARF, gcc-built library)'),
        assumptions=['clang DWARF of the current headers is the C truth', 'names compare modulo case and underscores', 'class-to-struct map is fixed in the harness (25 entries); classes outside it are listed in notes'],
        outside=['platforms other than the build host', 'display/OpenGL structures'],
        domain_note='finite tables encoded as SMT arrays; bounded-quantifier queries', exhaustive=True)
    sys.exit(code)

if __name__ == '__main__':
    main()
