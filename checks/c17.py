"""C17 — copies are independent and equal; compare reports exactly the real differences (DESIGN 5/C17).

UF/BITS domain on reachable states with every persisted location symbolic:
 (a) reb_simulation_copy: every persisted location of the copy holds the same term; no pointer of the copy refers to an
     object of the source; reb_simulation_diff(copy, source) == 0 on every path; stepping the copy leaves every byte
     reachable from the source unchanged and (fixed-step integrators) both evolve to identical terms.
 (b) compare is exact: for every persisted location in turn, the copy gets a fresh symbolic value v in place of a;
     on every path of the real reb_simulation_diff:  (result != 0)  <=>  (v != a bitwise)   (walltime fields: result == 0)."""
import sys, os, time, tempfile, ctypes
sys.path.insert(0, os.path.dirname(os.path.dirname(os.path.abspath(__file__))))
sys.path.insert(0, os.path.dirname(os.path.abspath(__file__)))
import z3
from llsym import build
from llsym.harness import *
from llsym.check import *
import persist as P
import c05

PID = 'C17'
KEEP0 = {'N', 'N_var_config', 'collision', 'gravity', 'integrator', 'simulationarchive_version', 'N_var', 'calculate_megno'}

def mk_state(cfgname, n, ctx, keep, kepler_uf=False, var=False, nan_ok=()):
    cfg = dict(P.CONFIGS[cfgname])
    dom = UF(); I = new_interp(dom, ctx); I.concrete_env = True
    dom.nan_ok = set()
    if kepler_uf: I.stubs['@reb_whfast_kepler_solver'] = c05.kepler_uf_stub(dom)
    sim = P.build_engine_state(I, cfg, n)
    I.concrete_env = False
    tab = P.read_table(I); opts = P.documented_options()
    locs = P.locations(I, sim, tab, opts)
    sy = P.symbolise(I, sim, locs, set(keep) | {lc.label for lc in locs if lc.label.startswith('count:')})     # element counters stay concrete (structure)
    for lab in nan_ok:
        if lab in sy and z3.is_expr(sy[lab][0]): dom.nan_ok.add(sy[lab][0].get_id())
    return I, sim, tab, opts, locs, sy

def reachable_objects(I, sim, tab):
    """object ids owned by a simulation: the struct and everything behind its persisted / internal pointers (one level)"""
    L = build.layout(); ids = {sim.ptr.obj}
    o = I.mem.objs[sim.ptr.obj]
    for k, (sz, v) in o.cells.items():
        if isinstance(v, Ptr) and v.obj != 0 and I.mem.objs[v.obj].kind == 'heap' and I.mem.objs[v.obj].alive:
            ids.add(v.obj)
    return ids

def snapshot_objs(I, ids):
    return {i: (bytes(I.mem.objs[i].base) if I.mem.objs[i].base is not None else None, dict(I.mem.objs[i].cells), I.mem.objs[i].alive) for i in ids}

def objs_changed(I, snap):
    bad = []
    for i, (b, c, alive) in snap.items():
        o = I.mem.objs[i]
        if o.alive != alive: bad.append((o.name, 'freed')); continue
        if b is not None and bytes(o.base) != b: bad.append((o.name, 'bytes'))
        for k in set(c) | set(o.cells):
            x = c.get(k); y = o.cells.get(k)
            if x is None or y is None or x[0] != y[0]: bad.append((o.name, k)); break
            if isinstance(x[1], z3.ExprRef) or isinstance(y[1], z3.ExprRef):
                if not (isinstance(x[1], z3.ExprRef) and isinstance(y[1], z3.ExprRef) and x[1].eq(y[1])): bad.append((o.name, k)); break
            elif x[1] != y[1] and not (x[1] != x[1] and y[1] != y[1]): bad.append((o.name, k)); break
    return bad

def run_copy(u):
    rep = Report(); cfgname, n = u['cfg'], u['n']
    label = "copy %s N=%d " % (cfgname, n)
    prover = Prover(t_inproc_ms=10000, use_external=False)
    keep = set(KEEP0)
    fixed = cfgname in c05.R3_CFGS
    def run(ctx):
        I, sim, tab, opts, locs, sy = mk_state(cfgname, n, ctx, keep, kepler_uf=fixed, nan_ok=u.get('nan_ok', ()))
        r2p = I.call('@reb_simulation_copy', [sim.ptr])
        sim2 = Sim(I, r2p)
        obs = []
        l2 = {lc.label: lc for lc in P.locations(I, sim2, tab, opts)}
        # copying goes through the serialiser, which may shrink an array to the part the integrator uses (IAS15 after the particle
        # number dropped): only what is still a persisted location of the SOURCE after the copy is compared
        live = {lc_.label for lc_ in P.locations(I, sim, tab, opts)}
        for lc in locs:
            if lc.label not in sy or lc.label not in live: continue
            p1 = lc.ptr(I, sim); lc2 = l2.get(lc.label); p2 = lc2.ptr(I, sim2) if lc2 else None
            if p2 is None:
                obs.append(("copy has %s" % lc.label, False, lc)); continue
            obs.append(("copy.%s == source" % lc.label, P.vals_equal(I.dom, I.mem.load(p2, lc.ty), I.mem.load(p1, lc.ty)), lc))
        # deep: no heap object shared
        a = reachable_objects(I, sim, tab); b = reachable_objects(I, sim2, tab)
        obs.append(("copy shares no heap object with its source", not (a & b), None))
        d = I.call('@reb_simulation_diff', [sim2.ptr, sim.ptr, 2])
        obs.append(("reb_simulation_diff(copy, source) == 0", d == 0 if isinstance(d, int) else d == 0, 'diff'))
        d2 = I.call('@reb_simulation_diff', [sim.ptr, sim2.ptr, 2])
        obs.append(("reb_simulation_diff(source, copy) == 0", d2 == 0 if isinstance(d2, int) else d2 == 0, 'diff'))
        return I, sim, sim2, tab, opts, locs, sy, obs
    ex = Explorer(lambda ctx: run(ctx), max_paths=64, timeout_ms=3000)
    try:
        ex.explore()
    except BoundExceeded as e:
        rep.bound_exceeded.append(label + str(e))
    for ctx, res in ex.results:
        I, sim, sim2, tab, opts, locs, sy, obs = res
        rep.paths += 1; rep.add_interp(I)
        ob = Obligations(rep, prover, label + "path%d " % rep.paths)
        for name, goal, lc in obs:
            def on_sat(model, lc=lc, sy=sy, locs=locs):
                vals = {}
                for l_ in locs:
                    if l_.label in sy and sy[l_.label][2]:
                        vals[l_.label] = model.eval(sy[l_.label][0], model_completion=True).as_long()
                ok, detail, key = native_copy_diff(cfgname, n, locs, vals)
                return ok, key, "a simulation does not compare equal to its own copy: " + detail, dict(cfg=cfgname, n=n, kind='copy', values={k: v for k, v in vals.items() if v})
            ob.prove(name, goal, ctx.pc, on_sat=on_sat if lc == 'diff' else None, domain='UF/BITS')
    rep.queries += ex.nqueries; rep.solver_time += ex.qtime
    # independence + identical evolution (single path, strict context): step the copy, source untouched; then step the source, equal terms
    if u.get('step', True):
        keep2 = set(KEEP0); tries = 0
        while True:
            tries += 1
            try:
                ctx = P.StrictCtx()
                I, sim, tab, opts, locs, sy = mk_state(cfgname, n, ctx, keep2, kepler_uf=fixed)
                # integer locations stay concrete for the step (control flow), doubles symbolic
                for lc in locs:
                    if lc.ty.kind != 'fp' and lc.label in sy and sy[lc.label][2]:
                        I.mem.store(lc.ptr(I, sim), lc.ty, sy[lc.label][1])
                sim2 = Sim(I, I.call('@reb_simulation_copy', [sim.ptr]))
                ids = reachable_objects(I, sim, tab)
                snap = snapshot_objs(I, ids)
                I.concrete_env = True       # wall-clock reads: concrete (walltime fields are excluded from every comparison)
                if fixed:
                    I.call('@reb_simulation_step', [sim2.ptr])
                    changed = objs_changed(I, snap)
                    I.call('@reb_simulation_step', [sim.ptr])
                break
            except P.NeedConcrete as e:
                new = set(nm[2:] for nm in e.names if nm.startswith('S!'))
                if not new or tries > 80:
                    rep.errors.append(label + "step: symbolic branch on %r" % (e.names,)); return rep
                keep2 |= new
        if fixed:
            ob = Obligations(rep, prover, label + "step ")
            rep.paths += 1; rep.add_interp(I)
            ob.prove("stepping the copy leaves every byte reachable from the source unchanged", not changed, [], domain='BITS', sample=dict(changed=changed[:3]))
            l1 = P.locations(I, sim, tab, opts); l2 = {lc.label: lc for lc in P.locations(I, sim2, tab, opts)}
            for lc in l1:
                if lc.field.startswith('walltime'): continue
                p1 = lc.ptr(I, sim); lc2 = l2.get(lc.label); p2 = lc2.ptr(I, sim2) if lc2 else None
                if p1 is None and p2 is None: continue
                if p1 is None or p2 is None: ob.prove("after one step %s exists in both" % lc.label, False, [], domain='UF'); continue
                ob.prove("after one step: copy.%s == source.%s" % (lc.label, lc.label), P.vals_equal(I.dom, I.mem.load(p1, lc.ty), I.mem.load(p2, lc.ty)), [], domain='UF')
    return rep

def local_explore(I, base_pc, call):
    """explore all paths of one call from the current memory state (the call must leave persistent state unchanged)"""
    results = []; work = [[]]; nq = 0; qt = 0.0
    while work:
        prefix = work.pop()
        ctx = PathCtx(prefix, 3000)
        for c_ in base_pc: ctx.assume(c_)
        I.ctx = ctx
        try:
            r = call()
            results.append((ctx, r))
        except PathInfeasible:
            pass
        work.extend(ctx.pending); nq += ctx.nqueries; qt += ctx.qtime
        if len(results) > 64: raise BoundExceeded("local path bound")
    return results, nq, qt

def run_perturb(u):
    """(b) for a slice of locations: perturb the copy at one location, run the real diff, both directions of the iff.
    The state and its copy are built once per unit; each location is perturbed in turn and restored afterwards."""
    rep = Report(); cfgname, n = u['cfg'], u['n']
    prover = Prover(t_inproc_ms=10000, use_external=False)
    ctx0 = P.StrictCtx()
    I, sim, tab, opts, locs, sy = mk_state(cfgname, n, ctx0, set(KEEP0))
    sim2 = Sim(I, I.call('@reb_simulation_copy', [sim.ptr]))
    l2 = {l.label: l for l in P.locations(I, sim2, tab, opts)}
    for target in u['labels']:
        label = "perturb %s N=%d %s " % (cfgname, n, target)
        lc = [l for l in locs if l.label == target][0]
        p2 = l2[target].ptr(I, sim2)
        a = I.mem.load(lc.ptr(I, sim), lc.ty)
        saved = I.mem.load(p2, lc.ty)
        v = I.dom.fresh('V!' + target) if lc.ty.kind == 'fp' else z3.BitVec('V!' + target, lc.ty.bits)
        I.dom.nan_ok = {v.get_id()} | ({sy[target][0].get_id()} if z3.is_expr(sy[target][0]) else set())   # only the perturbed quantity may be NaN
        I.mem.store(p2, lc.ty, v)
        try:
            results, nq, qt = local_explore(I, [], lambda: I.call('@reb_simulation_diff', [sim.ptr, sim2.ptr, 2]))
        except BoundExceeded as e:
            rep.bound_exceeded.append(label + str(e)); I.mem.store(p2, lc.ty, saved); continue
        except P.NeedConcrete as e:
            rep.errors.append(label + repr(e.names)); I.mem.store(p2, lc.ty, saved); continue
        rep.queries += nq; rep.solver_time += qt
        I.mem.store(p2, lc.ty, saved)
        for ctx, d in results:
            rep.paths += 1
            ob = Obligations(rep, prover, label + "path%d " % rep.paths)
            eq = P.vals_equal(I.dom, a, v)
            differs = z3.Not(eq) if not isinstance(eq, bool) else z3.BoolVal(not eq)
            reported = (d != 0) if not isinstance(d, int) else z3.BoolVal(d != 0)
            if lc.field.startswith('walltime'): goal = z3.Not(reported)
            else: goal = reported == differs
            def on_sat(model, lc=lc, a=a, v=v):
                av = model.eval(I.dom.z(a) if not isinstance(a, int) else z3.BitVecVal(a, lc.ty.bits), model_completion=True).as_long()
                vv = model.eval(v, model_completion=True).as_long()
                vals = {}
                for l_ in locs:
                    if l_.label in sy and sy[l_.label][2]:
                        vals[l_.label] = model.eval(sy[l_.label][0], model_completion=True).as_long()
                ok, detail, key = native_perturb(cfgname, n, locs, vals, lc, av, vv)
                return ok, key, "compare is not exact for %s: %s" % (lc.label, detail), dict(cfg=cfgname, n=n, kind='perturb', label=lc.label, a=av, v=vv, values={k: x for k, x in vals.items() if x})
            ob.prove("diff != 0  <=>  %s differs bitwise" % lc.label, goal, ctx.pc, on_sat=on_sat, domain='UF/BITS')
    rep.add_interp(I)
    return rep

def in_table(lc): return not lc.option or lc.label.startswith('member:')

_nat = None
def nat():
    global _nat
    if _nat is None: _nat = Native()
    return _nat

def _poke(ns, locs, vals):
    for l_ in locs:
        if l_.label in vals:
            a = l_.naddr(ns)
            if a is None: continue
            (ctypes.c_uint64 if l_.ty.size() == 8 else ctypes.c_uint32).from_address(a).value = vals[l_.label]

def fclass(bits, lc):
    if lc.ty.kind != 'fp': return 'int'
    e = (bits >> 52) & 0x7ff; m = bits & ((1 << 52) - 1)
    if e == 0x7ff and m: return 'nan'
    if (bits & ((1 << 63) - 1)) == 0: return 'zero'
    return 'num'

def native_copy_diff(cfgname, n, locs, vals):
    ns = P.build_native_state(nat(), P.CONFIGS[cfgname], n)
    try:
        _poke(ns, locs, vals)
        c = nat().lib.reb_simulation_copy(ns.addr)
        f = nat().lib.reb_simulation_diff; f.argtypes = [ctypes.c_void_p, ctypes.c_void_p, ctypes.c_int]; f.restype = ctypes.c_int
        d = f(c, ns.addr, 2)
        nat().lib.reb_simulation_free(c)
        cls = sorted({fclass(vals[l_.label], l_) for l_ in locs if l_.label in vals and l_.field == 'particles'} & {'nan'})
        key = 'C17:copy-differs:' + ('particles-NaN' if cls else cfgname)
        return d != 0, "reb_simulation_diff(copy, source) returned %d natively" % d, key
    finally:
        ns.free()

def native_perturb(cfgname, n, locs, vals, lc, av, vv):
    ns = P.build_native_state(nat(), P.CONFIGS[cfgname], n)
    try:
        _poke(ns, locs, vals)
        _poke(ns, [lc], {lc.label: av})
        c = nat().lib.reb_simulation_copy(ns.addr)
        cs = NSim(nat(), c)
        _poke(cs, [lc], {lc.label: vv})
        f = nat().lib.reb_simulation_diff; f.argtypes = [ctypes.c_void_p, ctypes.c_void_p, ctypes.c_int]; f.restype = ctypes.c_int
        d = f(ns.addr, c, 2)
        cs.free()
        expect = (av != vv) and not lc.field.startswith('walltime')
        key = 'C17:compare:%s:%s-vs-%s' % ('particles' if lc.field == 'particles' else lc.field, fclass(av, lc), fclass(vv, lc))
        return (d != 0) != expect, "source bits %#x, copy bits %#x, reb_simulation_diff returned %d" % (av, vv, d), key
    finally:
        ns.free()

def replay(data):
    if data.get('kind') == 'copy_tree': return native_copy_tree(data['gravity'], data['collision'], data['N'], via=data.get('via'))
    cfgname, n = data['cfg'], data['n']
    dom = UF(); I = new_interp(dom, P.StrictCtx()); I.concrete_env = True
    sim = P.build_engine_state(I, P.CONFIGS[cfgname], n)
    locs = P.locations(I, sim, P.read_table(I), P.documented_options())
    vals = {k: int(v) for k, v in data.get('values', {}).items()}
    if data['kind'] == 'copy': return native_copy_diff(cfgname, n, locs, vals)[:2]
    lc = [l for l in locs if l.label == data['label']][0]
    return native_perturb(cfgname, n, locs, vals, lc, int(data['a']), int(data['v']))[:2]

def run_copy_tree(u):
    """the tree is not persisted: a copy of a simulation whose gravity or collision search needs the tree must come with a rebuilt
    tree holding the same particles in the same cells (otherwise the copy silently finds no collisions / computes no tree force)"""
    import c15
    from fractions import Fraction
    rep = Report(); grav, coll, N = u['gravity'], u['collision'], u['N']
    label = "%s with tree gravity=%s collision=%s N=%d " % ('save + restore' if u.get('via') == 'file' else 'copy', grav, coll, N)
    L = build.layout()
    def run(ctx):
        dom = Real(); I = new_interp(dom, ctx); I.concrete_env = True; I.loop_bound = 100000
        sim = Sim(I)
        I.call('@reb_simulation_configure_box', [sim.ptr, Fraction(8), 1, 1, 1])
        sim.set('gravity', L.enumerators['REB_GRAVITY_' + grav]); sim.set('collision', L.enumerators['REB_COLLISION_' + coll])
        I.stubs['@reb_get_rootbox_for_particle'] = lambda I_, r, p: 0
        X = []
        psz = L.structs['reb_particle']['size']
        for i in range(N):
            x = dom.fresh('x%d' % i); ctx.assume(z3.And(x > -4, x < 4)); X.append(x)
            for j in range(i): ctx.assume(z3.Or(x - X[j] >= 2, X[j] - x >= 2))
            pb = I.mem.alloc(psz, 'newp%d' % i, 'harness', zero=True); pv = SimView(I, pb, 'reb_particle')
            pv.set('x', x); pv.set('y', Fraction(1, 3) + i); pv.set('z', Fraction(1, 3)); pv.set('m', Fraction(1)); pv.set('r', Fraction(1, 100))
            I.call('@reb_simulation_add', [sim.ptr, pb])          # the real add path (inserts into the tree when one is needed)
        if u.get('via') == 'file':
            import persist as P_
            P_.save(I, sim, 'tree.bin'); csim = P_.load(I, 'tree.bin', 0)
        else:
            cp = I.call('@reb_simulation_copy', [sim.ptr])
            csim = SimView(I, cp, 'reb_simulation')
        a = c15.tree_cells(I, sim); b = c15.tree_cells(I, csim)
        snap = lambda cells: [dict(pt=c15.s32(c.get('pt')), w=c.get('w'), x=c.get('x'), y=c.get('y'), z=c.get('z'), depth=d_) for c, d_, par, p in cells]
        return I, dom, snap(a), snap(b), csim.get('N')
    ex = LinExplorer(run, max_paths=400)
    try: ex.explore()
    except BoundExceeded as e: rep.bound_exceeded.append(label + str(e))
    needs = grav == 'TREE' or coll in ('TREE', 'LINETREE')
    for ctx, (I, dom, a, b, Nc) in ex.results:
        rep.paths += 1; rep.add_interp(I)
        ob = Obligations(rep, Prover(t_inproc_ms=5000, use_external=False), label + "path%d " % rep.paths)
        def on_sat(model):
            ok, detail = native_copy_tree(grav, coll, N, via=u.get('via'))
            return ok, 'C17:copy:tree:%s/%s' % (grav, coll), detail, dict(kind='copy_tree', gravity=grav, collision=coll, N=N, via=u.get('via'))
        la = sorted(c['pt'] for c in a if isinstance(c['pt'], int) and c['pt'] >= 0); lb = sorted(c['pt'] for c in b if isinstance(c['pt'], int) and c['pt'] >= 0)
        ob.prove("the source has a tree exactly when one is needed", (la == list(range(N))) == needs and (needs or not a), [], on_sat=on_sat, domain='structure')
        ob.prove("the copy's tree holds the same particles as the source's", la == lb and Nc == N, [], on_sat=on_sat, domain='structure', sample=dict(source_leaves=la, copy_leaves=lb))
        if la == lb:
            ka = {c['pt']: c for c in a if isinstance(c['pt'], int) and c['pt'] >= 0}; kb = {c['pt']: c for c in b if isinstance(c['pt'], int) and c['pt'] >= 0}
            for i in la:
                ob.prove("particle %d sits in the same cell in the copy" % i, z3.And(*[dom.z(ka[i][f]) == dom.z(kb[i][f]) for f in ('w', 'x', 'y', 'z')]), list(ctx.pc), on_sat=on_sat, domain='REAL')
        rep.witnesses += 1
    bad, detail = native_copy_tree(grav, coll, N, via=u.get('via')); rep.replays += 1
    if bad: rep.violations.append(dict(key='C17:copy:tree:%s/%s' % (grav, coll), what=detail, replay=dict(kind='copy_tree', gravity=grav, collision=coll, N=N, via=u.get('via')), obligation=label + 'native twin'))
    return rep

def native_copy_tree(grav, coll, N, via=None):
    """native: two particles on a collision course; source and copy must resolve the same collision"""
    N_ = nat(); L = N_.L
    ns = N_.create()
    try:
        f = N_.lib.reb_simulation_configure_box; f.argtypes = [ctypes.c_void_p, ctypes.c_double, ctypes.c_int, ctypes.c_int, ctypes.c_int]; f.restype = None
        f(ns.addr, 8.0, 1, 1, 1)
        ns.set('gravity', L.enumerators['REB_GRAVITY_' + grav]); ns.set('collision', L.enumerators['REB_COLLISION_' + coll])
        ns.set('integrator', L.enumerators['REB_INTEGRATOR_LEAPFROG']); ns.set('dt', 0.01)
        ns.set('collision_resolve', ctypes.cast(N_.lib.reb_collision_resolve_merge, ctypes.c_void_p).value)
        ns.add(m=1.0, x=-0.5, vx=1.0, r=0.05); ns.add(m=1.0, x=0.5, vx=-1.0, r=0.05)
        for k in range(2, N): ns.add(m=1e-3, x=3.0, y=1.0 * k, r=0.01)
        if via == 'file':
            import tempfile, os as _os
            d_ = tempfile.mkdtemp(prefix='llsym_c05t_'); fn_ = _os.path.join(d_, 't.bin').encode()
            sv = N_.lib.reb_simulation_save_to_file; sv.argtypes = [ctypes.c_void_p, ctypes.c_char_p]; sv.restype = None; sv(ns.addr, fn_)
            ld = N_.lib.reb_simulation_create_from_file; ld.argtypes = [ctypes.c_char_p, ctypes.c_int64]; ld.restype = ctypes.c_void_p
            cp = NSim(N_, ld(fn_, 0))
            import shutil; shutil.rmtree(d_, ignore_errors=True)
        else:
            cp = NSim(N_, N_.lib.reb_simulation_copy(ns.addr))
        cp.set('collision_resolve', ctypes.cast(N_.lib.reb_collision_resolve_merge, ctypes.c_void_p).value)       # function pointers are not copied (documented)
        try:
            has = (ns.get('tree_root') or 0) != 0, (cp.get('tree_root') or 0) != 0
            for s_ in (ns, cp):
                for _ in range(80): s_.call('reb_simulation_step')
            n1, n2 = ns.get('N'), cp.get('N')
            return (n1 != n2 or has[0] != has[1]), "native copy (gravity %s, collision %s): source has tree=%s N=%d after 80 steps, copy has tree=%s N=%d" % (grav, coll, has[0], n1, has[1], n2)
        finally: cp.free()
    finally:
        ns.free()

def worker(u):
    if u.get('mode') == 'labels':
        r = Report(); r.labels = {u['cfg']: all_labels(u['cfg'], 2)}; return r
    if u.get('mode') == 'tree': return run_copy_tree(u)
    return run_perturb(u) if u.get('mode') == 'perturb' else run_copy(u)

def all_labels(cfgname, n):
    dom = UF(); I = new_interp(dom, P.StrictCtx()); I.concrete_env = True
    sim = P.build_engine_state(I, P.CONFIGS[cfgname], n)
    locs = P.locations(I, sim, P.read_table(I), P.documented_options())
    tab = {e['name']: e['dtype'] for e in P.read_table(I)}
    # 'member:<name>' = the bytes of the struct member a table entry is NAMED after, when the table's own offset points elsewhere: the
    # name denotes a persisted quantity, so its real bytes are perturbed too (first, so that the quick tier always includes them)
    named = [l.label for l in locs if l.label.startswith('member:') and l.field in tab and l.field not in KEEP0]
    return named + [l.label for l in locs if l.field not in KEEP0 and not l.option and not l.label.startswith('count:')], {l.label: tab.get(l.field, '?') for l in locs}

def _labels_job(c): return all_labels(c, 2)

def main():
    tier = os.environ.get('VERIF_TIER') or (sys.argv[1] if len(sys.argv) > 1 else 'quick')
    t0 = time.time()
    build.module(); build.layout(); build.build_native()
    cfgs = list(P.CONFIGS)
    us = [dict(cfg=c, n=2) for c in (cfgs if tier == 'thorough' else ['fresh', 'whfast_unsync', 'ias15', 'leapfrog', 'whfast_var', 'mercurius', 'janus', 'sei'])]
    for g_, c_ in (('BASIC', 'LINETREE'), ('BASIC', 'TREE'), ('TREE', 'NONE'), ('BASIC', 'DIRECT')): us.append(dict(mode='tree', gravity=g_, collision=c_, N=2 if tier == 'quick' else 3))
    pert = ['whfast_unsync', 'whfast_var'] if tier == 'quick' else ['whfast_unsync', 'whfast_var', 'ias15', 'mercurius', 'janus', 'trace', 'fresh']
    # label enumeration runs the interpreter (z3): do it in worker processes, never in the parent before forking
    import multiprocessing
    with multiprocessing.get_context('fork').Pool(len(pert)) as pool:
        lab = dict(zip(pert, pool.map(_labels_job, pert)))
    for c in pert:
        labels, kinds = lab[c]
        if tier == 'quick':
            # representatives: every member of particle 1, every var_config member, walltime, two scalars per dtype, first element of each array
            seen = {}; sel = []
            for l in labels:
                f = l.split('[')[0].split('+')[0]
                if l.startswith('particles[1]') or l.startswith('var_config') or l.startswith('walltime') or l.startswith('member:'): sel.append(l); continue
                if '[' in l or '+' in l:
                    if f not in seen: seen[f] = 1; sel.append(l)
                    continue
                k = kinds.get(l, '?')
                if seen.get(k, 0) < 2: seen[k] = seen.get(k, 0) + 1; sel.append(l)
            labels = sel
        chunk = max(1, len(labels) // 14)
        for k in range(0, len(labels), chunk):
            us.append(dict(cfg=c, n=2, mode='perturb', labels=labels[k:k + chunk]))
    rep = run_units(us, worker)
    code = finish(PID, tier, rep, t0,
        bounds=dict(units=len(us), particles=2, copy_configs=len([u for u in us if 'mode' not in u]), perturbed_locations=sum(len(u.get('labels', [])) for u in us)),
        assumptions=['malloc never fails', 'states are reachable states with every persisted location made an arbitrary bit pattern; count/selector fields keep their concrete value',
                     'float equality predicates interpreted exactly on bit patterns (NaN, +-0)', 'Kepler solver uninterpreted in the one-step twin run'],
        outside=['N > 2, more than one variational configuration', 'Python == / copy / pickle wrappers', 'display settings pointer contents'],
        domain_note='UF/BITS with exact IEEE equality on bit patterns')
    sys.exit(code)

if __name__ == '__main__':
    main()
