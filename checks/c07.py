"""C07 — a crash during an archive write never loses completed snapshots (DESIGN 5/C07).

The crash offset c is a solver variable.  An uninterrupted archive of S snapshots is produced by the real writer inside the
engine; for the write of snapshot j the ordered byte stream (in-place trailer patch first, then the appended delta, END field
and new trailer, exactly as the real fwrite calls were issued) is recorded.  The crash image is the pre-image with the first c
bytes of that stream applied: patched bytes are ite(c > k, new, old), the file length is a term in c.  The real reader runs on
the image, forking where c decides a short read, an END marker or a trailer value; the union of the explored path conditions
must cover 0 <= c <= total (checked by the solver).  Per path: no memory-model violation through either entry point (the C
constructor that mallocs the archive, and the caller-owned struct convention the Python class uses); an error is reported if
no snapshot is complete; otherwise exactly the snapshots whose payload+END were written are exposed (a snapshot lacking only
trailer bytes may or may not be), and each loads equal to the uninterrupted one."""
import sys, os, time, tempfile, json, shutil, subprocess
sys.path.insert(0, os.path.dirname(os.path.dirname(os.path.abspath(__file__))))
sys.path.insert(0, os.path.dirname(os.path.abspath(__file__)))
import z3
from llsym import build
from llsym.harness import *
from llsym.check import *
from llsym import stubs as ST
import persist as P
import c06

PID = 'C07'

def build_archive(cfgname, n, hist):
    """uninterrupted archive in the engine (all concrete). returns per save: (file bytes after save, writes of that save), records, table"""
    dom = UF(); I = new_interp(dom, P.StrictCtx()); I.concrete_env = True
    I.mem.on_uninit = 'zero'       # never-written heap bytes (padding, unused members) are zero in the reference archive
    sim = P.build_engine_state(I, P.CONFIGS[cfgname], n)
    tab = P.read_table(I)
    out = []; records = []
    for k, seg in enumerate(hist):
        for op in seg: c06.op_engine(I, sim, op)
        node = ST.file_node(I, 'arch.bin')
        w0 = len(node.writes) if node else 0
        pre = file_bytes(I, 'arch.bin') if node else b''
        P.save(I, sim, 'arch.bin')
        node = ST.file_node(I, 'arch.bin')
        post = file_bytes(I, 'arch.bin')
        stream = []
        for w in node.writes[w0:]:
            if w == ('trunc',): continue
            pos, ln = w
            stream.append((pos, post[pos:pos + ln]))
        out.append(dict(pre=pre, post=post, stream=stream))
        rec = P.read_locations(I, sim, P.locations(I, sim, tab, []))
        records.append({k_: (f2bits(v) if isinstance(v, float) else v) for k_, v in rec.items() if not isinstance(v, Ptr) and v is not None})
    return out, records, tab

def file_bytes(I, name):
    node = ST.file_node(I, name); o = I.mem.objs[node.ptr.obj]
    bs = bytearray(o.base[:node.length])
    for k, (sz, v) in o.cells.items():
        if k >= node.length: continue
        if isinstance(v, float): b = struct.pack('<d', v)
        elif isinstance(v, int): b = v.to_bytes(sz, 'little')
        elif isinstance(v, Ptr) and v.obj == 0: b = bytes(sz)
        elif isinstance(v, Ptr): b = (0x5555000000000000 + v.obj * 4096 + v.off).to_bytes(8, 'little')   # an arbitrary but fixed address pattern
        else: raise Unsupported("symbolic byte in a concrete archive")
        bs[k:k + sz] = b
    return bytes(bs)

def crash_image(I, w, c):
    """install 'crash.bin' = pre-image + first c bytes of the stream (c: BV64 term or python int)"""
    node = ST.file_node(I, 'crash.bin', True)
    o = I.mem.objs[node.ptr.obj]
    pre = w['pre']; o.base[:len(pre)] = pre
    spos = 0; length = len(pre); length_terms = []
    for pos, data in w['stream']:
        for i, b in enumerate(data):
            q = pos + i
            if q < len(pre):
                if b != pre[q]:
                    if isinstance(c, int):
                        if c > spos + i: o.base[q] = b
                    else:
                        o.cells[q] = (1, z3.If(z3.UGT(c, spos + i), z3.BitVecVal(b, 8), z3.BitVecVal(pre[q], 8)))
            else:
                o.base[q] = b        # bytes beyond the (symbolic) length are never visible
        if pos + len(data) > len(pre):
            first_new = max(pos, len(pre)) - pos          # index within data of the first appended byte
            length_terms.append((spos + first_new, max(pos, len(pre)), len(data) - first_new))
        spos += len(data)
    total = spos
    if isinstance(c, int):
        ln = len(pre)
        for s0, p0, nbytes in length_terms:
            if c > s0: ln = max(ln, p0 + min(nbytes, c - s0))
        node.length = ln
    else:
        ln = z3.BitVecVal(len(pre), 64)
        for s0, p0, nbytes in length_terms:
            # bytes s0..s0+nbytes of the stream land at p0..; visible prefix = clamp(c - s0, 0, nbytes)
            vis = z3.If(z3.ULE(c, s0), z3.BitVecVal(0, 64), z3.If(z3.UGE(c, s0 + nbytes), z3.BitVecVal(nbytes, 64), c - s0))
            cand = z3.BitVecVal(p0, 64) + vis
            ln = z3.If(z3.And(z3.UGT(c, s0), z3.UGT(cand, ln)), cand, ln)
        node.length = z3.simplify(ln)
    return total

def stream_total(w): return sum(len(d) for _, d in w['stream'])

def complete_snapshots(ws, j, c):
    """reference: how many snapshots are certainly complete / possibly exposed after crashing save j at stream byte c.
    returns (must, may): snapshots 0..j-1 are complete; snapshot j counts as complete once its payload and END field are written."""
    w = ws[j]
    # position in the stream after which payload+END are complete = total - trailer(12)
    total = stream_total(w)
    end_done = total - 12
    must = j + (1 if c >= total else 0)
    may = j + (1 if c >= end_done else 0)
    if j == 0 and c < end_done: must = 0; may = 0
    return must, may

def run_reader(I, entry):
    """open 'crash.bin' through one of the two entry points; returns dict(nblobs, sa view or None, error flag)"""
    L = build.layout()
    fn = I.cstr('crash.bin')
    if entry == 'c_api':
        p = I.call('@reb_simulationarchive_create_from_file', [fn])
        if p == NULL: return dict(sa=None, nblobs=0, error=True)
        sa = SimView(I, p, 'reb_simulationarchive')
        nb = sa.get('nblobs')          # raises MemError (use after free) if the callee freed what it returned
        return dict(sa=sa, nblobs=nb, error=False)
    # caller-owned struct (what rebound.Simulationarchive.__init__ does with byref(self))
    size = L.structs['reb_simulationarchive']['size']
    sap = I.mem.alloc(size, 'caller_owned_simulationarchive', 'harness', zero=True)
    wp = I.mem.alloc(4, 'warnings', 'harness', zero=True)
    I.call('@reb_simulationarchive_create_from_file_with_messages', [sap, fn, NULL, wp])
    warn = I.mem.load(wp, I32)
    sa = SimView(I, sap, 'reb_simulationarchive')
    ERR = sum(v for k, v in L.enumerators.items() if k.startswith('REB_SIMULATION_BINARY_ERROR_'))
    iserr = bool(warn & ERR) if isinstance(warn, int) else None
    return dict(sa=sa, nblobs=sa.get('nblobs'), error=iserr, warn=warn)

def run_unit(u):
    rep = Report(); cfgname, n, hist, j, entry = u['cfg'], u['n'], u['hist'], u['j'], u['entry']
    label = "%s crash in write %d of %d via %s " % (cfgname, j, len(hist), entry)
    ws, records, tab = build_archive(cfgname, n, hist)
    w = ws[j]; total = stream_total(w)
    prover = Prover(t_inproc_ms=10000, use_external=False)
    results = []
    def run(ctx):
        dom = UF(); I = new_interp(dom, ctx)
        I.mem.on_uninit = 'zero'      # never-written stack/heap bytes read as zero (the header check reads an uninitialised buffer tail after a short read)
        I.loop_bound = 400000
        c = z3.BitVec('c', 64)
        ctx.assume(z3.ULE(c, total))
        lo_, hi_ = u.get('crange', (0, 1.0))
        a_ = int(lo_ * total) if isinstance(lo_, float) else lo_; b_ = int(hi_ * total) if isinstance(hi_, float) else hi_
        ctx.assume(z3.And(z3.UGE(c, a_), z3.ULE(c, b_)))
        crash_image(I, w, c)
        try:
            r = run_reader(I, entry)
        except MemError as e:
            return ('memerror', str(e), I, None)
        snaps = []
        nb = r['nblobs']
        if not isinstance(nb, int): nb = ctx.concretize(nb, 'nblobs')
        if r['sa'] is not None and not r['error']:
            for k in range(nb):
                try:
                    r2 = I.call('@reb_simulation_create_from_simulationarchive', [r['sa'].ptr, k])
                except MemError as e:
                    return ('memerror', "loading snapshot %d: %s" % (k, e), I, None)
                if r2 == NULL: snaps.append(None); continue
                s2 = Sim(I, r2)
                got = P.read_locations(I, s2, P.locations(I, s2, tab, []))
                snaps.append({k_: (f2bits(v) if isinstance(v, float) else v) for k_, v in got.items() if not isinstance(v, Ptr) and v is not None})
        return ('ok', dict(nblobs=nb, error=r['error'], snaps=snaps), I, c)
    ex = Explorer(run, max_paths=3000, timeout_ms=3000)
    try:
        ex.explore()
    except BoundExceeded as e:
        rep.bound_exceeded.append(label + str(e))
    c = z3.BitVec('c', 64)
    covered = []
    for ctx, (status, payload, I, _) in ex.results:
        rep.paths += 1; rep.add_interp(I)
        ob = Obligations(rep, prover, label + "path%d " % rep.paths)
        covered.append(z3.And(*ctx.pc) if ctx.pc else z3.BoolVal(True))
        # the c-range of this path (for the reference): ask the solver for min and max
        lo, hi = c_range(ctx.pc, c, total)
        if lo is None: continue
        def on_sat_factory(what_key):
            def on_sat(model, what_key=what_key):
                cv = model.eval(c, model_completion=True).as_long()
                ok, detail, key = native_crash(cfgname, n, hist, j, cv, entry)
                return ok, key, detail, dict(cfg=cfgname, n=n, hist=hist, j=j, c=cv, entry=entry)
            return on_sat
        if status == 'memerror':
            rep.obligations += 1
            ok, detail, key = native_crash(cfgname, n, hist, j, lo, entry); rep.replays += 1
            if ok: rep.violations.append(dict(key=key, what="opening a file cut at byte %d..%d of write %d: %s; %s" % (lo, hi, j, payload, detail), replay=dict(cfg=cfgname, n=n, hist=hist, j=j, c=lo, entry=entry), obligation=label))
            else:
                rep.inconclusive += 1; rep.notes.append(label + "memory-model alarm for c in [%d,%d] not reproduced natively: %s (%s)" % (lo, hi, payload, detail))
            continue
        nb = payload['nblobs']
        if entry == 'c_api' and u.get('restart', True) and (j >= 1 or lo >= total - 40):
            # restart-and-append from the last exposed snapshot, at solver-derived representatives of this path's offset range
            for cv in sorted({lo, hi}):
                try:
                    res = restart_check(cfgname, n, hist, j, cv, ws, records, tab)
                except MemError as e:
                    res = "restart: memory-model violation %s" % e
                rep.obligations += 1
                if not res: rep.discharged += 1; continue
                okn, detail = native_restart(cfgname, n, hist, j, cv); rep.replays += 1
                if okn: rep.violations.append(dict(key='C07:restart:write%d' % min(j, 1), what=res + "; " + detail, replay=dict(cfg=cfgname, n=n, hist=hist, j=j, c=cv, entry=entry, kind='restart'), obligation=label))
                else: rep.inconclusive += 1; rep.notes.append(label + "restart alarm not reproduced natively: %s (%s)" % (res, detail))
        if rep.paths % 8 == 1:
            # translator validation / reachability witness: the native reader on the crash image for c = lo agrees with the engine
            okn, detail, _ = native_crash(cfgname, n, hist, j, lo, entry); rep.replays += 1; rep.witnesses += 1
            if okn: rep.notes.append(label + "native reader disagrees with the reference at c=%d: %s" % (lo, detail))
            elif ("NBLOBS %d" % nb) not in detail: rep.errors.append(label + "engine (nblobs=%d) and native (%s) disagree at c=%d" % (nb, detail, lo))
        # reference over the whole range of this path: must <= nblobs <= may for every c in [lo,hi]
        cterm = c
        must = z3.If(z3.UGE(cterm, total), j + 1, j) if not (j == 0) else z3.If(z3.UGE(cterm, total), 1, 0)
        may = z3.If(z3.UGE(cterm, total - 12), j + 1, j) if not (j == 0) else z3.If(z3.UGE(cterm, total - 12), 1, 0)
        ob.prove("exposed snapshots within [complete, complete-or-only-trailer-missing]", z3.And(nb >= must, nb <= may), ctx.pc, on_sat=on_sat_factory('nblobs'), domain='BV64 (crash offset)',
                 sample=dict(c_range=[lo, hi], nblobs=nb))
        ob.prove("an error is reported iff no snapshot is exposed", (nb == 0) == bool(payload['error']), ctx.pc, on_sat=on_sat_factory('error'), domain='BV64')
        for k, snap in enumerate(payload['snaps']):
            same = snap is not None and all(snap.get(lab) == val for lab, val in records[k].items() if not lab.startswith('walltime')) and set(snap) == set(records[k])
            ob.prove("exposed snapshot %d equals the uninterrupted one" % k, same, ctx.pc, on_sat=on_sat_factory('content'), domain='BITS')
    rep.queries += ex.nqueries; rep.solver_time += ex.qtime
    # coverage: every c in [0,total] is on some explored path
    ob = Obligations(rep, prover, label)
    if covered and not rep.bound_exceeded:
        lo_, hi_ = u.get('crange', (0, 1.0))
        a_ = int(lo_ * total) if isinstance(lo_, float) else lo_; b_ = int(hi_ * total) if isinstance(hi_, float) else hi_
        ob.prove("explored path conditions cover every crash offset %d..%d" % (a_, b_), z3.Or(*covered), [z3.UGE(c, a_), z3.ULE(c, b_), z3.ULE(c, total)], domain='BV64')
    return rep

def restart_check(cfgname, n, hist, j, cv, ws, records, tab):
    """engine, concrete: crash image at stream byte cv of write j -> open -> restart from the last exposed snapshot -> redo the
    remaining segments of the history, appending to the crash image -> the final archive must equal the uninterrupted one"""
    dom = UF(); I = new_interp(dom, P.StrictCtx()); I.concrete_env = True
    I.mem.on_uninit = 'zero'; I.loop_bound = 400000
    crash_image(I, ws[j], cv)
    fn = I.cstr('crash.bin')
    p = I.call('@reb_simulationarchive_create_from_file', [fn])
    if p == NULL: return None
    sa = SimView(I, p, 'reb_simulationarchive'); nb = sa.get('nblobs')
    if nb == 0: return None
    r = I.call('@reb_simulation_create_from_simulationarchive', [p, nb - 1])
    I.call('@reb_simulationarchive_free', [p])
    if r == NULL: return "restart: last exposed snapshot %d does not load" % (nb - 1)
    sim = Sim(I, r)
    for seg in hist[nb:]:
        for op in seg: c06.op_engine(I, sim, op)
        P.save(I, sim, 'crash.bin')
    p2 = I.call('@reb_simulationarchive_create_from_file', [fn])
    if p2 == NULL: return "restart: archive does not open after appending"
    sa2 = SimView(I, p2, 'reb_simulationarchive')
    if sa2.get('nblobs') != len(hist): return "restart from snapshot %d after a crash at stream byte %d of write %d: archive has %d snapshots instead of %d" % (nb - 1, cv, j, sa2.get('nblobs'), len(hist))
    for k in range(len(hist)):
        r2 = I.call('@reb_simulation_create_from_simulationarchive', [p2, k])
        if r2 == NULL: return "restart: snapshot %d does not load" % k
        s2 = Sim(I, r2)
        got = P.read_locations(I, s2, P.locations(I, s2, tab, []))
        for lab, val in records[k].items():
            if lab.startswith('walltime') or lab.startswith('count:'): continue
            g = got.get(lab)
            if isinstance(g, float): g = f2bits(g)
            if g != val: return "restart from snapshot %d after a crash at stream byte %d of write %d: snapshot %d differs from the uninterrupted run in %s" % (nb - 1, cv, j, k, lab)
    return False

def native_restart(cfgname, n, hist, j, cv):
    """the same natively with real files (crash-isolated)"""
    try:
        return isolated(_native_restart, cfgname, n, hist, j, cv)
    except NativeCrash as e:
        return True, "native restart crashed with signal %s" % e.sig

def _native_restart(cfgname, n, hist, j, cv):
    N = Native(); lib = N.lib
    d = tempfile.mkdtemp(prefix='llsym_c07r_')
    try:
        fn = os.path.join(d, 'arch.bin'); ref = os.path.join(d, 'ref.bin')
        sv = lib.reb_simulation_save_to_file; sv.argtypes = [ctypes.c_void_p, ctypes.c_char_p]; sv.restype = None
        ns = P.build_native_state(N, P.CONFIGS[cfgname], n)
        pre = post = b''
        for k, seg in enumerate(hist):
            for op in seg: c06.op_native(N, ns, op)
            if k == j: pre = open(ref, 'rb').read() if os.path.exists(ref) else b''
            sv(ns.addr, ref.encode())
            if k == j: post = open(ref, 'rb').read()
        ns.free()
        img = bytearray(pre)
        if j == 0: img = bytearray(post[:cv])
        else:
            patch_at = len(pre) - 12
            for i in range(12):
                if cv > i: img[patch_at + i] = post[patch_at + i]
            if cv > 12: img += post[len(pre):len(pre) + (cv - 12)]
        open(fn, 'wb').write(bytes(img))
        op_sa = lib.reb_simulationarchive_create_from_file; op_sa.argtypes = [ctypes.c_char_p]; op_sa.restype = ctypes.c_void_p
        lib.reb_simulationarchive_free.argtypes = [ctypes.c_void_p]
        sa = op_sa(fn.encode())
        if not sa: return False, "no snapshot to restart from"
        nb = ctypes.c_int64.from_address(sa + N.L.off('reb_simulationarchive', 'nblobs')).value
        ld = lib.reb_simulation_create_from_simulationarchive; ld.argtypes = [ctypes.c_void_p, ctypes.c_int64]; ld.restype = ctypes.c_void_p
        if nb == 0: return False, "no snapshot to restart from"
        r = ld(sa, nb - 1); lib.reb_simulationarchive_free(sa)
        rs = NSim(N, r)
        for seg in hist[nb:]:
            for op in seg: c06.op_native(N, rs, op)
            sv(rs.addr, fn.encode())
        rs.free()
        cf = lib.reb_simulation_create_from_file; cf.argtypes = [ctypes.c_char_p, ctypes.c_int64]; cf.restype = ctypes.c_void_p
        df = lib.reb_simulation_diff; df.argtypes = [ctypes.c_void_p, ctypes.c_void_p, ctypes.c_int]; df.restype = ctypes.c_int
        sa = op_sa(fn.encode()); nb2 = ctypes.c_int64.from_address(sa + N.L.off('reb_simulationarchive', 'nblobs')).value if sa else 0
        if nb2 != len(hist): return True, "native: after restarting from snapshot %d (crash at stream byte %d of write %d) and re-appending, the archive has %d snapshots instead of %d" % (nb - 1, cv, j, nb2, len(hist))
        for k in range(len(hist)):
            a = cf(fn.encode(), k); b = cf(ref.encode(), k)
            if not a or not b or df(a, b, 2): return True, "native: snapshot %d of the restarted archive differs from the uninterrupted archive" % k
        return False, "native restart reproduces the uninterrupted archive"
    finally:
        shutil.rmtree(d, ignore_errors=True)

def c_range(pc, c, total):
    s = z3.Solver(); s.set('timeout', 5000)
    for p in pc: s.add(p)
    if s.check() != z3.sat: return None, None
    lo = hi = s.model().eval(c, model_completion=True).as_long()
    # binary search for min and max
    a, b = 0, lo
    while a < b:
        m = (a + b) // 2
        if s.check(z3.ULE(c, m)) == z3.sat: b = m
        else: a = m + 1
    lo = a
    a, b = hi, total
    while a < b:
        m = (a + b + 1) // 2
        if s.check(z3.UGE(c, m)) == z3.sat: a = m
        else: b = m - 1
    return lo, a

REPLAY_SRC = r'''
import sys, ctypes, os
lib = ctypes.CDLL(sys.argv[1]); fn = sys.argv[2].encode(); entry = sys.argv[3]; want_lo = int(sys.argv[4]); want_hi = int(sys.argv[5])
class SA(ctypes.Structure):
    _fields_ = [("pad", ctypes.c_char * 256)]
lib.reb_simulationarchive_create_from_file.restype = ctypes.c_void_p
lib.reb_simulationarchive_create_from_file.argtypes = [ctypes.c_char_p]
lib.reb_simulationarchive_free.argtypes = [ctypes.c_void_p]
lib.reb_simulationarchive_free_pointers.argtypes = [ctypes.c_void_p]
off_nblobs = int(sys.argv[6])
if entry == 'c_api':
    sa = lib.reb_simulationarchive_create_from_file(fn)
    nb = 0
    if sa:
        nb = ctypes.c_int64.from_address(sa + off_nblobs).value
        lib.reb_simulationarchive_free(sa)
else:
    sa = SA(); w = ctypes.c_int(0)
    lib.reb_simulationarchive_create_from_file_with_messages.argtypes = [ctypes.c_void_p, ctypes.c_char_p, ctypes.c_void_p, ctypes.c_void_p]
    lib.reb_simulationarchive_create_from_file_with_messages(ctypes.addressof(sa), fn, None, ctypes.addressof(w))
    nb = ctypes.c_int64.from_address(ctypes.addressof(sa) + off_nblobs).value
    lib.reb_simulationarchive_free_pointers(ctypes.addressof(sa))
print("NBLOBS", nb)
sys.exit(0 if want_lo <= nb <= want_hi else 3)
'''

def native_crash(cfgname, n, hist, j, cv, entry):
    """write the uninterrupted archive natively, cut it to the crash image for offset cv (same stream order), open it in a
    *subprocess* (a crash of the reader must not take the checker down)."""
    N = Native(); lib = N.lib
    d = tempfile.mkdtemp(prefix='llsym_c07_')
    try:
        fn = os.path.join(d, 'arch.bin')
        ns = P.build_native_state(N, P.CONFIGS[cfgname], n)
        sv = lib.reb_simulation_save_to_file; sv.argtypes = [ctypes.c_void_p, ctypes.c_char_p]; sv.restype = None
        pre = b''; post = b''
        for k, seg in enumerate(hist):
            for op in seg: c06.op_native(N, ns, op)
            if k == j: pre = open(fn, 'rb').read() if os.path.exists(fn) else b''
            sv(ns.addr, fn.encode())
            if k == j: post = open(fn, 'rb').read(); break
        ns.free()
        # stream order of the real writer: first snapshot = one fwrite of everything; append = trailer patch (12 bytes in place) then the appended bytes
        img = bytearray(pre)
        if j == 0:
            img = bytearray(post[:cv])
        else:
            patch_at = len(pre) - 12
            for i in range(12):
                if cv > i: img[patch_at + i] = post[patch_at + i]
            if cv > 12: img += post[len(pre):len(pre) + (cv - 12)]
        cf = os.path.join(d, 'crash.bin'); open(cf, 'wb').write(bytes(img))
        total = (len(post) if j == 0 else 12 + len(post) - len(pre))
        must = (j + (1 if cv >= total else 0)) if j else (1 if cv >= total else 0)
        may = (j + (1 if cv >= total - 12 else 0)) if j else (1 if cv >= total - 12 else 0)
        off_nblobs = N.L.off('reb_simulationarchive', 'nblobs')
        script = os.path.join(d, 'r.py'); open(script, 'w').write(REPLAY_SRC)
        r = subprocess.run([sys.executable, script, N.so, cf, entry, str(must), str(may), str(off_nblobs)], capture_output=True, text=True, timeout=120)
        if r.returncode < 0 or r.returncode in (134, 139):
            return True, "opening the crash image (cut at stream byte %d of write %d) through %s kills the process (exit %d: %s)" % (cv, j, entry, r.returncode, (r.stderr.strip().splitlines() or [''])[-1][:120]), 'C07:reader-crash:%s:write%d' % (entry, min(j, 1))
        if r.returncode == 3:
            return True, "crash image (cut at stream byte %d of write %d) exposes %s, expected between %d and %d snapshots" % (cv, j, r.stdout.strip(), must, may), 'C07:nblobs:write%d' % min(j, 1)
        return False, "native reader: " + r.stdout.strip(), ''
    finally:
        shutil.rmtree(d, ignore_errors=True)

def run_rearm(u):
    """restarting a run re-arms the automatic snapshot schedule with the same arguments.  Inductive step from an ARBITRARY restored
    state (symbolic t, steps_done, stored interval / step count and next-snapshot marks): with the same interval (step count) the
    stored marks must be kept — otherwise the restarted run writes a duplicate or skips a snapshot and the archive differs from the
    uninterrupted one — and with a different one the schedule restarts at the current time (step)."""
    rep = Report(); kind = u['kind']; label = "re-arming the %s schedule on a restored simulation " % kind
    L = build.layout()
    def run(ctx):
        dom = Real(); I = new_interp(dom, ctx); I.concrete_env = True
        sim = Sim(I); sim.add(m=1.0)
        t, nxt, ai, iv = dom.fresh('t'), dom.fresh('next'), dom.fresh('stored_interval'), dom.fresh('interval')
        sd, ns_, as_, sv = z3.BitVec('steps_done', 64), z3.BitVec('next_step', 64), z3.BitVec('stored_step', 64), z3.BitVec('step', 64)
        sim.set('t', t); sim.set('simulationarchive_next', nxt); sim.set('simulationarchive_auto_interval', ai)
        sim.set('steps_done', sd); sim.set('simulationarchive_next_step', ns_); sim.set('simulationarchive_auto_step', as_)
        fn = I.cstr('run.bin')
        if kind == 'interval': I.call('@reb_simulation_save_to_file_interval', [sim.ptr, fn, iv])
        else: I.call('@reb_simulation_save_to_file_step', [sim.ptr, fn, sv])
        return I, dom, sim, (t, nxt, ai, iv, sd, ns_, as_, sv)
    ex = Explorer(run, max_paths=16, timeout_ms=3000); ex.explore()
    rep.queries += ex.nqueries; rep.solver_time += ex.qtime
    for ctx, (I, dom, sim, (t, nxt, ai, iv, sd, ns_, as_, sv)) in ex.results:
        rep.paths += 1; rep.add_interp(I)
        ob = Obligations(rep, Prover(t_inproc_ms=5000, use_external=False), label + "path%d " % rep.paths)
        pc = list(ctx.pc)
        def on_sat(model):
            bad, detail = native_rearm(kind)
            return bad, 'C07:rearm:%s' % kind, detail, dict(kind='rearm', sched=kind)
        if kind == 'interval':
            n2 = dom.z(sim.get('simulationarchive_next')); a2 = dom.z(sim.get('simulationarchive_auto_interval'))
            ob.prove("same interval: the stored next-snapshot time and interval are kept", z3.Implies(iv == ai, z3.And(n2 == nxt, a2 == ai)), pc, on_sat=on_sat, domain='REAL')
            ob.prove("different interval: the schedule restarts at the current time", z3.Implies(iv != ai, z3.And(n2 == t, a2 == iv)), pc, on_sat=on_sat, domain='REAL')
        else:
            n2 = sim.get('simulationarchive_next_step'); a2 = sim.get('simulationarchive_auto_step')
            ob.prove("same step count: the stored next-snapshot step and step count are kept", z3.Implies(sv == as_, z3.And(n2 == ns_, a2 == as_)), pc, on_sat=on_sat, domain='BV64')
            ob.prove("different step count: the schedule restarts at the current step", z3.Implies(sv != as_, z3.And(n2 == sd, a2 == sv)), pc, on_sat=on_sat, domain='BV64')
        ob.witness("path", pc)
    bad, detail = native_rearm(kind); rep.replays += 1
    if bad: rep.violations.append(dict(key='C07:rearm:%s' % kind, what=detail, replay=dict(kind='rearm', sched=kind), obligation=label + 'native twin'))
    return rep

def native_rearm(kind):
    try: return isolated(_native_rearm, kind, timeout=120)
    except NativeCrash as e: return True, "the native library crashed (signal %s) while restarting a run with an automatic %s schedule" % (e.sig, kind)

def _native_rearm(kind):
    """native: an archive written with automatic snapshots is cut inside its first appended snapshot; the run restarted from the last
    intact snapshot (snapshot 0) with the same schedule must produce the same number of snapshots at the same times as the uninterrupted run"""
    import ctypes
    N_ = Native(); L = N_.L
    d = tempfile.mkdtemp(prefix='llsym_c07a_')
    try:
        def run_full(fn, upto):
            ns = N_.create(); ns.add(m=1.0); ns.add(m=1e-3, x=1.0, vy=1.0)
            ns.set('integrator', L.enumerators['REB_INTEGRATOR_WHFAST']); ns.set('dt', 0.1)
            arm(ns, fn); integ(ns, upto); ns.free()
        def arm(ns, fn):
            if kind == 'interval':
                f = N_.lib.reb_simulation_save_to_file_interval; f.argtypes = [ctypes.c_void_p, ctypes.c_char_p, ctypes.c_double]; f.restype = None; f(ns.addr, fn, 1.0)
            else:
                f = N_.lib.reb_simulation_save_to_file_step; f.argtypes = [ctypes.c_void_p, ctypes.c_char_p, ctypes.c_uint64]; f.restype = None; f(ns.addr, fn, 10)
        def integ(ns, tmax):
            f = N_.lib.reb_simulation_integrate; f.argtypes = [ctypes.c_void_p, ctypes.c_double]; f.restype = ctypes.c_int; f(ns.addr, tmax)
        def times(fn):
            op = N_.lib.reb_simulationarchive_create_from_file; op.argtypes = [ctypes.c_char_p]; op.restype = ctypes.c_void_p
            sa = op(fn)
            if not sa: return None
            v = NView(N_, sa, 'reb_simulationarchive'); n = v.get('nblobs'); ta = v.get('t')
            out = [ctypes.c_double.from_address(ta + 8 * k).value for k in range(n)]
            fr = N_.lib.reb_simulationarchive_free; fr.argtypes = [ctypes.c_void_p]; fr(sa); return out
        full = os.path.join(d, 'full.bin').encode(); run_full(full, 3.05)
        ref = times(full)
        cut = os.path.join(d, 'cut.bin').encode(); run_full(cut, 1.05)            # snapshots at t = 0 and t ~ 1
        raw = open(cut, 'rb').read()
        t1 = times(cut)
        # cut inside the second snapshot: find the size of an archive holding only snapshot 0 by writing one
        only0 = os.path.join(d, 'only0.bin').encode(); run_full(only0, 0.05)
        n0 = os.path.getsize(only0)
        open(cut, 'wb').write(raw[:n0 + (len(raw) - n0) // 2])
        ld = N_.lib.reb_simulation_create_from_file; ld.argtypes = [ctypes.c_char_p, ctypes.c_int64]; ld.restype = ctypes.c_void_p
        p = ld(cut, -1)
        if not p: return False, "native: the cut archive does not open (outside this unit)"
        ns = NSim(N_, p); arm(ns, cut); integ(ns, 3.05); ns.free()
        got = times(cut)
        bad = got is None or ref is None or len(got) != len(ref) or any(abs(a - b) > 1e-9 for a, b in zip(got, ref))
        return bad, "native %s schedule: uninterrupted run has snapshots at %r, run restarted from the cut archive (last intact snapshot: the first) has %r" % (kind, [round(x, 6) for x in (ref or [])], [round(x, 6) for x in (got or [])])
    finally:
        shutil.rmtree(d, ignore_errors=True)

def replay(data):
    if data.get('kind') == 'rearm': return native_rearm(data['sched'])
    if data.get('kind') == 'restart': return native_restart(data['cfg'], data['n'], data['hist'], data['j'], int(data['c']))
    return native_crash(data['cfg'], data['n'], data['hist'], data['j'], int(data['c']), data['entry'])[:2]

def run_any(u):
    return run_rearm(u) if u.get('what') == 'rearm' else run_unit(u)

def main():
    tier = os.environ.get('VERIF_TIER') or (sys.argv[1] if len(sys.argv) > 1 else 'quick')
    t0 = time.time()
    build.module(); build.layout(); build.build_native()
    st = ['step', 1]
    us = []
    archs = [('whfast', [[], [st], [st]])]
    if tier == 'thorough': archs += [('ias15', [[], [st], [st]]), ('whfast', [[], [st, ['reset_integrator']], [st]]), ('mercurius', [[], [st]]), ('leapfrog', [[], [['add']], [['remove', 1]]])]
    for cfg, h in archs:
        for j in range(len(h)):
            for entry in ('c_api', 'caller_owned'):
                K = 6 if j == 0 else 1
                for q in range(K):
                    us.append(dict(cfg=cfg, n=2, hist=h, j=j, entry=entry, crange=(q / K, (q + 1) / K)))
    us.append(dict(what='rearm', kind='interval')); us.append(dict(what='rearm', kind='step'))
    rep = run_units(us, run_any)
    code = finish(PID, tier, rep, t0,
        bounds=dict(archives=len(archs), snapshots='2..3', particles=2, crash_points='every byte offset of every write (symbolic)', entry_points=['reb_simulationarchive_create_from_file', 'reb_simulationarchive_create_from_file_with_messages on a caller-owned struct']),
        assumptions=['bytes reach the file in program order and a crash leaves a prefix of the write stream (no reordering, no torn sectors)', 'malloc never fails',
                     'a snapshot whose payload and END field are complete but whose trailer is cut may or may not be exposed (the property does not say)'],
        outside=['restart-and-append is checked only at the end points of every offset range the reader distinguishes (solver-derived representatives), for crashes during appends, one crash cycle', 'archives with more than 3 snapshots', 'walltime fields'],
        domain_note='BV64 crash offset; file contents concrete; patched trailer bytes are ite-terms in the offset')
    sys.exit(code)

if __name__ == '__main__':
    main()
