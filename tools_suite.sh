#!/bin/sh
# runs the repository's own test suite against a library built from the CURRENT /repo working tree, in a scratch copy
# usage: tools_suite.sh [outfile]
set -e
D=$(mktemp -d /tmp/repo_suite_XXXX)
rsync -a --exclude .git /repo/ "$D/"
cd "$D"
rm -f librebound*.so
SRCS=$(ls src/*.c | grep -v communication_mpi)
gcc -fstrict-aliasing -std=c99 -Wno-unknown-pragmas -DGITHASH=verif -DLIBREBOUND -D_GNU_SOURCE -DSERVER -fPIC -O3 -w -shared $SRCS -lm -lpthread -o librebound.cpython-312-x86_64-linux-gnu.so
/venv/bin/python -m pytest -q -p no:cacheprovider --timeout=900 --continue-on-collection-errors -q -ra 2>&1 | tail -40 > "${1:-/tmp/suite_result.txt}" || true
cd /; rm -rf "$D"
