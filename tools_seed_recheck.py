#!/usr/bin/env python3
"""re-run the checks against an already confirmed seeded change: tools_seed_recheck.py <name> [check ids...]  (updates seeded/<name>/meta.json)"""
import sys, os, subprocess, json, tempfile, shutil, time
name = sys.argv[1]; d = os.path.join('/verif/seeded', name); meta = json.load(open(os.path.join(d, 'meta.json')))
ids = sys.argv[2:] or [meta['property']]
V = tempfile.mkdtemp(prefix='seedwt_'); os.rmdir(V)
def sh(cmd, cwd=None, env=None, timeout=5400):
    e = dict(os.environ); e.update(env or {})
    r = subprocess.run(cmd, shell=True, cwd=cwd, env=e, capture_output=True, text=True, timeout=timeout); return r.returncode, r.stdout + r.stderr
try:
    rc, out = sh("git -C /repo worktree add -q --detach %s HEAD" % V); assert rc == 0, out
    rc, out = sh("git apply %s" % os.path.join(d, 'patch.diff'), cwd=V); assert rc == 0, out
    ran = []
    for cid in ids:
        for tier in ('quick', 'thorough'):
            outdir = tempfile.mkdtemp(prefix='seedout_'); t0 = time.time()
            rc, out = sh("./check %s %s" % (cid, tier), cwd='/verif', env={'VERIF_REPO': V, 'VERIF_OUT': outdir})
            viol = [l for l in out.splitlines() if l.startswith('VIOLATION')]; what = [l.strip() for l in out.splitlines() if l.strip().startswith('what:')]
            ran.append(dict(check=cid, tier=tier, exit=rc, violations=len(viol), first=what[:2], wall_s=round(time.time() - t0, 1)))
            shutil.rmtree(outdir, ignore_errors=True)
            if rc == 1 and viol: break
    meta['ran_recheck'] = ran
    meta['caught_by'] = sorted({(r['check'], r['tier']) for r in ran if r['exit'] == 1 and r['violations']})       # this run only
    meta['caught_by'] = [list(x) for x in meta['caught_by']]
    json.dump(meta, open(os.path.join(d, 'meta.json'), 'w'), indent=1)
    print(json.dumps({'name': name, 'caught_by': meta['caught_by']}))
finally:
    sh("git -C /repo worktree remove --force %s" % V)
