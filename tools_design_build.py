#!/usr/bin/env python3
"""assemble DESIGN.md from design_src/{front,sec5_intro,tail}.md and the generated parts (tools_design.py)"""
import subprocess, os, json, re
V = os.path.dirname(os.path.abspath(__file__))
gen = subprocess.run(['python3', os.path.join(V, 'tools_design.py')], capture_output=True, text=True, check=True).stdout
per, rest = gen.split("<!-- SEED TABLE -->")
seedt, findt = rest.split("<!-- FINDINGS TABLE -->")
tail = open(os.path.join(V, 'design_src/tail.md')).read()
tim = "(no timings recorded yet)"
tp = os.path.join(V, 'timings.json')
if os.path.exists(tp):
    t = json.load(open(tp))
    rows = ["| id | quick wall (s) | thorough wall (s) | thorough verdict |", "|---|---|---|---|"]
    for pid in sorted(t):
        q = t[pid].get('quick', {}); th = t[pid].get('thorough', {})
        rows.append("| %s | %s | %s | %s |" % (pid, q.get('wall', '-'), th.get('wall', '-'), th.get('summary', '-')))
    tim = '\n'.join(rows)
inc = sum(json.load(open(os.path.join(V, 'evidence', f)))['coverage']['inconclusive'] for f in os.listdir(os.path.join(V, 'evidence')) if f.endswith('.json'))
nfix = len([l for l in subprocess.run(['git', '-C', '/repo', 'log', '--oneline'], capture_output=True, text=True).stdout.splitlines() if ' fix:' in l])
tail = tail.replace('NFIX', str(nfix))
tail = tail.replace("GENERATED_FINDINGS_TABLE", findt.strip()).replace("GENERATED_SEED_TABLE", seedt.strip()).replace("GENERATED_TIMING_TABLE", tim)
tail = re.sub(r"\d+ obligations on the unchanged tree are `sat` in the\nabstraction and do not reproduce", "%d obligations on the unchanged tree are inconclusive (`sat` in the\nabstraction without native reproduction, or solver timeout)" % inc, tail)
out = open(os.path.join(V, 'design_src/front.md')).read().replace('NFIX', str(nfix)) + open(os.path.join(V, 'design_src/sec5_intro.md')).read() + per.strip() + "\n\n--------------------------------------------------------------------------------------------\n\n" + tail
open(os.path.join(V, 'DESIGN.md'), 'w').write(out)
print(len(out.splitlines()), 'lines')
