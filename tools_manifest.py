#!/usr/bin/env python3
"""regenerates MANIFEST.json from the table below (kept as code so that it always validates)"""
import json, os
HERE = os.path.dirname(os.path.abspath(__file__))
props = [json.loads(l) for l in open(os.path.join(HERE, 'properties.jsonl'))]
ids = [p['id'] for p in props]
CLAIMED = {
 'C02': dict(text="Bounded symbolic model checking of the real force routines: reb_calculate_acceleration is executed from clang's LLVM IR of the current tree on symbolic positions, masses, G, softening and box sizes (exact real arithmetic), for every (routine, N<=3/5, N_active, testparticle_type, gravity_ignore_terms, ghost-box) configuration in the bound, and each acceleration component is proved equal to an independent pairwise Newtonian sum by z3; MERCURIUS/TRACE: the two parts add up to the heliocentric force for an arbitrary switching function / every 0-1 encounter matrix. Counterexamples are replayed on a natively built library before being reported.",
             note="REAL domain: rounding error magnitude is outside the claim; sqrt/inv as uninterpreted atoms with instantiated field axioms; clang -O0 IR lowering, llsym interpreter (validated bit-for-bit against the native build on every run), z3; tree code and JACOBI routine not covered here.",
             technique="SMT-based bounded symbolic execution of LLVM IR (llsym + z3), differential against a reference sum", ref='5/C02'),

 'C12': dict(text="Bounded symbolic model checking of the real reb_particles_transform_* functions (Jacobi, democratic heliocentric, WHDS, barycentric; pos/posvel/acc/posvelacc variants) and of the MERCURIUS/TRACE heliocentric shifts: executed from LLVM IR on symbolic positions, velocities, accelerations and masses for every N<=4/6 and every N_active in 1..N; z3 proves inverse∘forward = identity and forward∘inverse = identity per component, slot 0 = (total active mass, COM position, COM velocity), Jacobi coordinates equal their textbook definition, and the variants agree on common outputs. Counterexamples are replayed natively.",
             note="REAL domain (exact rationals): rounding error magnitude is outside the claim; denominators (partial mass sums) assumed non-zero, m_0>0, masses>=0; N_active=0 outside; inertial_to_barycentric_acc is declared but not defined in the library and therefore not covered.",
             technique="SMT-based bounded symbolic execution of LLVM IR (llsym + z3), rational-function identities", ref='5/C12'),

 'C14': dict(text="Bounded symbolic model checking of the real particle bookkeeping: reb_simulation_add / remove_particle(index, keep_sorted) / remove_particle_by_hash / particle_by_hash / remove_all_particles and hash assignment are executed from LLVM IR over histories (1..3 adds followed by up to 3 operations; all op sequences in the thorough tier) with symbolic payload bits, symbolic 32-bit hashes (zero and duplicates included), symbolic 32-bit indices and hash arguments, storage made exactly full to cross realloc growth, N_active set/unset. A list-of-records reference model runs in lockstep on the same path condition; for each of the explored paths the solver proves post-state == model, lookup soundness/completeness, failure => simulation unchanged; the memory model checks every access (bounds, use-after-free, invalid free). reb_hash is proved equal to MurmurHash3_x86_32 on symbolic strings of 0..4/8 bytes. A model of every path condition is replayed natively against the list model.",
             note="UF/BITS domain: doubles are opaque bit patterns; malloc never fails; default integrator (hybrid-integrator and tree removal paths outside); N_active after an unsorted removal or after removing the last particle is undocumented and not asserted; Python Particles container not covered.",
             technique="SMT-based bounded symbolic execution of LLVM IR with forking (llsym + z3, QF_BV/UF), lockstep reference model", ref='5/C14'),

 'C05': dict(text="Bounded symbolic model checking of save/restore on the real code: for 15 reachable configurations (every integrator incl. unsynchronised and non-default options, states produced by 0-2 real steps, N=2/3) every persisted scalar — each entry of the library's own reb_binary_field_descriptor_list, every element of every persisted array (particles, p_jh, IAS15 arrays, p_int, dcrit, ...) and every documented user option even if absent from the table — is replaced by an unconstrained symbolic bit-vector; the real reb_simulation_save_to_file and reb_simulation_create_from_file are executed from LLVM IR on a model file system; R1: every location of the restored simulation holds the same term as the original; R2: saving the restored simulation again gives byte-identical content; R3 (fixed-step integrators, symbolic doubles, Kepler solver uninterpreted): one/two further real steps of original and restored give identical terms on every persisted location. Violations are replayed through the native library with real files.",
             note="UF/BITS domain; fields that save/load branch on (N, module selectors, archive version) keep concrete reachable values (listed in evidence); callbacks not persisted by design; continuation of adaptive/hybrid integrators is only exercised by an auxiliary native twin run (not solver-decided); continuation length <= 2 steps; WHFast512 and variational configurations outside (C17 covers var_config).",
             technique="SMT-based bounded symbolic execution of LLVM IR (llsym + z3, bit-vector/UF terms), table-driven round-trip and twin-run equality", ref='5/C05'),

 'C17': dict(text="Bounded symbolic model checking of copy and compare on the real code: on reachable states (8/17 configurations, all integrators, variational configuration) with every persisted location an unconstrained symbolic bit-vector, the real reb_simulation_copy is executed from LLVM IR and every persisted location of the copy is proved to hold the same term, no heap object is shared, reb_simulation_diff(copy, source)==0 in both directions on every path, stepping the copy leaves every byte reachable from the source unchanged and (fixed-step integrators) both evolve to identical terms. Compare exactness: for each persisted location in turn (representatives in quick, all in thorough) the copy receives a fresh symbolic value v and on every path of the real reb_simulation_diff the solver proves (result != 0) <=> (v differs bitwise from the original), walltime* fields excepted. Counterexamples are replayed natively (copy, poke, diff).",
             note="UF/BITS with exact IEEE equality predicates on bit patterns; only the perturbed quantity may be NaN in a given query (others assumed not NaN); N=2; Kepler solver uninterpreted in the twin step; two known findings (NaN / signed zero in particle members, see known_findings.json).",
             technique="SMT-based bounded symbolic execution of LLVM IR with path forking (llsym + z3), single-location perturbation", ref='5/C17'),
}
NA = {}
checks = []
for i in ids:
    if i in CLAIMED:
        c = CLAIMED[i]
        checks.append(dict(property_id=i, quick_cmd="./check %s quick" % i, thorough_cmd="./check %s thorough" % i,
                           evidence_file="evidence/%s.json" % i, replay_cmd_template="python3-vt checks/replay.py {path}",
                           engine="llsym", level_claimed=dict(category="model_checking", text=c['text'], design_ref=c['ref']),
                           level_note=c['note'], technique=c['technique']))
man = dict(version=1,
    setup_cmd="python3-vt -c \"import z3; print('z3', z3.get_version_string())\" && clang-14 --version | head -1",
    hooks=dict(guard="REBOUND_VERIF", enable="no source hooks are needed: static functions are reached through the linked LLVM IR", 
               baseline_off_cmd="cd /repo && /venv/bin/python -m pytest -ra -q -p no:cacheprovider --timeout=900 --continue-on-collection-errors", source_commits=[], add_only=True),
    engines=[dict(name="llsym", path="llsym/", serves_properties=sorted(CLAIMED), kind_free_text="own symbolic interpreter of clang-14 LLVM IR (Python + z3py) with REAL/UF/FP/CONC value domains, SMT portfolio, native replay")],
    checks=checks,
    notes="All checks rebuild IR and a native replay library from /repo's working tree into a mkdtemp scratch directory removed at exit.",
    not_applicable=[dict(property_id=i, reason=NA.get(i, "check not built yet in this session (work in progress; see DESIGN.md section 5 for the plan)")) for i in ids if i not in CLAIMED])
json.dump(man, open(os.path.join(HERE, 'MANIFEST.json'), 'w'), indent=1)
print("claimed", sorted(CLAIMED), "n/a", len(man['not_applicable']))
