#!/usr/bin/env python3
"""emit the generated parts of DESIGN.md (section 5 per property, seeded-change table, findings table) from MANIFEST.json,
evidence/*.json, seeded/*/meta.json and known_findings.json:  python3 tools_design.py > /tmp/design_generated.md"""
import json, os, textwrap
V = os.path.dirname(os.path.abspath(__file__))
man = json.load(open(os.path.join(V, 'MANIFEST.json')))
props = {}
for l in open(os.path.join(V, 'properties.jsonl')):
    p = json.loads(l); props[p['id']] = p
known = json.load(open(os.path.join(V, 'known_findings.json')))['findings']
seeds = {}
for d in sorted(os.listdir(os.path.join(V, 'seeded'))):
    mp = os.path.join(V, 'seeded', d, 'meta.json')
    if os.path.exists(mp):
        m = json.load(open(mp)); seeds.setdefault(m['property'], []).append((d, m))
def wrap(s, ind=''):
    return '\n'.join(textwrap.fill(par, 98, initial_indent=ind, subsequent_indent=ind) for par in s.split('\n'))
out = []
for c in man['checks']:
    pid = c['property_id']; p = props[pid]
    ev = json.load(open(os.path.join(V, 'evidence', pid + '.json'))); cov = ev['coverage']
    out.append("### %s — %s\n" % (pid, p['title']))
    out.append(wrap("**Decided (as built).** " + c['level_claimed']['text']) + "\n")
    out.append(wrap("**Not decided.** " + c.get('level_note', '')) + "\n")
    out.append("**Outside the claim (from the evidence file):**\n")
    for o in cov['outside_claim']: out.append(wrap("* " + o, '') )
    out.append("")
    out.append(wrap("**Bounds of the quick tier.** " + json.dumps(cov['bounds'], ensure_ascii=False)) + "\n")
    out.append(wrap("**Stubs reached** (each is part of the claim, contracts in 2.4): " + ', '.join(cov['stubs_reached']) + ".") + "\n")
    out.append(wrap("**Last quick run on the unchanged tree:** %d obligations, %d discharged (%d closed by the term simplifier), %d inconclusive, %d paths, %d IR instructions, %d native replays, %d reachability witnesses, solver %.1f s." % (
        cov['obligations'], cov['discharged'], cov.get('closed_by_simplifier', 0), cov['inconclusive'], cov['states'], cov['transitions'], cov['traces_validated_against_impl'], cov['reachability_witnesses'], cov['solver_time_s'])) + "\n")
    ks = [k for k in known if k['property'] == pid]
    if ks:
        out.append("**Defects found by this check:**\n")
        for k in ks: out.append(wrap("* [%s%s] `%s` — %s" % (k['status'], (' in /repo ' + k['commit']) if k.get('commit') else '', k['key'], k['what'].split(k.get('commit', '\0') + ' ')[-1] if k.get('commit') else k['what'])))
        out.append("")
    if pid in seeds:
        out.append("**Seeded changes:**\n")
        for d, m in seeds[pid]:
            cb = m.get('caught_by') or []
            out.append(wrap("* `seeded/%s` — confirmed=%s; caught by: %s" % (d, m.get('confirmed'), ', '.join("%s %s" % tuple(x) for x in cb) if cb else 'NOT caught')))
        out.append("")
print('\n'.join(out))
print("\n<!-- SEED TABLE -->\n")
print("| seeded change | property | breaks (one line) | caught by |\n|---|---|---|---|")
for pid in sorted(seeds):
    for d, m in seeds[pid]:
        notes = ''
        np_ = os.path.join(V, 'seeded', d, 'notes.md')
        cb = m.get('caught_by') or []
        print("| `%s` | %s | %s | %s |" % (d, pid, m.get('summary', ''), ', '.join("%s %s" % tuple(x) for x in cb) if cb else '**not caught**'))
print("\n<!-- FINDINGS TABLE -->\n")
print("| property | key | status | what |\n|---|---|---|---|")
for k in known:
    print("| %s | `%s` | %s%s | %s |" % (k['property'], k['key'], k['status'], (' ' + k['commit']) if k.get('commit') else '', k['what'].replace('|', '/')[:400]))
