import rebound, sys, warnings, os
warnings.simplefilter("ignore")
s = rebound.Simulation(); s.add(m=1); s.add(m=1e-3,a=1)
if os.path.exists("a.bin"): os.remove("a.bin")
s.save_to_file("a.bin")
data=open("a.bin","rb").read()
cut=int(sys.argv[1])
open("t.bin","wb").write(data[:cut])
print("size",len(data),"cut",cut); sys.stdout.flush()
try:
    sa=rebound.Simulationarchive("t.bin"); print("opened nblobs",sa.nblobs)
except Exception as e: print("exc",repr(e))
print("alive")
