import z3, time, sys, subprocess
from z3 import *
rm=RNE()
def q(eb,sb,steps,tl=120):
    F=FPSort(eb,sb)
    t0=FP("t0",F); tmax=FP("tmax",F)
    def fin(x): return And(Not(fpIsNaN(x)),Not(fpIsInf(x)))
    cons=[fin(t0),fin(tmax),fpLT(t0,tmax)]
    t=t0
    for k in range(steps):
        d=fpSub(rm,tmax,t); cons.append(fin(d)); t=fpAdd(rm,t,d)
    cons.append(Not(fpEQ(t,tmax)))
    S=Solver(); S.add(cons)
    fn=f"w_{eb}_{sb}_{steps}.smt2"; open(fn,"w").write("(set-logic QF_FP)\n"+S.sexpr()+"(check-sat)\n")
    for sol in (["z3","-T:%d"%tl],["cvc5","--tlimit=%d"%(tl*1000)]):
        st=time.time()
        try: out=subprocess.run(sol+[fn],capture_output=True,text=True,timeout=tl+10).stdout.strip().split("\n")[0]
        except Exception: out="timeout"
        print(f"eb={eb} sb={sb} steps={steps}",sol[0],out,round(time.time()-st,1)); sys.stdout.flush()
for (eb,sb) in ((5,11),(8,24)):
    for steps in (1,2,3):
        q(eb,sb,steps)
