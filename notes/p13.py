import z3, time, sys, subprocess
from z3 import *
rm=RNE(); F=Float64()
a=FP("a",F); b=FP("b",F)
def fin(x): return And(Not(fpIsNaN(x)),Not(fpIsInf(x)))
mid=fpDiv(rm,fpAdd(rm,a,b),FPVal(2.0,F))
S=Solver(); S.add(fin(a),fin(b),fpLEQ(a,b),fin(fpAdd(rm,a,b)))
S.add(Not(And(fpLEQ(a,mid),fpLEQ(mid,b))))
open("mid.smt2","w").write("(set-logic QF_FP)\n"+S.sexpr()+"(check-sat)\n")
for sol in (["z3","-T:300"],["z3-new","-T:300"],["cvc5","--tlimit=300000"]):
    st=time.time()
    try: out=subprocess.run(sol+["mid.smt2"],capture_output=True,text=True,timeout=310).stdout.strip().split("\n")[0]
    except Exception: out="timeout"
    print("midpoint-in-bracket",sol[0],out,round(time.time()-st,1)); sys.stdout.flush()
