import z3, time, sys, subprocess
from z3 import *
F=Float64(); rm=RNE()
def fv(x): return FPVal(x,F)
t0=FP("t0",F); dt0=FP("dt0",F); tmax=FP("tmax",F)
def fin(x): return And(Not(fpIsNaN(x)),Not(fpIsInf(x)))
def close(t):
    tscale=fpMul(rm,fv(1e-12),fpAbs(tmax)); tscale=If(fpLT(tscale,fv(1e-200)),fv(1e-12),tscale)
    return fpLT(fpAbs(fpSub(rm,t,tmax)),tscale)
base=[fin(t0),fin(dt0),fin(tmax), fpGT(dt0,fv(0.0)), fpLT(t0,tmax), fpLT(fpAbs(t0),fv(1e100)),fpLT(fpAbs(tmax),fv(1e100)),fpLT(dt0,fv(1e100)), fpGEQ(fpAdd(rm,t0,dt0),tmax)]
def run(name,cons):
    S=Solver(); S.add(base+cons)
    fn=f"fp_{name}.smt2"; open(fn,"w").write("(set-logic QF_FP)\n"+S.sexpr()+"(check-sat)\n")
    for sol in (["z3","-T:300"],["z3-new","-T:300"],["cvc5","--tlimit=300000"]):
        t=time.time()
        try: out=subprocess.run(sol+[fn],capture_output=True,text=True,timeout=310).stdout.strip().split("\n")[0]
        except Exception: out="timeout"
        print(name,sol[0],out,round(time.time()-t,1)); sys.stdout.flush()
t1=fpAdd(rm,t0,fpSub(rm,tmax,t0))
t2=fpAdd(rm,t1,fpSub(rm,tmax,t1))
t3=fpAdd(rm,t2,fpSub(rm,tmax,t2))
nf=lambda t: And(Not(fpEQ(t,tmax)),Not(close(t)))
run("after1", [nf(t1)])                 # expected sat (second corrective step needed)
run("after2", [nf(t1),nf(t2)])          # expected unsat?
