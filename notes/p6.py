import z3, time, sys, subprocess
from z3 import Real, Reals, Solver, Or, And
a,e,G,M,m=Reals("a e G M m")
cO,sO,co,so,cf,sf,ci,si=Reals("cO sO co so cf sf ci si")
v0=Real("v0"); d=Real("d")
mu=G*(m+M)
trig=[cO*cO+sO*sO==1, co*co+so*so==1, cf*cf+sf*sf==1, ci*ci+si*si==1, si>=0]
r=a*(1-e*e)/(1+e*cf)
cons=trig+[a>0,e>=0,e<1,G>0,M>0,m>=0, v0>0, v0*v0==mu/a/(1-e*e)]
x=r*(cO*(co*cf-so*sf)-sO*(so*cf+co*sf)*ci)
y=r*(sO*(co*cf-so*sf)+cO*(so*cf+co*sf)*ci)
z=r*(so*cf+co*sf)*si
vx=v0*((e+cf)*(-ci*co*sO-cO*so)-sf*(co*cO-ci*so*sO))
vy=v0*((e+cf)*(ci*co*cO-sO*so)-sf*(co*sO+ci*so*cO))
vz=v0*((e+cf)*co*si-sf*si*so)
# back
cons+= [d>0, d*d==x*x+y*y+z*z]
vsq=vx*vx+vy*vy+vz*vz
vcirc=mu/d
a_out=-mu/(vsq-2*vcirc)
hx=y*vz-z*vy; hy=z*vx-x*vz; hz=x*vy-y*vx
def run(name,goal,extra=[]):
    S=Solver(); S.add(cons+extra); S.add(goal)
    fn=f"q_{name}.smt2"; open(fn,"w").write("(set-logic QF_NRA)\n"+S.sexpr()+"(check-sat)\n")
    for sol in (["z3","-T:60"],["z3-new","-T:60"],["cvc5","--tlimit=60000"]):
        t=time.time()
        try: out=subprocess.run(sol+[fn],capture_output=True,text=True,timeout=70).stdout.strip().split("\n")[0]
        except Exception as ex: out="timeout"
        print(name,sol[0],out,round(time.time()-t,2)); sys.stdout.flush()
run("d_eq_r", d!=r)
run("h2", hx*hx+hy*hy+hz*hz != mu*a*(1-e*e))
run("hz", hz*hz != mu*a*(1-e*e)*ci*ci)
run("a", a_out!=a)
