import z3, time, sys
from z3 import *
F=Float64(); rm=RNE()
t=FP("t",F); tmax=FP("tmax",F)
def fin(x): return And(Not(fpIsNaN(x)),Not(fpIsInf(x)))
big=FPVal(1e100,F)
S=Solver(); S.set("timeout",120000)
S.add(fin(t),fin(tmax), fpLT(t,tmax), fpLT(fpAbs(t),big), fpLT(fpAbs(tmax),big))
dt=fpSub(rm,tmax,t)
t2=fpAdd(rm,t,dt)
tscale=fpMul(rm,FPVal(1e-12,F),fpAbs(tmax))
tscale=If(fpLT(tscale,FPVal(1e-200,F)),FPVal(1e-12,F),tscale)
ok=Or(fpEQ(t2,tmax), fpLT(fpAbs(fpSub(rm,t2,tmax)),tscale))
S.add(Not(ok))
st=time.time(); r=S.check(); print("one-step finish:",r,round(time.time()-st,2))
if r==sat:
    m=S.model(); print(m[t],m[tmax], m.eval(t2))
