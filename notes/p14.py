import z3, time, sys, subprocess
from z3 import Real, Reals, Solver, Or, And
exec(open('/verif/notes/p6.py').read().split("def run(")[0])
n=Real("n"); ecc=Real("ecc")
def run(name,goal,extra=[]):
    S=Solver(); S.add(cons+extra); S.add(goal)
    fn=f"q_{name}.smt2"; open(fn,"w").write("(set-logic QF_NRA)\n"+S.sexpr()+"(check-sat)\n")
    for sol in (["z3","-T:90"],["z3-new","-T:90"],["cvc5","--tlimit=90000"]):
        t=time.time()
        try: out=subprocess.run(sol+[fn],capture_output=True,text=True,timeout=100).stdout.strip().split("\n")[0]
        except Exception as ex: out="timeout"
        print(name,sol[0],out,round(time.time()-t,2)); sys.stdout.flush()
nx=-hy; ny=hx
run("Omega_cos", nx!=cO*n, [n>=0, n*n==nx*nx+ny*ny, si>0])
run("Omega_sin", ny!=sO*n, [n>=0, n*n==nx*nx+ny*ny, si>0])
# eccentricity vector magnitude
vdiff=vsq-vcirc; rvr=x*vx+y*vy+z*vz; muinv=1/mu
ex=muinv*(vdiff*x-rvr*vx); ey=muinv*(vdiff*y-rvr*vy); ez=muinv*(vdiff*z-rvr*vz)
run("e2", ex*ex+ey*ey+ez*ez!=e*e)
