import rebound, os, warnings
warnings.simplefilter("ignore")
# C17: var_config
sim = rebound.Simulation(); sim.add(m=1); sim.add(m=1e-3,a=1)
v = sim.add_variation()
c = sim.copy()
print("C17 copy==source with var_config:", c==sim)
sim2 = rebound.Simulation(); sim2.add(m=1); sim2.add(m=1e-3,a=1)
print("C17 plain copy==source:", sim2.copy()==sim2)
# C14: remove out of range when N==1
s = rebound.Simulation(); s.add(m=1)
try:
    s.remove(5); print("C14 remove(5) with N=1 -> N =", s.N)
except Exception as e: print("C14 exc", e, s.N)
# C18: trace peri_mode
s = rebound.Simulation(); s.integrator="trace"
try:
    print("peri_mode get:", s.ri_trace.peri_mode)
except Exception as e: print("C18 get exc:", repr(e))
try:
    s.ri_trace.peri_mode = "PARTIAL_BS"; print("set ok; read:", s.ri_trace.peri_mode)
except Exception as e: print("C18 set exc:", repr(e))
# C06: vanished field
if os.path.exists("c06.bin"): os.remove("c06.bin")
s = rebound.Simulation(); s.add(m=1); s.add(m=1e-3,a=1); s.integrator="whfast"; s.dt=0.01
s.step()            # allocates p_jh
s.save_to_file("c06.bin")
s.reset_integrator() if hasattr(s,"reset_integrator") else None
s.integrator="ias15"
s.save_to_file("c06.bin")
s.step()
s.save_to_file("c06.bin")
try:
    sa = rebound.Simulationarchive("c06.bin")
    print("C06 nblobs", len(sa), [sa[i].t for i in range(len(sa))])
    for i in range(len(sa)):
        print(i, sa[i].N, sa[i].integrator, sa[i].t)
except Exception as e: print("C06 exc", repr(e))
