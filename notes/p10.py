import z3, time, sys
from z3 import *
F=Float64(); rm=RNE()
def fv(x): return FPVal(x,F)
t0=FP("t0",F); dt0=FP("dt0",F); tmax=FP("tmax",F)
RUNNING,LAST,SUCCESS=-1,-2,0
def check_exit(t,dt,status,last_full,dt_last_done):
    # exact_finish_time==1, dt>0 => dtsign=+1 ; returns new (dt,status,last_full)
    st=status
    over=fpGEQ(fpAdd(rm,t,dt),tmax)
    tscale=fpMul(rm,fv(1e-12),fpAbs(tmax)); tscale=If(fpLT(tscale,fv(1e-200)),fv(1e-12),tscale)
    close=fpLT(fpAbs(fpSub(rm,t,tmax)),tscale)
    newdt=fpSub(rm,tmax,t)
    # branches
    st_over=If(fpEQ(t,tmax),SUCCESS, If(st==LAST, If(close,SUCCESS,LAST), LAST))
    dt_over=If(fpEQ(t,tmax),dt, If(st==LAST, If(close,dt,newdt), newdt))
    lf_over=If(And(Not(fpEQ(t,tmax)),st!=LAST, Not(fpEQ(dt_last_done,fv(0.0)))),dt_last_done,last_full)
    st_n=If(over,st_over, If(st==LAST,RUNNING,st))
    dt_n=If(over,dt_over,dt)
    lf_n=If(over,lf_over,last_full)
    st_n=If(st>=0,st,st_n); dt_n=If(st>=0,dt,dt_n); lf_n=If(st>=0,last_full,lf_n)
    return dt_n,st_n,lf_n
def fin(x): return And(Not(fpIsNaN(x)),Not(fpIsInf(x)))
for K in (3,4):
    S=Solver(); S.set("timeout",600000)
    S.add(fin(t0),fin(dt0),fin(tmax), fpGT(dt0,fv(0.0)), fpLT(t0,tmax))
    S.add(fpLT(fpAbs(t0),fv(1e100)),fpLT(fpAbs(tmax),fv(1e100)),fpLT(dt0,fv(1e100)), fpGT(dt0,fv(1e-100)))
    S.add(fpLEQ(fpSub(rm,tmax,t0), fpMul(rm,fv(1.5),dt0)))   # target within 1.5 steps
    t,dt,st,lf,dld=t0,dt0,IntVal(RUNNING),dt0,fv(0.0)
    for k in range(K):
        dt,st,lf=check_exit(t,dt,st,lf,dld)
        run=st<0
        t=If(run,fpAdd(rm,t,dt),t); dld=If(run,dt,dld)
    dt,st,lf=check_exit(t,dt,st,lf,dld)
    S.add(Not(st==SUCCESS))
    tt=time.time(); r=S.check(); print("K",K,"not finished after K steps:",r,round(time.time()-tt,1)); sys.stdout.flush()
    if r==sat:
        m=S.model(); print(" t0",m[t0],"dt0",m[dt0],"tmax",m[tmax])
