import z3, time, sys
from z3 import *
F=Float64(); rm=RNE()
a=FP("a",F); b=FP("b",F)
def nn(x): return Not(fpIsNaN(x))
def bits(x): return fpToIEEEBV(x)
tests={
 "mul":   lambda: bits(fpMul(rm,fpNeg(a),b))!=bits(fpNeg(fpMul(rm,a,b))),
 "div":   lambda: bits(fpDiv(rm,fpNeg(a),b))!=bits(fpNeg(fpDiv(rm,a,b))),
 "add":   lambda: bits(fpAdd(rm,fpNeg(a),fpNeg(b)))!=bits(fpNeg(fpAdd(rm,a,b))),
}
for k,g in tests.items():
    S=Solver(); S.set("timeout",120000)
    S.add(nn(a),nn(b)); 
    if k!="add": pass
    S.add(nn(fpMul(rm,a,b)) if k=="mul" else nn(fpDiv(rm,a,b)) if k=="div" else nn(fpAdd(rm,a,b)))
    S.add(g()); t=time.time(); print(k,S.check(),round(time.time()-t,2)); sys.stdout.flush()
# fptosi symmetry
x=FP("x",F)
S=Solver(); S.set("timeout",120000)
lim=FPVal(2.0**62,F)
S.add(nn(x), fpLT(fpAbs(x),lim))
S.add(fpToSBV(RTZ(),fpNeg(x),BitVecSort(64)) != -fpToSBV(RTZ(),x,BitVecSort(64)))
t=time.time(); print("fptosi",S.check(),round(time.time()-t,2))
