import rebound, warnings, math
warnings.simplefilter("ignore")
from rebound import M_to_E, M_to_f
print("M_to_E(1.5,0) =", M_to_E(1.5,0.), " M_to_f:", M_to_f(1.5,0.))
s=rebound.Simulation(); s.add(m=1)
try:
    s.add(m=1e-3,a=-1,e=1.5,M=0.); print("hyperbolic M=0 particle:", s.particles[1].x, s.particles[1].vx)
except Exception as e: print("exc",e)
import rebound.units as U
print(len(U.lengths_SI),len(U.times_SI),len(U.masses_SI))
# keep_sorted remove with tree
s=rebound.Simulation(); s.configure_box(10.); s.gravity="tree"
s.add(m=1,x=1); s.add(m=1,x=-1); s.add(m=1,y=2)
s.step()
try:
    r=s.remove(0,keep_sorted=True); print("removed?",r,"N",s.N)
except Exception as e: print("exc:",e,"N now",s.N, [p.x for p in s.particles])
