import z3, time, sys
from z3 import Real, Reals, Solver, Or, And
exec(open('p4.py').read().split("q=Reals")[0])
q=Reals("qx qy qz qr"); p=Reals("px py pz pr"); v=Reals("vx vy vz")
goal = rot(rot(v,q),p)[0]!=rot(v,qmul(p,q))[0]
cons=[dot(q,q)==1, dot(p,p)==1]
# dump smt2
S=Solver(); S.add(cons); S.add(goal)
open("compose.smt2","w").write("(set-logic QF_NRA)\n"+S.sexpr()+"(check-sat)\n")
for name,mk in [("nlsat",lambda: z3.Tactic('qfnra-nlsat').solver()),
                ("smt nla grobner", lambda: z3.SolverFor("QF_NRA"))]:
    S=mk(); S.set("timeout",60000); S.add(cons); S.add(goal)
    t=time.time(); print(name,S.check(),round(time.time()-t,2)); sys.stdout.flush()
# substitution trick: eliminate constraint by parametrization qr^2 = 1 - ... not poly. Use homogenization: prove identity scaled: |q|^2|p|^2 * ... 
# lemma approach
def conj_rot(v,q):
    i=q[:3]; r=q[3]
    return add(add(mul(v,r*r-dot(i,i)), mul(i,2*dot(i,v))), mul(cross(i,v),2*r))
t=time.time()
S=Solver(); S.set("timeout",60000); S.add(dot(q,q)==1); S.add(Or([rot(v,q)[k]!=conj_rot(v,q)[k] for k in range(3)])); print("L1",S.check(),round(time.time()-t,2))
S=Solver(); S.set("timeout",60000); S.add(Or([conj_rot(conj_rot(v,q),p)[k]!=conj_rot(v,qmul(p,q))[k] for k in range(3)])); print("L2",S.check(),round(time.time()-t,2))
pq=qmul(p,q)
S=Solver(); S.set("timeout",60000); S.add(dot(pq,pq)!=dot(p,p)*dot(q,q)); print("L3",S.check(),round(time.time()-t,2))
