import z3, time, subprocess, sys
from z3 import *
r0,eta0,M,beta,X,G0,G1,G2,G3,dt=Reals("r0 eta0 M beta X G0 G1 G2 G3 dt")
zeta0=M-beta*r0
cons=[r0>0,M>0, G0==1-beta*G2, G1==X-beta*G3, G1*G1==G2*(1+G0), dt==r0*X+eta0*G2+zeta0*G3]
# extra Stumpff identity: G2^2 = G3*G1*... use: G1*G2 - ... keep minimal first
r=r0+eta0*G1+zeta0*G2
ri=1/r; r0i=1/r0
f=-M*G2*r0i; g=dt-M*G3; fd=-M*G1*r0i*ri; gd=-M*G2*ri
goal=(1+f)*(1+gd)-g*fd!=1
S=Solver(); S.add(cons+[r!=0]); S.add(goal)
open("fg.smt2","w").write("(set-logic QF_NRA)\n"+S.sexpr()+"(check-sat)\n(get-model)\n")
for sol in (["z3","-T:60"],["z3-new","-T:60"],["cvc5","--tlimit=60000"]):
    t=time.time()
    try: out=subprocess.run(sol+["fg.smt2"],capture_output=True,text=True,timeout=70).stdout.strip().split("\n")
    except Exception as ex: out=["timeout"]
    print(sol[0],out[0],round(time.time()-t,2)); 
    if out[0]=="sat": print(out[1:14])
