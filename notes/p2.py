import z3, time
from z3 import Real, Solver, Or, Function, RealSort
SQ=Function("sqrt",RealSort(),RealSort()); DIV=Function("div",RealSort(),RealSort(),RealSort())
def gravity(N):
    x=[[Real(f"x{i}_{k}") for k in range(3)] for i in range(N)]
    m=[Real(f"m{i}") for i in range(N)]
    G=Real("G"); eps=Real("eps")
    a=[[z3.RealVal(0) for k in range(3)] for i in range(N)]
    for i in range(1,N):
        for j in range(0,i):
            d=[x[i][k]-x[j][k] for k in range(3)]
            r=SQ(d[0]*d[0]+d[1]*d[1]+d[2]*d[2]+eps*eps)
            prefact=DIV(G,(r*r*r))
            pj=-prefact*m[j]; pi=prefact*m[i]
            for k in range(3):
                a[i][k]=a[i][k]+pj*d[k]
                a[j][k]=a[j][k]+pi*d[k]
    spec=[[z3.RealVal(0) for k in range(3)] for i in range(N)]
    for i in range(N):
        for j in range(N):
            if i==j: continue
            d=[x[j][k]-x[i][k] for k in range(3)]
            r=SQ(d[0]*d[0]+d[1]*d[1]+d[2]*d[2]+eps*eps)
            for k in range(3):
                spec[i][k]=spec[i][k]+DIV(G,r*r*r)*m[j]*d[k]
    return a,spec,m
for N in (2,3,4,6):
    a,spec,m=gravity(N)
    t=time.time(); res=[]
    for i in range(N):
        for k in range(3):
            S=Solver(); S.set("timeout",30000)
            S.add(a[i][k]!=spec[i][k])
            res.append(str(S.check()))
    print("grav UF N",N,set(res),round(time.time()-t,2))
    # mutated: drop one pair -> expect sat
    S=Solver(); S.set("timeout",30000)
    S.add(a[0][0]!=spec[0][0]+DIV(G:=Real("G"),Real("q"))*m[1])
    t=time.time(); print("mut",S.check(),round(time.time()-t,2))
