from typing import Tuple
import rebound.units as U

def _check_units_perm(a: str, b: str, c: str) -> bool:
    """
    pre: a in U.lengths_SI and b in U.times_SI and c in U.masses_SI
    post: _
    """
    return U.check_units((a,b,c)) == U.check_units((c,a,b)) == (a,b,c)

def _conv_roundtrip(x: float, a: str, b: str) -> bool:
    """
    pre: a in U.lengths_SI and b in U.lengths_SI
    pre: -1e6 < x < 1e6
    post: _
    """
    y = U.convert_length(U.convert_length(x,a,b),b,a)
    return abs(y-x) <= 1e-9*abs(x)

def _sim_integrator_roundtrip(name: str) -> bool:
    """
    pre: name in rebound.simulation.INTEGRATORS
    post: _
    """
    import rebound
    s = rebound.Simulation()
    s.integrator = name
    return s.integrator == name and s._integrator == rebound.simulation.INTEGRATORS[name]
import rebound
