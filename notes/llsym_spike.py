# Throw-away feasibility spike: symbolic interpreter for a subset of LLVM-14 textual IR.
# Values: ints -> python int (concrete) ; doubles -> z3 Real (or python Fraction) ; pointers -> (obj, off)
import re, sys, time
from fractions import Fraction
import struct as pystruct
import z3

TRACE=False
class T: pass
class IntT(T):
    def __init__(s,b): s.bits=b
    def size(s): return max(1,(s.bits+7)//8)
    def align(s): return s.size()
    def __repr__(s): return f"i{s.bits}"
class FpT(T):
    def __init__(s,b): s.bits=b
    def size(s): return s.bits//8
    def align(s): return s.size()
    def __repr__(s): return "double" if s.bits==64 else "float"
class PtrT(T):
    def __init__(s,e): s.elem=e
    def size(s): return 8
    def align(s): return 8
    def __repr__(s): return f"{s.elem}*"
class ArrT(T):
    def __init__(s,n,e): s.n=n; s.elem=e
    def size(s): return s.n*s.elem.size()
    def align(s): return s.elem.align()
    def __repr__(s): return f"[{s.n} x {s.elem}]"
class StructT(T):
    def __init__(s,fields): s.fields=fields; s._lay=None
    def layout(s):
        if s._lay is None:
            off=0; offs=[]; al=1
            for f in s.fields:
                a=f.align(); al=max(al,a)
                off=(off+a-1)//a*a; offs.append(off); off+=f.size()
            size=(off+al-1)//al*al
            s._lay=(offs,size,al)
        return s._lay
    def size(s): return s.layout()[1]
    def align(s): return s.layout()[2]
    def __repr__(s): return "{...}"
class NamedT(T):
    def __init__(s,name,mod): s.name=name; s.mod=mod
    def res(s): return s.mod.types[s.name]
    def size(s): return s.res().size()
    def align(s): return s.res().align()
    def __repr__(s): return s.name
class VoidT(T):
    def __repr__(s): return "void"
class FuncT(T):
    def size(s): return 8
    def align(s): return 8
    def __repr__(s): return "fn"
class OpaqueT(T):
    def size(s): return 0
    def align(s): return 1

def resolve(t):
    while isinstance(t,NamedT): t=t.res()
    return t

class Module:
    def __init__(self,text):
        self.types={}; self.funcs={}; self.globals={}
        self.parse(text)
    def parse_type(self,s,i=0):
        # returns (type, newindex)
        s_=s
        while s[i]==' ': i+=1
        if s.startswith('void',i): t=VoidT(); i+=4
        elif s.startswith('double',i): t=FpT(64); i+=6
        elif s.startswith('float',i): t=FpT(32); i+=5
        elif s.startswith('...',i): t=VoidT(); i+=3
        elif s[i]=='i' and s[i+1].isdigit():
            m=re.match(r'i(\d+)',s[i:]); t=IntT(int(m.group(1))); i+=m.end()
        elif s[i]=='%':
            m=re.match(r'%[\w.]+|%"[^"]+"',s[i:]); t=NamedT(m.group(0),self); i+=m.end()
        elif s[i]=='[':
            m=re.match(r'\[\s*(\d+)\s*x\s*',s[i:]); n=int(m.group(1)); i+=m.end()
            e,i=self.parse_type(s,i)
            while s[i]==' ': i+=1
            assert s[i]==']'; i+=1; t=ArrT(n,e)
        elif s[i]=='{' or s.startswith('<{',i):
            packed = s[i]=='<'
            i+= 2 if packed else 1
            fields=[]
            while True:
                while s[i]==' ': i+=1
                if s[i]=='}': i+=1; break
                f,i=self.parse_type(s,i); fields.append(f)
                while s[i]==' ': i+=1
                if s[i]==',': i+=1
            if packed: i+=1
            t=StructT(fields)
        else:
            raise Exception("type? "+s[i:i+40])
        # suffixes: * or (args)
        while True:
            while i<len(s) and s[i]==' ': i+=1
            if i<len(s) and s[i]=='*': t=PtrT(t); i+=1
            elif i<len(s) and s[i]=='(':
                depth=0
                while True:
                    if s[i]=='(': depth+=1
                    if s[i]==')':
                        depth-=1
                        if depth==0: i+=1; break
                    i+=1
                t=FuncT()
            else: break
        return t,i
    def parse(self,text):
        lines=text.split('\n'); i=0
        while i<len(lines):
            l=lines[i]
            m=re.match(r'(%[\w.]+|%"[^"]+") = type (.*)',l)
            if m:
                if m.group(2).strip()=='opaque': self.types[m.group(1)]=OpaqueT()
                else: self.types[m.group(1)]=self.parse_type(m.group(2))[0]
            elif l.startswith('@'):
                m=re.match(r'(@[\w.]+) = (.*)',l); self.globals[m.group(1)]=m.group(2)
            elif l.startswith('define'):
                m=re.match(r'define .*?(@[\w.]+)\((.*)\)[^)]*\{',l)
                name=m.group(1)
                # params
                params=[]
                for p in split_top(m.group(2)):
                    p=p.strip()
                    if not p: continue
                    pm=re.search(r'(%[\w.]+)$',p); params.append(pm.group(1))

                blocks={}; order=[]; cur=None
                i+=1
                first=True
                while lines[i]!='}':
                    l2=lines[i]
                    bm=re.match(r'([\w.]+):',l2)
                    if bm: cur=bm.group(1); blocks[cur]=[]; order.append(cur)
                    elif l2.strip():
                        if l2.strip().startswith('switch') and ']' not in l2:
                            while ']' not in lines[i]:
                                i+=1; l2+=' '+lines[i].strip()
                        if cur is None:
                            cur='%entry'; blocks[cur]=[]; order.append(cur)
                        blocks[cur].append(l2.strip())
                    i+=1
                self.funcs[name]=dict(params=params,blocks=blocks,entry=order[0],sig=l)
            i+=1

def split_top(s):
    out=[];depth=0;cur=''
    for ch in s:
        if ch in '([{<': depth+=1
        if ch in ')]}>': depth-=1
        if ch==',' and depth==0: out.append(cur); cur=''
        else: cur+=ch
    if cur.strip(): out.append(cur)
    return out

class Ptr:
    __slots__=('obj','off')
    def __init__(s,obj,off): s.obj=obj; s.off=off
    def __repr__(s): return f"&{s.obj}+{s.off}"
    def __eq__(s,o): return isinstance(o,Ptr) and s.obj==o.obj and s.off==o.off
    def __hash__(s): return hash((s.obj,s.off))
NULL=Ptr(0,0)

class Mem:
    def __init__(s): s.objs={}; s.next=1
    def alloc(s,size,name=''):
        i=s.next; s.next+=1; s.objs[i]=dict(size=size,cells={},name=name,alive=True); return Ptr(i,0)
    def store(s,p,size,val):
        o=s.objs[p.obj]; assert o['alive']
        assert 0<=p.off and p.off+size<=o['size'], f"OOB store {p} size {size} objsize {o['size']} {o['name']}"
        # remove overlapping cells
        for off,(sz,v) in list(o['cells'].items()):
            if off<p.off+size and p.off<off+sz and off!=p.off:
                del o['cells'][off]
        o['cells'][p.off]=(size,val)
    def load(s,p,size):
        o=s.objs[p.obj]; assert o['alive']
        assert 0<=p.off and p.off+size<=o['size'], f"OOB load {p} size {size} objsize {o['size']} {o['name']}"
        c=o['cells'].get(p.off)
        if c is None: raise Exception(f"uninit load {p} {o['name']}")
        assert c[0]==size, f"size mismatch load {p} {c[0]} vs {size}"
        return c[1]
    def copy(s,dst,src,n):
        so=s.objs[src.obj]
        for off,(sz,v) in sorted(so['cells'].items()):
            if off>=src.off and off+sz<=src.off+n:
                s.store(Ptr(dst.obj,dst.off+off-src.off),sz,v)

class Interp:
    def __init__(s,mod,mem,stubs):
        s.mod=mod; s.mem=mem; s.stubs=stubs; s.ninstr=0; s.cache={}
    def tsize(s,t): return resolve(t).size()
    def const(s,tok,ty):
        ty=resolve(ty)
        if tok=='null': return NULL
        if tok in ('undef','poison'): return 0
        if tok=='true': return 1
        if tok=='false': return 0
        if isinstance(ty,FpT):
            if tok.startswith('0x'):
                return Fraction(pystruct.unpack('>d',bytes.fromhex(tok[2:].rjust(16,'0')))[0])
            return Fraction(tok)
        v=int(tok)
        if isinstance(ty,IntT): v&=(1<<ty.bits)-1
        return v
    def val(s,env,tok,ty):
        tok=tok.strip()
        if tok[0]=='%': return env[tok]
        if tok[0]=='@': return s.globalptr(tok)
        if tok.startswith('getelementptr'):
            m=re.match(r'getelementptr (inbounds )?\((.*)\)$',tok)
            return s.gep(env,m.group(2))
        if tok.startswith('bitcast'):
            m=re.match(r'bitcast \((.*) to .*\)$',tok)
            t,i=s.mod.parse_type(m.group(1)); return s.val(env,m.group(1)[i:],t)
        return s.const(tok,ty)
    def globalptr(s,name):
        if name in s.mod.funcs or name in s.stubs: return ('fn',name)
        raise Exception("global "+name)
    def gep(s,env,body):
        parts=split_top(body)
        bt,_=s.mod.parse_type(parts[0])
        pt,i=s.mod.parse_type(parts[1]); base=s.val(env,parts[1][i:],pt)
        off=base.off; cur=bt
        for k,p in enumerate(parts[2:]):
            it,i=s.mod.parse_type(p); idx=s.val(env,p[i:],it)
            if not isinstance(idx,int): raise Exception("symbolic gep index")
            if isinstance(it,IntT) and idx>=1<<(it.bits-1): idx-=1<<it.bits
            if k==0: off+=idx*s.tsize(cur)
            else:
                c=resolve(cur)
                if isinstance(c,StructT): off+=c.layout()[0][idx]; cur=c.fields[idx]
                elif isinstance(c,ArrT): off+=idx*c.elem.size(); cur=c.elem
                else: raise Exception("gep into "+str(c))
        return Ptr(base.obj,off)
    def call(s,fname,args):
        if fname in s.stubs: return s.stubs[fname](s,*args)
        f=s.mod.funcs[fname]
        env=dict(zip(f['params'],args))
        blk=f['entry']; prev=None
        allocas=[]
        while True:
            instrs=f['blocks'][blk]
            # phis first (parallel)
            newvals={}
            k=0
            while instrs[k].find('= phi ')>0:
                m=re.match(r'(%[\w.]+) = phi (.*)',instrs[k]); ty,i=s.mod.parse_type(m.group(2))
                for inc in re.findall(r'\[\s*([^,\]]+),\s*%([\w.]+)\s*\]',m.group(2)[i:]):
                    if inc[1]==prev or (prev=='%entry' and False): newvals[m.group(1)]=s.val(env,inc[0],ty)
                k+=1
            env.update(newvals)
            for ins in instrs[k:]:
                s.ninstr+=1
                r=s.step(env,ins,allocas)
                if r is None: continue
                if r[0]=='br':
                    if TRACE: print('  ',blk,'->',r[1])
                    prev=blk; blk=r[1]; break
                if r[0]=='ret': return r[1]
    def binop(s,op,a,b,bits=None):
        if op in ('fadd','fsub','fmul','fdiv'):
            if op=='fadd': return a+b
            if op=='fsub': return a-b
            if op=='fmul': return a*b
            if op=='fdiv': return a/b
        mask=(1<<bits)-1
        def sg(x): return x-(1<<bits) if x>=1<<(bits-1) else x
        if op=='add': return (a+b)&mask
        if op=='sub': return (a-b)&mask
        if op=='mul': return (a*b)&mask
        if op=='sdiv': return int(sg(a)/sg(b))&mask
        if op=='srem':
            x,y=sg(a),sg(b); return (x-int(x/y)*y)&mask
        if op=='and': return a&b
        if op=='or': return a|b
        if op=='xor': return a^b
        if op=='shl': return (a<<b)&mask
        if op=='lshr': return a>>b
        if op=='ashr': return (sg(a)>>b)&mask
        raise Exception(op)
    def step(s,env,ins,allocas):
        m=re.match(r'(%[\w.]+) = (.*)',ins)
        dst=None
        if m: dst=m.group(1); ins=m.group(2)
        op=ins.split(' ',1)[0]
        if op=='br':
            mm=re.match(r'br label %([\w.]+)',ins)
            if mm: return ('br',mm.group(1))
            mm=re.match(r'br i1 (.*), label %([\w.]+), label %([\w.]+)',ins)
            c=s.val(env,mm.group(1),IntT(1))
            if not isinstance(c,int):
                c=s.decide(c)
            return ('br',mm.group(2) if c else mm.group(3))
        if op=='ret':
            if ins=='ret void': return ('ret',None)
            t,i=s.mod.parse_type(ins[4:]); return ('ret',s.val(env,ins[4:][i:],t))
        if op=='switch':
            mm=re.match(r'switch (.*?), label %([\w.]+) \[(.*)\]',ins)
            t,i=s.mod.parse_type(mm.group(1)); v=s.val(env,mm.group(1)[i:],t)
            for cm in re.finditer(r'i\d+ (-?\d+), label %([\w.]+)',mm.group(3)):
                if int(cm.group(1))&((1<<t.bits)-1)==v: return ('br',cm.group(2))
            return ('br',mm.group(2))
        if op=='alloca':
            mm=re.match(r'alloca ([^,]*)',ins); t,_=s.mod.parse_type(mm.group(1))
            env[dst]=s.mem.alloc(s.tsize(t),'alloca'); return
        if op=='getelementptr':
            body=re.sub(r'^getelementptr (inbounds )?','',ins)
            env[dst]=s.gep(env,body); return
        if op=='load':
            mm=re.match(r'load (volatile )?(.*)',ins); parts=split_top(mm.group(2))
            t,_=s.mod.parse_type(parts[0]); pt,i=s.mod.parse_type(parts[1]); p=s.val(env,parts[1][i:],pt)
            env[dst]=s.mem.load(p,s.tsize(t)); return
        if op=='store':
            mm=re.match(r'store (volatile )?(.*)',ins); parts=split_top(mm.group(2))
            t,i=s.mod.parse_type(parts[0]); v=s.val(env,parts[0][i:],t)
            pt,i=s.mod.parse_type(parts[1]); p=s.val(env,parts[1][i:],pt)
            s.mem.store(p,s.tsize(t),v); return
        if op in ('fadd','fsub','fmul','fdiv','add','sub','mul','sdiv','srem','and','or','xor','shl','lshr','ashr'):
            rest=re.sub(r'^\w+ ((nsw|nuw|exact|fast|nnan|ninf|nsz) )*','',ins)
            t,i=s.mod.parse_type(rest); a,b=split_top(rest[i:])
            env[dst]=s.binop(op,s.val(env,a,t),s.val(env,b,t),getattr(t,'bits',None)); return
        if op=='fneg':
            t,i=s.mod.parse_type(ins[5:]); env[dst]=-s.val(env,ins[5:][i:],t); return
        if op=='icmp':
            mm=re.match(r'icmp (\w+) (.*)',ins); t,i=s.mod.parse_type(mm.group(2)); a,b=split_top(mm.group(2)[i:])
            a=s.val(env,a,t); b=s.val(env,b,t); pred=mm.group(1)
            if isinstance(a,Ptr) or isinstance(b,Ptr):
                env[dst]=int((a==b) if pred=='eq' else (a!=b)); return
            bits=resolve(t).bits
            def sg(x): return x-(1<<bits) if x>=1<<(bits-1) else x
            if pred[0]=='s': a,b=sg(a),sg(b)
            env[dst]=int({'eq':a==b,'ne':a!=b,'slt':a<b,'sle':a<=b,'sgt':a>b,'sge':a>=b,'ult':a<b,'ule':a<=b,'ugt':a>b,'uge':a>=b}[pred]); return
        if op=='fcmp':
            mm=re.match(r'fcmp (\w+) (.*)',ins); t,i=s.mod.parse_type(mm.group(2)); a,b=split_top(mm.group(2)[i:])
            a=s.val(env,a,t); b=s.val(env,b,t); pred=mm.group(1)
            r={'oeq':a==b,'one':a!=b,'olt':a<b,'ole':a<=b,'ogt':a>b,'oge':a>=b,'une':a!=b}[pred]
            env[dst]= int(r) if isinstance(r,bool) else r; return
        if op in ('zext','sext','trunc','bitcast','sitofp','uitofp','fptosi','ptrtoint','inttoptr','fpext','fptrunc'):
            mm=re.match(r'\w+ (.*) to (.*)',ins); t,i=s.mod.parse_type(mm.group(1)); v=s.val(env,mm.group(1)[i:],t)
            t2,_=s.mod.parse_type(mm.group(2))
            if op=='sext':
                if v>=1<<(t.bits-1): v=v-(1<<t.bits)+(1<<t2.bits)
            elif op=='trunc': v&=(1<<t2.bits)-1
            elif op=='sitofp':
                if v>=1<<(t.bits-1): v-=1<<t.bits
                v=Fraction(v)
            env[dst]=v; return
        if op=='select':
            parts=split_top(ins[7:]); ct,i=s.mod.parse_type(parts[0]); c=s.val(env,parts[0][i:],ct)
            t,i=s.mod.parse_type(parts[1]); a=s.val(env,parts[1][i:],t); t,i=s.mod.parse_type(parts[2]); b=s.val(env,parts[2][i:],t)
            if isinstance(c,int): env[dst]=a if c else b
            else: env[dst]=z3.If(c,a,b)
            return
        if op=='call':
            mm=re.match(r'call (.*?)(@[\w.]+)\((.*)\)',ins)
            fname=mm.group(2); args=[]
            for a in split_top(mm.group(3)):
                a=a.strip()
                t,i=s.mod.parse_type(a); rest=a[i:]
                rest=re.sub(r'^\s*((noundef|nonnull|signext|zeroext|nocapture|readonly|writeonly|noalias|immarg|align \d+|byval\([^)]*\)|sret\([^)]*\)|dereferenceable\(\d+\))\s+)*','',rest)
                args.append(s.val(env,rest,t))
            r=s.call(fname,args)
            if dst: env[dst]=r
            return
        if op=='unreachable': raise Exception("unreachable")
        raise Exception("unsupported: "+ins)
    def decide(s,c): raise Exception("symbolic branch")

if __name__=='__main__':
    text=open(sys.argv[1]).read()
    t0=time.time(); mod=Module(text); print("parsed",len(mod.funcs),"funcs",round(time.time()-t0,2))
    SQ=z3.Function("sqrt",z3.RealSort(),z3.RealSort())
    for N in (3,5):
        mem=Mem()
        simT=mod.types['%struct.reb_simulation']; pT=mod.types['%struct.reb_particle']
        sim=mem.alloc(simT.size(),'sim'); parts=mem.alloc(pT.size()*N,'particles')
        so=simT.layout()[0]; po=pT.layout()[0]
        def setf(idx,size,v): mem.store(Ptr(sim.obj,so[idx]),size,v)
        for fi,ft in enumerate(simT.fields):
            if isinstance(ft,IntT): mem.store(Ptr(sim.obj,so[fi]),ft.size(),0)
        G=z3.Real('G'); soft=z3.Real('soft')
        setf(1,8,G); setf(2,8,soft); setf(6,4,N); setf(7,4,0); setf(11,4,(-1)&0xffffffff); setf(12,4,0); setf(19,8,parts); setf(28,4,0); setf(83,4,0); setf(85,4,1)
        X=[[z3.Real(f"x{i}_{k}") for k in range(3)] for i in range(N)]; M=[z3.Real(f"m{i}") for i in range(N)]
        for i in range(N):
            for k in range(3): mem.store(Ptr(parts.obj,i*pT.size()+po[k]),8,X[i][k])
            mem.store(Ptr(parts.obj,i*pT.size()+po[9]),8,M[i])
        def gb(interp,sret,r,i,j,k):
            for q in range(6): interp.mem.store(Ptr(sret.obj,sret.off+8*q),8,Fraction(0))
        stubs={'@sqrt':lambda I,x: SQ(x), '@reb_boundary_get_ghostbox':gb, '@llvm.memcpy.p0i8.p0i8.i64':lambda I,d,s_,n,v: I.mem.copy(d,s_,n)}
        I=Interp(mod,mem,stubs)
        # volatile global reb_sigint
        sig=mem.alloc(4,'reb_sigint'); mem.store(sig,4,0)
        og=I.globalptr
        I.globalptr=lambda name: sig if name=='@reb_sigint' else og(name)
        t0=time.time(); I.call('@reb_calculate_acceleration',[sim]); t1=time.time()
        print("N",N,"instrs",I.ninstr,"exec s",round(t1-t0,2))
        print(mem.load(Ptr(parts.obj,po[6]),8))
        # spec check
        DIVok=True
        res=[]
        for i in range(N):
            for k in range(3):
                acc=mem.load(Ptr(parts.obj,i*pT.size()+po[6+k]),8)
                spec=z3.RealVal(0)
                for j in range(N):
                    if j==i: continue
                    d=[X[j][q]-X[i][q] for q in range(3)]
                    r=SQ(d[0]*d[0]+d[1]*d[1]+d[2]*d[2]+soft*soft)
                    spec=spec+G/(r*r*r)*M[j]*d[k]
                S=z3.Solver(); S.set("timeout",20000); S.add(acc!=spec); res.append(str(S.check()))
        print("check",set(res),round(time.time()-t1,2))
