import z3, time, sys
from z3 import Real, Solver, Or, And, RealVal
def fwd(P, M, N, Na):
    # P: list of dict x..vz ; M masses list
    keys=["x","v"]
    eta=M[0]; s={k:eta*P[0][k] for k in keys}
    J=[None]*N
    for i in range(1,Na):
        ei=1/eta
        eta=eta+M[i]
        pme=eta*ei
        J[i]={k:P[i][k]-s[k]*ei for k in keys}
        s={k:s[k]*pme+M[i]*J[i][k] for k in keys}
    ei=1/eta
    for i in range(Na,N):
        J[i]={k:P[i][k]-s[k]*ei for k in keys}
    Mt=eta; Mi=1/Mt
    J[0]={k:s[k]*Mi for k in keys}
    return J,Mt
def inv(J,Mt,M,N,Na):
    keys=["x","v"]
    eta=Mt; s={k:J[0][k]*eta for k in keys}
    P=[None]*N
    for i in range(N-1,Na-1,-1):
        ei=1/eta
        P[i]={k:J[i][k]+s[k]*ei for k in keys}
    for i in range(Na-1,0,-1):
        ei=1/eta
        s={k:(s[k]-M[i]*J[i][k])*ei for k in keys}
        P[i]={k:J[i][k]+s[k] for k in keys}
        eta=eta-M[i]
        s={k:s[k]*eta for k in keys}
    mi=1/eta
    P[0]={k:s[k]*mi for k in keys}
    return P
for N in (2,3,4,5):
  for Na in (N, max(1,N-1)):
    P=[{k:Real(f"{k}{i}") for k in ["x","v"]} for i in range(N)]
    M=[Real(f"m{i}") for i in range(N)]
    J,Mt=fwd(P,M,N,Na)
    Q=inv(J,Mt,M,N,Na)
    t=time.time(); res=[]
    for i in range(N):
        S=Solver(); S.set("timeout",20000)
        S.add([m>0 for m in M])
        S.add(Q[i]["x"]!=P[i]["x"])
        res.append(str(S.check()))
    print("jacobi rt N",N,"Na",Na,res,round(time.time()-t,2)); sys.stdout.flush()
