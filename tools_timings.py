#!/usr/bin/env python3
"""timings.json from the logs of the last full quick / thorough runs:  tools_timings.py <quick.out> <thorough.out>"""
import sys, re, json, os
V = os.path.dirname(os.path.abspath(__file__))
p = os.path.join(V, 'timings.json'); t = json.load(open(p)) if os.path.exists(p) else {}
for tier, fn in (('quick', sys.argv[1]), ('thorough', sys.argv[2] if len(sys.argv) > 2 else None)):
    if not fn or not os.path.exists(fn): continue
    for l in open(fn):
        m = re.match(r'(C\d\d) rc=(\d+) wall=(\d+) viol=(\d+) :: (.*)', l)
        if not m: continue
        pid, rc, wall, viol, rest = m.groups()
        mm = re.search(r'(\d+) obligations, (\d+) discharged.*?(\d+) inconclusive, (\d+) paths', rest)
        t.setdefault(pid, {})[tier] = dict(wall=int(wall), exit=int(rc), summary=("%s obligations, %s inconclusive, %s paths" % (mm.group(1), mm.group(3), mm.group(4))) if mm else rest[:80])
json.dump(t, open(p, 'w'), indent=1, sort_keys=True)
print(len(t), 'properties')
