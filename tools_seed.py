#!/usr/bin/env python3
"""Confirm a seeded change produced by a sub-agent and try the checks against it, without touching /repo:
   tools_seed.py <worktree with seed/> <PROPERTY_ID> <name> [extra check ids...]
 1. fresh scratch worktree of /repo HEAD + patch -> builds, demo fails, full suite = baseline failures only
 2. same worktree without the patch -> demo passes
 3. VERIF_REPO=<patched worktree> ./check <ID> quick (and thorough if quick misses) -> records which checks catch it
 results -> /verif/seeded/<name>/{patch.diff, demo.*, notes.md, meta.json}"""
import sys, os, subprocess, shutil, json, tempfile, time
wt, pid, name = sys.argv[1:4]
extra = sys.argv[4:]
seed = os.path.join(wt, 'seed')
dst = os.path.join('/verif/seeded', name); os.makedirs(dst, exist_ok=True)
for f in os.listdir(seed):
    if os.path.isfile(os.path.join(seed, f)): shutil.copy(os.path.join(seed, f), dst)
V = tempfile.mkdtemp(prefix='seedwt_'); os.rmdir(V)
def sh(cmd, cwd=None, env=None, timeout=3600):
    e = dict(os.environ); e.update(env or {})
    r = subprocess.run(cmd, shell=True, cwd=cwd, env=e, capture_output=True, text=True, timeout=timeout)
    return r.returncode, (r.stdout + r.stderr)
meta = dict(property=pid, name=name, source_worktree=wt, ran=[])
BUILD = "gcc -fstrict-aliasing -std=c99 -Wno-unknown-pragmas -DGITHASH=x -DLIBREBOUND -D_GNU_SOURCE -DSERVER -fPIC -O3 -w -shared $(ls src/*.c | grep -v communication_mpi) -lm -lpthread -o librebound.cpython-312-x86_64-linux-gnu.so"
try:
    rc, out = sh("git -C /repo worktree add -q --detach %s HEAD" % V); assert rc == 0, out
    rc, out = sh("git apply %s" % os.path.join(dst, 'patch.diff'), cwd=V); meta['patch_applies'] = rc == 0
    if rc != 0: meta['error'] = out[-500:]; raise SystemExit
    rc, out = sh(BUILD, cwd=V); meta['builds'] = rc == 0
    demo = [f for f in os.listdir(dst) if f.startswith('demo.')]
    def run_demo():
        d = demo[0]
        shutil.copy(os.path.join(dst, d), os.path.join(V, d))
        if d.endswith('.py'): return sh("/venv/bin/python %s" % d, cwd=V, env={'PYTHONPATH': V}, timeout=600)
        if d.endswith('.c'): return sh("gcc -std=c99 -O1 -Isrc %s -L. -l:librebound.cpython-312-x86_64-linux-gnu.so -lm -o demo_bin && LD_LIBRARY_PATH=. ./demo_bin" % d, cwd=V, timeout=600)
        return (99, 'unknown demo kind')
    rc, out = run_demo(); meta['demo_with_patch'] = dict(exit=rc, tail=out[-400:])
    rc, out = sh("/venv/bin/python -m pytest -q -p no:cacheprovider --timeout=900 --continue-on-collection-errors -q 2>&1 | tail -8", cwd=V, timeout=3000)
    meta['suite_with_patch_tail'] = out[-700:]
    fails = [l for l in out.splitlines() if l.startswith(('FAILED', 'ERROR'))]
    base = ['test_saba.py::test_method', 'test_simulationarchive_matrix.py::test_method', 'test_whfast_advanced.py::test_method', 'test_whfast_testparticles.py::test_method', 'test_horizons.py::TestHorizons::test_earth']
    meta['suite_only_baseline_failures'] = all(any(b in l for b in base) for l in fails) and len(fails) <= 5
    # checks against the patched tree
    for cid in [pid] + extra:
        for tier in ('quick', 'thorough'):
            outdir = tempfile.mkdtemp(prefix='seedout_')
            t0 = time.time()
            rc, out = sh("./check %s %s" % (cid, tier), cwd='/verif', env={'VERIF_REPO': V, 'VERIF_OUT': outdir}, timeout=5400)
            viol = [l for l in out.splitlines() if l.startswith('VIOLATION')]
            what = [l.strip() for l in out.splitlines() if l.strip().startswith('what:')]
            meta['ran'].append(dict(check=cid, tier=tier, exit=rc, violations=len(viol), first=what[:2], wall_s=round(time.time() - t0, 1), summary=[l for l in out.splitlines() if l.startswith(cid + ' ')][-1:]))
            shutil.rmtree(outdir, ignore_errors=True)
            if rc == 1 and viol: break
    # without the patch
    sh("git checkout -- .", cwd=V); sh(BUILD, cwd=V)
    rc, out = run_demo(); meta['demo_without_patch'] = dict(exit=rc, tail=out[-300:])
    meta['caught_by'] = [(r['check'], r['tier']) for r in meta['ran'] if r['exit'] == 1 and r['violations']]
    meta['confirmed'] = bool(meta['builds'] and meta['demo_with_patch']['exit'] != 0 and meta['demo_without_patch']['exit'] == 0 and meta['suite_only_baseline_failures'])
finally:
    sh("git -C /repo worktree remove --force %s" % V)
    json.dump(meta, open(os.path.join(dst, 'meta.json'), 'w'), indent=1)
    print(json.dumps({k: meta.get(k) for k in ('name', 'confirmed', 'caught_by')}))
